#!/bin/bash
# usage: tools/confirm_seed.sh <name> <patch.diff> <demo file> <dest path in repo> <go test args for the demo...>
# Confirms in a fresh scratch worktree: demo passes without the patch, fails with it, suite (without demo) passes with it.
set -u
NAME=$1; PATCH=$2; DEMO=$3; DEST=$4; shift 4
export GOFLAGS=-mod=mod GOPROXY=off GOSUMDB=off
W=/tmp/confirm_$NAME
git -C /repo worktree remove --force $W >/dev/null 2>&1; rm -rf $W
git -C /repo worktree add --detach $W HEAD >/dev/null 2>&1 || { echo "cannot create worktree"; exit 2; }
cd $W
mkdir -p "$(dirname "$DEST")"; cp "$DEMO" "$DEST"
go test -vet=off -count=1 "$@" > /tmp/confirm_$NAME.base.log 2>&1; BASE=$?
git apply "$PATCH" || { echo "patch does not apply"; exit 2; }
go build ./... > /tmp/confirm_$NAME.build.log 2>&1; BUILD=$?
go test -vet=off -count=1 "$@" > /tmp/confirm_$NAME.mut.log 2>&1; MUT=$?
rm -f "$DEST"
go test -vet=off -count=1 ./... > /tmp/confirm_$NAME.suite.log 2>&1; SUITE=$?
echo "$NAME: demo-without-patch=$BASE (want 0) build=$BUILD (want 0) demo-with-patch=$MUT (want !=0) suite-with-patch=$SUITE (want 0)"
cd /; git -C /repo worktree remove --force $W >/dev/null 2>&1; rm -rf $W
