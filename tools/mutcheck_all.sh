#!/bin/bash
# usage: tools/mutcheck_all.sh <dir with *.diff> [parallelism]
# Each candidate mutation gets its own scratch worktree; all twenty quick checks run against it (treecheck);
# one line per mutation: which checks report, or MISSED. Mutations are processed in parallel.
DIR=$1; P=${2:-4}
one() {
  d=$1; n=$(basename $d .diff); W=/tmp/wt/MA_$n
  git -C /repo worktree remove --force $W >/dev/null 2>&1; rm -rf $W
  git -C /repo worktree add -q --detach $W HEAD || { echo "$n: worktree failed"; return; }
  if ! git -C $W apply $d 2>/dev/null; then echo "$n: DOES-NOT-APPLY"; else
    out=$(/verif/tools/treecheck.sh $W 2>&1 | grep -o "^== C[0-9]* exit=[0-9]*\|rule=[A-Z0-9.]* .*detail=[^ ]*" | sed 's/role=[^ ]* function=[^ ]* //' | sort -u | tr '\n' ';')
    if [ -n "$out" ]; then echo "$n: CAUGHT $out"; else echo "$n: MISSED"; fi
  fi
  git -C /repo worktree remove --force $W
}
export -f one
ls $DIR/*.diff | sort | xargs -P $P -I{} bash -c 'one {}'
