#!/bin/bash
# usage: tools/treecheck.sh <tree dir> [property ids...]
# Runs the quick checks against another checkout (FOSITE_REPO=<dir>), e.g. a scratch worktree holding a
# behaviour-preserving refactoring; prints the checks that report anything. /repo is not touched.
set -u
TREE=$1; shift
IDS=${@:-$(python3 -c "import json;print(' '.join(c['property_id'] for c in json.load(open('/verif/MANIFEST.json'))['checks']))")}
W=/tmp/treecheck.$$; mkdir -p $W
for id in $IDS; do
  ( mkdir -p $W/$id; cp /verif/known_findings.json $W/$id/; FOSITE_REPO=$TREE VERIF_DIR=$W/$id /verif/bin/fositelint check $id quick > $W/$id.out 2>&1; echo $? > $W/$id.rc ) &
done
wait
for id in $IDS; do
  rc=$(cat $W/$id.rc)
  if [ "$rc" != "0" ]; then
    echo "== $id exit=$rc"
    grep -A3 "^VIOLATION\|^UNDECIDED" $W/$id.out | grep -v "path:" | head -${LINES_PER:-16}
    grep -i "cannot analyse\|internal error\|panic" $W/$id.out | head -3
  fi
done
rm -rf $W
