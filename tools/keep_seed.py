#!/usr/bin/env python3
"""usage: keep_seed.py <dir name> <property> <patch> <demo> <demo dest> <run cmd> <caught-by> <needs...>"""
import sys, os, json, shutil
name, prop, patch, demo, dest, cmd, caught, needs = sys.argv[1:9]
d = f"/verif/seeded/{name}"
os.makedirs(d, exist_ok=True)
shutil.copy(patch, f"{d}/patch.diff")
shutil.copy(demo, f"{d}/" + os.path.basename(demo) + (".txt" if demo.endswith(".go") else ""))
notes = os.path.join(os.path.dirname(patch), "NOTES.md")
if os.path.exists(notes):
    shutil.copy(notes, f"{d}/NOTES.md")
meta = {"property": prop, "breaks": prop, "needs_to_manifest": needs,
        "demonstration": {"file": os.path.basename(demo) + (".txt" if demo.endswith(".go") else ""), "place_at": dest, "run": cmd},
        "confirmed": "in a fresh scratch worktree of /repo HEAD (tools/confirm_seed.sh): demonstration passes without the patch, fails with it; go build ./... and the full existing suite (go test -vet=off -count=1 ./...) pass with the patch",
        "caught_by": caught.split(","), "source": "independent sub-agent given only the property text and a scratch worktree"}
json.dump(meta, open(f"{d}/meta.json", "w"), indent=1)
print("kept", d)
