#!/bin/bash
# usage: tools/allseeds.sh  — applies every kept seeded change in turn in a private scratch worktree of /repo HEAD,
# runs the checks named in its meta.json (caught_by) against that tree (FOSITE_REPO) and reports whether each still
# reports a violation. /repo itself is not touched, so this can run while other checks read /repo.
cd /verif
W=/tmp/wt/AS_$$
git -C /repo worktree add -q --detach $W HEAD || exit 2
trap 'git -C /repo worktree remove --force $W; rm -rf /tmp/allseeds.$$' EXIT
rc=0
for d in seeded/*/; do
  n=$(basename $d)
  ids=$(python3 -c "
import json,re
m=json.load(open('$d/meta.json'))
print(' '.join(sorted({re.match(r'(C\d+)',x.strip()).group(1) for x in m['caught_by'] if re.match(r'(C\d+)',x.strip())})))")
  git -C $W checkout -q -- . && git -C $W clean -fdq
  if ! git -C $W apply /verif/${d}patch.diff; then echo "NOAPPLY $n"; rc=1; continue; fi
  rules=""
  for id in $ids; do
    V=/tmp/allseeds.$$/$id; mkdir -p $V; cp /verif/known_findings.json $V/
    out=$(FOSITE_REPO=$W VERIF_DIR=$V /verif/bin/fositelint check $id quick 2>&1)
    if [ $? -eq 1 ]; then rules="$rules $(echo "$out" | grep -o 'rule=[A-Z0-9.]* .*detail=[^ ]*' | sed 's/role=[^ ]* function=[^ ]* //' | sort -u | head -3 | tr '\n' ';')"; fi
  done
  if [ -n "$rules" ]; then echo "CAUGHT $n by $ids:$rules"; else echo "MISSED $n ($ids)"; rc=1; fi
done
exit $rc
