#!/bin/bash
# usage: tools/allseeds.sh  — applies every kept seeded change to /repo in turn, runs the checks named in its
# meta.json (caught_by) and reports whether each still reports a violation. /repo is restored after each.
cd /verif
for d in seeded/*/; do
  n=$(basename $d)
  ids=$(python3 -c "
import json,re,sys
m=json.load(open('$d/meta.json'))
ids=sorted({re.match(r'(C\d+)',x.strip()).group(1) for x in m['caught_by'] if re.match(r'(C\d+)',x.strip())})
print(' '.join(ids))")
  out=$(tools/seedcheck.sh /verif/${d}patch.diff $ids 2>&1)
  caught=$(echo "$out" | grep -c "^== ")
  rules=$(echo "$out" | grep -o "rule=[A-Z0-9.]* [a-z=-]*.*detail=[^ ]*" | sed 's/role=[^ ]* function=[^ ]* //' | sort -u | head -4 | tr '\n' ';')
  if [ "$caught" -ge 1 ]; then echo "CAUGHT $n by $ids: $rules"; else echo "MISSED $n ($ids): $out"; fi
done
