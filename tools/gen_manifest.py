#!/usr/bin/env python3
"""Regenerates /verif/MANIFEST.json from the registry of implemented checks.
The per-property texts live in tools/manifest_props.json (level text, note, technique)."""
import json, os, re, sys
V = os.path.dirname(os.path.dirname(os.path.abspath(__file__)))
props = json.load(open(os.path.join(V, "tools", "manifest_props.json")))
ids = [json.loads(l)["id"] for l in open(os.path.join(V, "properties.jsonl"))]
checks, na = [], []
for pid in ids:
    p = props.get(pid, {})
    if p.get("implemented"):
        checks.append({
            "property_id": pid,
            "quick_cmd": f"./check {pid} quick",
            "thorough_cmd": f"./check {pid} thorough",
            "evidence_file": f"/verif/evidence/{pid}.json",
            "replay_cmd_template": f"./check {pid} quick --replay {{path}}",
            "engine": "fositelint",
            "level_claimed": {"category": "other", "text": p["text"], "design_ref": f"DESIGN.md section 4, {pid}"},
            "level_note": p["note"],
            "technique": p["technique"],
        })
    else:
        na.append({"property_id": pid, "reason": p.get("na_reason", "static rules for this property are not built yet in this round; no verdict is claimed")})
m = {
    "version": 1,
    "setup_cmd": "cd /verif/checker && GOFLAGS=-mod=mod GOPROXY=off GOSUMDB=off GOTOOLCHAIN=local go build -o /verif/bin/fositelint .",
    "hooks": {"guard": "verif", "enable": "none needed: the checks are static analyses of the source; no hook or instrumentation exists in /repo", "baseline_off_cmd": "cd /repo && GOFLAGS=-mod=mod go test -vet=off -count=1 ./...", "source_commits": [], "add_only": True},
    "engines": [{"name": "fositelint", "path": "/verif/checker", "serves_properties": [c["property_id"] for c in checks],
                 "kind_free_text": "repository-specific static analyzer on go/packages + go/ssa (x/tools v0.29.0): path-sensitive predicate tracking over the SSA CFG with a purity-based term abstraction, bounded inlining, order/typestate, provenance, who-may, lockset and table-agreement rules; never executes fosite, no solver"}],
    "checks": checks,
    "not_applicable": na,
    "notes": "All verdicts are computed from /repo's current working tree by static analysis only. Every check is claimed at level 'other': it decides named structural necessary conditions of the property (listed in level_claimed.text and in the evidence explanation together with what is NOT decided). thorough = quick + the overlay mutant self-test corpus (mutants/*.json), which is evidence about the checker, never part of the verdict. Known findings: known_findings.json.",
}
json.dump(m, open(os.path.join(V, "MANIFEST.json"), "w"), indent=1)
print("checks:", len(checks), "not_applicable:", len(na))
