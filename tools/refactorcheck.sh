#!/bin/bash
# usage: tools/refactorcheck.sh [names...]
# For each behaviour-preserving refactoring kept under /verif/refactors/<name>/patch.diff: make a scratch worktree of
# /repo HEAD under /tmp, apply the patch there, run every quick check against that tree and remove the worktree.
# Any VIOLATION/UNDECIDED printed here is a false alarm of the machinery (the refactorings pass the full test suite).
cd /verif
NAMES=${@:-$(ls refactors)}
rc=0
for n in $NAMES; do
  W=/tmp/rc_$n
  git -C /repo worktree remove --force $W >/dev/null 2>&1; rm -rf $W
  git -C /repo worktree add -q --detach $W HEAD || { echo "cannot create worktree"; exit 2; }
  if ! git -C $W apply /verif/refactors/$n/patch.diff; then echo "$n: patch does not apply to HEAD"; rc=2; else
    out=$(tools/treecheck.sh $W 2>&1)
    if [ -n "$out" ]; then echo "##### $n: FALSE ALARM"; echo "$out"; rc=1; else echo "##### $n: silent"; fi
  fi
  git -C /repo worktree remove --force $W
done
exit $rc
