#!/bin/bash
# usage: tools/seedcheck.sh <patch.diff> [property ids...]
# Applies a seeded change to /repo, runs the quick checks, reverts. Prints which checks report a violation.
set -u
PATCH=$1; shift
IDS=${@:-$(python3 -c "import json;print(' '.join(c['property_id'] for c in json.load(open('/verif/MANIFEST.json'))['checks']))")}
cd /repo || exit 2
if ! git diff --quiet; then echo "/repo has uncommitted changes"; exit 2; fi
git apply "$PATCH" || { echo "patch does not apply"; exit 2; }
trap 'cd /repo && git checkout -- . && git clean -fdq' EXIT
mkdir -p /tmp/seedcheck.$$
for id in $IDS; do
  ( cd /verif && VERIF_DIR=/tmp/seedcheck.$$/$id ; mkdir -p $VERIF_DIR; cp /verif/known_findings.json $VERIF_DIR/; VERIF_DIR=$VERIF_DIR /verif/bin/fositelint check $id quick > /tmp/seedcheck.$$/$id.out 2>&1; echo $? > /tmp/seedcheck.$$/$id.rc ) &
done
wait
for id in $IDS; do
  rc=$(cat /tmp/seedcheck.$$/$id.rc)
  if [ "$rc" != "0" ]; then
    echo "== $id exit=$rc"
    grep -A3 "^VIOLATION" /tmp/seedcheck.$$/$id.out | grep -v "path:" | head -12
    grep -i "cannot analyse\|internal error" /tmp/seedcheck.$$/$id.out | head -3
  fi
done
rm -rf /tmp/seedcheck.$$
