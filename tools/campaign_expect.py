#!/usr/bin/env python3
"""usage: tools/campaign_expect.py [Cxx[.N] ...]
For every candidate mutation under /verif/campaign/<dir>/NN.diff: apply it in a private scratch worktree, run the
quick check of its own property (the directory name before the dot); if that is silent run all twenty; record the
first reporting rule in /verif/campaign/EXPECT.json ({"Cxx/NN": {"expect": "<rule id>", "note": ...}}). Candidates
nothing reports keep an entry in /verif/campaign/UNCLAIMED.json together with the hand-written reason found there.
The thorough tier replays every EXPECT entry as a positive mutant of the property that owns the rule.
Environment: FOSITE_BIN (default /verif/bin/fositelint), CE_WORKERS (default 6 worktrees, at most 3 checks each)."""
import json, os, re, subprocess, sys, glob, threading, queue
from concurrent.futures import ThreadPoolExecutor
V='/verif'
BIN=os.environ.get('FOSITE_BIN',f'{V}/bin/fositelint')
NW=int(os.environ.get('CE_WORKERS','6'))
props=[c['property_id'] for c in json.load(open(f'{V}/MANIFEST.json'))['checks']]
exp_path=f'{V}/campaign/EXPECT.json'; unc_path=f'{V}/campaign/UNCLAIMED.json'
exp=json.load(open(exp_path)) if os.path.exists(exp_path) else {}
unc=json.load(open(unc_path)) if os.path.exists(unc_path) else {}
lock=threading.Lock()
def run(W,prop):
    vd=f'/tmp/ce_{os.getpid()}/{os.path.basename(W)}/{prop}'; os.makedirs(vd,exist_ok=True)
    subprocess.run(['cp',f'{V}/known_findings.json',vd])
    r=subprocess.run([BIN,'check',prop,'quick'],env=dict(os.environ,FOSITE_REPO=W,VERIF_DIR=vd),capture_output=True,text=True)
    rules=sorted(set(re.findall(r'rule=(C\d+\.\w+)',r.stdout)))
    return r.returncode, rules
def one(W,pdir,d):
    name=f'{pdir}/{os.path.basename(d)[:-5]}'
    subprocess.run(['git','-C',W,'checkout','-q','--','.']); subprocess.run(['git','-C',W,'clean','-fdq'])
    if subprocess.run(['git','-C',W,'apply',d]).returncode!=0:
        return name,'DOES-NOT-APPLY',None
    prop=pdir.split('.')[0]
    rc,rules=run(W,prop)
    if rc==1 and rules:
        own=[r for r in rules if r.startswith(prop+'.')] or rules
        return name,'CAUGHT '+own[0],{'expect':own[0],'note':'all: '+' '.join(rules)}
    others=[p for p in props if p!=prop]
    with ThreadPoolExecutor(max_workers=3) as ex:
        res=list(ex.map(lambda p: run(W,p), others))
    allrules=[]
    for (rc,rules) in res:
        if rc==1: allrules+=rules
    if allrules:
        a=sorted(set(allrules))
        return name,'CAUGHT (neighbour) '+a[0],{'expect':a[0],'note':'neighbour; all: '+' '.join(a)}
    return name,'MISSED',None
sel=sys.argv[1:] or sorted(os.path.basename(d) for d in glob.glob(f'{V}/campaign/C*') if os.path.isdir(d))
jobs=queue.Queue()
for pdir in sel:
    for d in sorted(glob.glob(f'{V}/campaign/{pdir}/*.diff')): jobs.put((pdir,d))
out={}
def worker(i):
    W=f'/tmp/wt/CE_{os.getpid()}_{i}'
    subprocess.run(['git','-C','/repo','worktree','add','-q','--detach',W,'HEAD'],check=True)
    try:
        while True:
            try: pdir,d=jobs.get_nowait()
            except queue.Empty: return
            name,verdict,e=one(W,pdir,d)
            with lock:
                out[name]=verdict
                if verdict=='DOES-NOT-APPLY': pass
                elif e: exp[name]=e; unc.pop(name,None)
                else: exp.pop(name,None); unc.setdefault(name,{'reason':'TRIAGE'})
                json.dump(exp,open(exp_path,'w'),indent=1,sort_keys=True); json.dump(unc,open(unc_path,'w'),indent=1,sort_keys=True)
                print(name,verdict,flush=True)
    finally:
        subprocess.run(['git','-C','/repo','worktree','remove','--force',W])
ts=[threading.Thread(target=worker,args=(i,)) for i in range(NW)]
[t.start() for t in ts]; [t.join() for t in ts]
subprocess.run(['rm','-rf',f'/tmp/ce_{os.getpid()}'])
n=sum(1 for v in out.values() if v.startswith('CAUGHT'))
print(f'SUMMARY caught={n} of {len(out)}; missed: '+' '.join(sorted(k for k,v in out.items() if v=='MISSED')))
