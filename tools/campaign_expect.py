#!/usr/bin/env python3
"""usage: tools/campaign_expect.py [Cxx ...]
For every candidate mutation under /verif/campaign/<Cxx>/NN.diff: apply it in a private scratch worktree, run the
quick check of its own property; if that is silent run all twenty; record the first reporting rule in
/verif/campaign/EXPECT.json ({"Cxx/NN": {"expect": "<rule id>", "note": ...}}). Candidates nothing reports keep
an entry under "unclaimed" in /verif/campaign/UNCLAIMED.json together with the hand-written reason found there.
The thorough tier replays every EXPECT entry as a positive mutant of the property that owns the rule."""
import json, os, re, subprocess, sys, glob
V='/verif'
props=[c['property_id'] for c in json.load(open(f'{V}/MANIFEST.json'))['checks']]
W=f'/tmp/wt/CE_{os.getpid()}'
subprocess.run(['git','-C','/repo','worktree','add','-q','--detach',W,'HEAD'],check=True)
exp_path=f'{V}/campaign/EXPECT.json'; unc_path=f'{V}/campaign/UNCLAIMED.json'
exp=json.load(open(exp_path)) if os.path.exists(exp_path) else {}
unc=json.load(open(unc_path)) if os.path.exists(unc_path) else {}
def run(prop):
    vd=f'/tmp/ce_{os.getpid()}/{prop}'; os.makedirs(vd,exist_ok=True)
    subprocess.run(['cp',f'{V}/known_findings.json',vd])
    r=subprocess.run([f'{V}/bin/fositelint','check',prop,'quick'],env=dict(os.environ,FOSITE_REPO=W,VERIF_DIR=vd),capture_output=True,text=True)
    rules=sorted(set(re.findall(r'rule=(C\d+\.\w+)',r.stdout)))
    return r.returncode, rules
try:
    sel=sys.argv[1:] or sorted(os.path.basename(d) for d in glob.glob(f'{V}/campaign/C*') if os.path.isdir(d))
    for pdir in sel:
        for d in sorted(glob.glob(f'{V}/campaign/{pdir}/*.diff')):
            name=f'{pdir}/{os.path.basename(d)[:-5]}'
            subprocess.run(['git','-C',W,'checkout','-q','--','.']); subprocess.run(['git','-C',W,'clean','-fdq'])
            if subprocess.run(['git','-C',W,'apply',d]).returncode!=0:
                print(name,'DOES-NOT-APPLY'); continue
            prop=pdir.split('.')[0]
            rc,rules=run(prop)
            if rc==1 and rules:
                own=[r for r in rules if r.startswith(prop+'.')] or rules
                exp[name]={'expect':own[0],'note':'all: '+' '.join(rules)}; unc.pop(name,None)
                print(name,'CAUGHT',own[0]); continue
            found=None
            from concurrent.futures import ThreadPoolExecutor
            others=[p for p in props if p!=prop]
            with ThreadPoolExecutor(max_workers=10) as ex:
                res=list(ex.map(run, others))
            allrules=[]
            for (rc,rules) in res:
                if rc==1: allrules+=rules
            if allrules:
                found=(sorted(allrules)[0],sorted(set(allrules)))
            if found:
                exp[name]={'expect':found[0],'note':'neighbour; all: '+' '.join(found[1])}; unc.pop(name,None)
                print(name,'CAUGHT (neighbour)',found[0])
            else:
                exp.pop(name,None); unc.setdefault(name,{'reason':'TRIAGE'})
                print(name,'MISSED')
            json.dump(exp,open(exp_path,'w'),indent=1,sort_keys=True); json.dump(unc,open(unc_path,'w'),indent=1,sort_keys=True)
    json.dump(exp,open(exp_path,'w'),indent=1,sort_keys=True); json.dump(unc,open(unc_path,'w'),indent=1,sort_keys=True)
finally:
    subprocess.run(['git','-C','/repo','worktree','remove','--force',W])
