#!/usr/bin/env python3
import json, glob, os
print("| seeded change (`/verif/seeded/<dir>`) | property | needs, to manifest | reported by |")
print("|---|---|---|---|")
for d in sorted(glob.glob('/verif/seeded/*/')):
    m = json.load(open(d + 'meta.json'))
    print(f"| `{os.path.basename(d.rstrip('/'))}` | {m['property']} | {m['needs_to_manifest']} | {'; '.join(m['caught_by'])} |")
