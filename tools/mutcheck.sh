#!/bin/bash
# usage: tools/mutcheck.sh <dir containing NN.diff files> <property id> [more ids...]
# For every candidate mutation (a patch against /repo HEAD written by a sub-agent) apply it in a private scratch
# worktree, run the named quick checks against that tree and report CAUGHT (with rule) or MISSED. /repo is untouched.
set -u
DIR=$1; shift
IDS="$@"
W=/tmp/wt/MC_$$
git -C /repo worktree add -q --detach $W HEAD || exit 2
trap 'git -C /repo worktree remove --force $W' EXIT
for d in $(ls $DIR/*.diff | sort); do
  n=$(basename $d .diff)
  git -C $W checkout -q -- . && git -C $W clean -fdq
  if ! git -C $W apply $d 2>/dev/null; then echo "$n: DOES-NOT-APPLY"; continue; fi
  res=""
  for id in $IDS; do
    V=/tmp/mutcheck.$$/$id; mkdir -p $V; cp /verif/known_findings.json $V/
    out=$(FOSITE_REPO=$W VERIF_DIR=$V /verif/bin/fositelint check $id quick 2>&1); rc=$?
    if [ $rc -eq 1 ]; then res="$res $(echo "$out" | grep -o 'rule=[A-Z0-9.]* .*detail=[^ ]*' | sed 's/role=[^ ]* function=[^ ]* //' | sort -u | head -3 | tr '\n' ';')"; fi
    if [ $rc -ge 2 ]; then res="$res [$id: no verdict rc=$rc: $(echo "$out" | tail -1 | cut -c1-160)]"; fi
  done
  if [ -n "$res" ]; then echo "$n: CAUGHT $res"; else echo "$n: MISSED ($IDS)"; fi
done
rm -rf /tmp/mutcheck.$$
