package main

import (
	"fmt"
	"go/types"
	"sort"
	"strings"

	"golang.org/x/tools/go/ssa"
)

// Shared helpers that several properties lean on without looking into them.

// Arguments membership: Arguments.Has / HasOneOf / ExactOne are pure calls in
// every handler rule ("the client has the refresh_token grant", "the grant
// contains one of the refresh scopes"). They all go through StringInSlice;
// its documented meaning is case-insensitive *equality* with some element —
// a prefix or substring test would make "offline_reports" count as "offline".
func checkStringInSlice(c *Ctx, rule string) {
	checkMembershipHelper(c, rule, pkgRoot+".StringInSlice", 0, 1, "StringInSlice (behind Arguments.Has/HasOneOf/ExactOne)")
}

// checkResponseModeHas: the same for ResponseModeTypes.Has, which decides whether a response mode is handled by
// the core writer or delegated to a custom handler before the redirect URI is re-validated.
func checkResponseModeHas(c *Ctx, rule string) {
	checkMembershipHelper(c, rule, "("+pkgRoot+".ResponseModeTypes).Has", 1, 0, "ResponseModeTypes.Has")
}

// checkVerifyAud: the JWT audience test behind MapClaims.VerifyAudience (client assertions: C10, JWT-bearer
// grants: C15) accepts only a whole-string match of one audience entry; an absent audience passes only when
// the claim is not required.
func checkVerifyAud(c *Ctx, rule string) {
	checkMembershipHelper(c, rule, pkgJWT+".verifyAud", 1, 0, "jwt.verifyAud (behind MapClaims.VerifyAudience)", func(p *Path, fn *ssa.Function) bool {
		return p.Holds(atomEQ(call("len", paramNamed(fn, 0)), tInt(0)), true) && p.Holds(atomB(paramNamed(fn, 2)), false)
	})
}

func checkMembershipHelper(c *Ctx, rule, name string, needleIdx, hayIdx int, display string, tolerated ...func(p *Path, fn *ssa.Function) bool) {
	const role = "membership-helper"
	fn := c.P.Func(name)
	if fn == nil {
		c.RoleUnmatched(rule, role, name)
		return
	}
	ex := c.Explore(fn, ExploreConfig{}, "helper")
	if !c.complete(ex, rule, role, fn) {
		return
	}
	needle, hay := paramNamed(fn, needleIdx), paramNamed(fn, hayIdx)
	ok, n := true, 0
	var w *Path
	for _, p := range ex.Paths {
		if p.Kind != "return" || len(p.Rets) != 1 || p.Rets[0].Key() != tTrue.Key() {
			continue
		}
		n++
		eq := false
		for _, f := range p.Facts {
			if !f.Pol {
				continue
			}
			var a, b *Term
			switch {
			case f.Atom.Kind == "EQ":
				a, b = f.Atom.A, f.Atom.B
			case f.Atom.Kind == "B" && f.Atom.A.IsCall("strings.EqualFold") && len(f.Atom.A.Args) == 2:
				a, b = f.Atom.A.Args[0], f.Atom.A.Args[1]
			default:
				continue
			}
			strip := func(t *Term) *Term {
				for t.IsCall("strings.ToLower", "strings.ToUpper") && len(t.Args) == 1 {
					t = t.Args[0]
				}
				return t
			}
			a, b = strip(a), strip(b)
			isEl := func(t *Term) bool {
				return (t.Op == "idx" || t.Op == "rangeval") && len(t.Args) == 2 && t.Args[0].Key() == hay.Key()
			}
			if a.Key() == needle.Key() && isEl(b) || b.Key() == needle.Key() && isEl(a) {
				eq = true
			}
		}
		for _, t := range tolerated {
			if !eq && t(p, fn) {
				eq = true
			}
		}
		if !eq {
			ok, w = false, p
		}
	}
	c.Check(ok && n > 0, rule, role, fn, "membership-is-equality", display+" is true only if the needle equals an element (case-insensitively), never on a prefix or substring", "true is returned without an equality between the needle and an element", w)
}

// Session expiry setter: SetExpiresAt(kind, t) records t unconditionally. Every
// handler stamps lifetimes through it (C07.R3/R7/R8); a setter that keeps an
// already-recorded later value makes a shorter per-client override silently
// ineffective on every cloned session.
func checkSessionSetExpiresAt(c *Ctx, rule string) {
	const role = "session-setter"
	n := 0
	for _, fn := range c.Impls(pkgRoot, "Session", "SetExpiresAt") {
		ex := c.Explore(fn, ExploreConfig{}, "setter")
		if !c.complete(ex, rule, role, fn) {
			continue
		}
		key, exp := paramNamed(fn, 1), paramNamed(fn, 2)
		ok, m := true, 0
		var w *Path
		for _, p := range ex.Paths {
			if p.Kind != "return" {
				continue
			}
			m++
			set := false
			for _, e := range p.Events {
				if e.Kind == "mapupdate" && len(e.Args) == 3 && e.Args[1].Key() == key.Key() && e.Args[2].Key() == exp.Key() {
					// ... into the session's own table: a field of the receiver, or a fresh map that is
					// installed in a field of the receiver on this path (a write into a local map is lost)
					m := e.Args[0]
					recv := paramNamed(fn, 0)
					if addrRoot(m).Key() == recv.Key() {
						set = true
					}
					for _, st := range p.Events {
						if st.Kind == "store" && len(st.Args) == 2 && st.Args[1].Key() == m.Key() && addrRoot(st.Args[0]).Key() == recv.Key() {
							set = true
						}
					}
				}
				// delegation to an embedded session
				if e.Kind == "call" && e.Name == ".SetExpiresAt" && len(e.Args) == 2 && e.Arg(0).Key() == key.Key() && e.Arg(1).Key() == exp.Key() {
					set = true
				}
			}
			if !set {
				ok, w = false, p
			}
		}
		if m > 0 {
			n++
			c.Check(ok, rule, role, fn, "records-unconditionally", "SetExpiresAt stores the given expiry under the given token type on every path", "a path returns without storing the expiry (an existing value is kept)", w)
		}
	}
	if n == 0 {
		c.RoleUnmatched(rule, role, "implementation of fosite.Session.SetExpiresAt")
	}
}

// Client.IsPublic: "public clients are identified without a secret" — the client
// authentication strategy returns a public client before looking at any
// credential. Every implementation must report exactly the registered Public
// flag; deriving publicness from anything else (the auth method, an empty
// secret) lets a confidential client through without its secret.
func checkIsPublic(c *Ctx, rule string) {
	const role = "client-type"
	n := 0
	for _, fn := range c.Impls(pkgRoot, "Client", "IsPublic") {
		ex := c.Explore(fn, ExploreConfig{}, "client")
		if !c.complete(ex, rule, role, fn) {
			continue
		}
		n++
		ok := true
		var w *Path
		for _, p := range ex.Paths {
			if p.Kind != "return" || len(p.Rets) != 1 || p.Rets[0].Key() != tTrue.Key() {
				continue
			}
			pub := false
			for _, f := range p.Facts {
				if f.Atom.Kind == "B" && f.Pol && f.Atom.A.Op == "field" && f.Atom.A.Name == "Public" {
					pub = true
				}
			}
			if !pub {
				ok, w = false, p
			}
		}
		c.Check(ok, rule, role, fn, "public-flag-only", "IsPublic is true only if the client's registered Public flag is true", "true is returned without the Public flag being set", w)
	}
	if n == 0 {
		c.RoleUnmatched(rule, role, "implementation of fosite.Client.IsPublic")
	}
}

// Registered grant types default: RFC 7591 §2 — a client that registered no
// grant types may use authorization_code only. The default must not contain any
// other grant (refresh_token in particular: C05 "never honoured for a client
// lacking that grant").
func checkGrantTypesDefault(c *Ctx, rule string) {
	const role = "client-type"
	n := 0
	for _, fn := range c.Impls(pkgRoot, "Client", "GetGrantTypes") {
		ex := c.Explore(fn, ExploreConfig{}, "client")
		if !c.complete(ex, rule, role, fn) {
			continue
		}
		n++
		ok := true
		why := ""
		var w *Path
		for _, p := range ex.Paths {
			if p.Kind != "return" || len(p.Rets) != 1 {
				continue
			}
			r := p.Rets[0]
			if r.Mentions(func(t *Term) bool { return t.Op == "field" && t.Name == "GrantTypes" }) {
				continue
			}
			// a literal default
			var items []string
			r.Walk(func(t *Term) bool {
				if v, isC := t.StrConst(); isC {
					items = append(items, v)
				}
				return true
			})
			if len(items) != 1 || items[0] != "authorization_code" {
				ok, w, why = false, p, fmt.Sprintf("the default grant types are [%s]; RFC 7591 allows authorization_code only", strings.Join(items, " "))
			}
		}
		c.Check(ok, rule, role, fn, "grant-types-default", "a client without registered grant types may use authorization_code only", why, w)
	}
	if n == 0 {
		c.RoleUnmatched(rule, role, "implementation of fosite.Client.GetGrantTypes")
	}
}

// The push endpoint installs the session before the handlers run: the PAR
// handler stamps the request's lifetime into ar.GetSession() only if there is a
// session; installed afterwards, the stamp is silently skipped and the
// request_uri never expires.
func checkPARSessionOrder(c *Ctx, rule string) {
	const role = "par-response"
	fn := c.P.Func("(*" + pkgRoot + ".Fosite).NewPushedAuthorizeResponse")
	if fn == nil {
		c.RoleUnmatched(rule, role, "(*Fosite).NewPushedAuthorizeResponse")
		return
	}
	ex := c.Explore(fn, rootCfg(), "root")
	if !c.complete(ex, rule, role, fn) {
		return
	}
	ar := paramByType(fn, "fosite.AuthorizeRequester")
	sess := paramByType(fn, "fosite.Session")
	ok, n := true, 0
	var w *Path
	for _, p := range ex.Paths {
		var set *Event
		for _, e := range p.Calls(".SetSession") {
			if e.Recv != nil && ar != nil && e.Recv.Key() == ar.Key() && sess != nil && e.Arg(0).Key() == sess.Key() {
				set = e
			}
		}
		for _, e := range p.Calls(".HandlePushedAuthorizeEndpointRequest") {
			n++
			if set == nil || set.Idx > e.Idx {
				ok, w = false, p
			}
		}
	}
	c.Check(ok && n > 0, rule, role, fn, "session-installed-before-handlers", "the caller's session is installed on the request before any push handler runs", "a handler runs before ar.SetSession(session)", w)
}

// The introspection dispatcher reports what the validator found, not what the
// caller hinted: the TokenUse it returns is the value returned by the
// validator that accepted the token. (The endpoint's bearer branch relies on
// it: "the caller's credential must be an *access* token".)
func checkIntrospectDispatch(c *Ctx, rule string) {
	const role = "introspect-dispatch"
	fn := c.P.Func("(*" + pkgRoot + ".Fosite).IntrospectToken")
	if fn == nil {
		c.RoleUnmatched(rule, role, "(*Fosite).IntrospectToken")
		return
	}
	ex := c.Explore(fn, rootCfg(), "root")
	if !c.complete(ex, rule, role, fn) {
		return
	}
	ok, n := true, 0
	var w *Path
	why := ""
	for _, p := range ex.Paths {
		if p.Kind != "return" || p.Classify() != ExitSuccess || len(p.Rets) < 1 {
			continue
		}
		n++
		r := p.Rets[0]
		from := false
		for _, e := range p.Calls(".IntrospectToken") {
			if e.Invoke && r.Key() == e.Ret(0).Key() && p.IsNil(errResult(e)) {
				from = true
			}
		}
		if !from {
			ok, w, why = false, p, "the returned token use is "+clip(r.Pretty(), 60)+", not the value returned by a validator that accepted the token"
		}
	}
	c.Check(ok && n > 0, rule, role, fn, "token-use-from-validator", "Fosite.IntrospectToken returns the token use reported by the validator that accepted the token", why, w)
	// the validators judge the very string the caller supplied: the endpoint compares the raw token with
	// the caller's own bearer credential ("a different token"), so a token that is trimmed, unescaped or
	// otherwise normalised on the way to the validators is a second spelling of the same credential
	tok := paramByType(fn, "string")
	okT, nT := true, 0
	var wT *Path
	whyT := ""
	for _, p := range ex.Paths {
		for _, e := range p.Calls(".IntrospectToken") {
			if !e.Invoke || len(e.Args) < 2 {
				continue
			}
			nT++
			if tok == nil || e.Arg(1).Key() != tok.Key() {
				okT, wT = false, p
				whyT = "a validator receives " + clip(e.Arg(1).Pretty(), 60) + ", not the token string IntrospectToken was called with"
			}
		}
	}
	// every configured validator is consulted: a later validator may know that a token an earlier
	// (stateless) one accepts has been revoked; "first acceptance wins" reports it active
	okAll, nAll := true, 0
	var wAll *Path
	for _, p := range ex.Paths {
		if p.Kind != "return" || p.Classify() != ExitSuccess {
			continue
		}
		if evs := p.Calls(".IntrospectToken"); len(evs) > 0 {
			nAll++
			hs := evs[len(evs)-1].Recv
			if hs == nil || hs.Op != "idx" || len(hs.Args) != 2 || !p.LoopExhausted(nil, hs.Args[0]) {
				okAll, wAll = false, p
			}
		}
	}
	c.Check(okAll && nAll > 0, rule, role, fn, "all-validators-consulted", "a success exit of Fosite.IntrospectToken is reached only after every configured validator was invoked", "success is reachable with the validator loop left early", wAll)
	c.Check(okT && nT > 0, rule, role, fn, "validators-see-the-raw-token", "every validator is handed exactly the token string Fosite.IntrospectToken received", whyT, wT)
}

// Compose factories wire the provider's own collaborators: a handler built by a
// factory uses the strategy / storage / config it was handed, never a freshly
// constructed one (a revocation handler with its own HMAC strategy cannot find
// the JWT access tokens the provider issues).
func checkFactoriesUseGivenStrategy(c *Ctx, rule string) {
	const role = "compose-factory"
	n := 0
	var bad []string
	for _, fn := range c.P.AllFuncs {
		if fnPkgPath(fn) != pkgCompose || fn.Parent() != nil || fn.Signature.Recv() != nil || fn.Signature.Params().Len() != 3 || fn.Signature.Results().Len() != 1 {
			continue
		}
		if !strings.HasSuffix(fn.Name(), "Factory") {
			continue
		}
		n++
		for _, b := range fn.Blocks {
			for _, ins := range b.Instrs {
				ci, ok := ins.(ssa.CallInstruction)
				if !ok {
					continue
				}
				if sf := ci.Common().StaticCallee(); sf != nil && strings.HasPrefix(sf.Name(), "New") && strings.Contains(sf.Name(), "Strategy") && strings.HasPrefix(fnPkgPath(sf), modPath) {
					bad = append(bad, fmt.Sprintf("%s constructs %s (%s)", fn.Name(), sf.Name(), c.P.Pos(ins.Pos())))
				}
			}
		}
	}
	if n < 8 {
		c.RoleUnmatched(rule, role, fmt.Sprintf("at least 8 compose factories; found %d", n))
	}
	c.Check(len(bad) == 0, rule, role, nil, "no-private-strategy", "no compose factory constructs a token strategy of its own; handlers use the strategy the provider was composed with", strings.Join(bad, "; "), nil)
}

// Token endpoint: the request is populated before the handlers see it and is
// not rewritten afterwards. The handlers validate requested scopes and audience
// against the registration (client_credentials, password) or replace them by the
// stored grant's (authorization_code, refresh_token); both are void if the form
// values are installed only after the dispatch loop.
func checkAccessRequestPopulated(c *Ctx, rule string) {
	const role = "token-endpoint"
	fn := c.P.Func("(*" + pkgRoot + ".Fosite).NewAccessRequest")
	if fn == nil {
		c.RoleUnmatched(rule, role, "(*Fosite).NewAccessRequest")
		return
	}
	ex := c.Explore(fn, rootCfg(), "root")
	if !c.complete(ex, rule, role, fn) {
		return
	}
	ok, n := true, 0
	why := ""
	var w *Path
	mentionsForm := func(t *Term, key string) bool {
		return t.Mentions(func(x *Term) bool { return x.Op == "field" && x.Name == "PostForm" }) && (key == "" || t.Mentions(func(x *Term) bool { s, isStr := x.StrConst(); return isStr && s == key }))
	}
	for _, p := range ex.Paths {
		var req *Term
		first := -1
		for i, e := range p.Events {
			if e.Kind == "call" && e.Invoke && (e.Name == ".CanHandleTokenEndpointRequest" || e.Name == ".HandleTokenEndpointRequest") && len(e.Args) > 1 {
				req, first = e.Arg(1), i
				break
			}
		}
		if req == nil {
			continue
		}
		n++
		have := map[string]bool{}
		for _, e := range p.Events[:first] {
			switch {
			case e.Kind == "call" && e.Name == ".SetRequestedScopes" && e.Recv != nil && e.Recv.Key() == req.Key() && len(e.Args) > 0 && mentionsForm(e.Args[0], "scope"):
				have["scope"] = true
			case e.Kind == "call" && e.Name == ".SetRequestedAudience" && e.Recv != nil && e.Recv.Key() == req.Key() && len(e.Args) > 0 && mentionsForm(e.Args[0], ""):
				have["audience"] = true
			case e.Kind == "store" && len(e.Args) > 1 && addrRoot(e.Args[0]).Key() == req.Key():
				switch {
				case e.Name == "GrantTypes" && mentionsForm(e.Args[1], "grant_type"):
					have["grant_type"] = true
				case e.Name == "Form" && mentionsForm(e.Args[1], ""):
					have["form"] = true
				case e.Name == "RequestedScope" && mentionsForm(e.Args[1], "scope"):
					have["scope"] = true
				case e.Name == "RequestedAudience" && mentionsForm(e.Args[1], ""):
					have["audience"] = true
				}
			}
		}
		for _, k := range []string{"scope", "audience", "grant_type", "form"} {
			if !have[k] {
				ok, w, why = false, p, "the handlers run before the request's "+k+" has been installed from the posted form"
			}
		}
		seenHandle := false
		for _, e := range p.Events[first:] {
			if e.Kind == "call" && e.Invoke && e.Name == ".HandleTokenEndpointRequest" {
				seenHandle = true
				continue
			}
			if !seenHandle {
				continue
			}
			wr := e.Kind == "store" && len(e.Args) > 1 && addrRoot(e.Args[0]).Key() == req.Key() ||
				e.Kind == "call" && e.Recv != nil && e.Recv.Key() == req.Key() && (strings.HasPrefix(e.Name, ".Set") || strings.HasPrefix(e.Name, ".Grant") || strings.HasPrefix(e.Name, ".Merge") || strings.HasPrefix(e.Name, ".Append"))
			if wr {
				ok, w, why = false, p, fmt.Sprintf("the request is written (%s at %s) after a handler has validated it", strings.TrimPrefix(e.Name, "."), c.P.Pos(e.Instr.Pos()))
			}
		}
	}
	c.Check(ok && n > 0, rule, role, fn, "populated-before-dispatch", "NewAccessRequest installs form, grant_type, requested scope and audience before the first handler runs and does not write the request after a handler validated it", why, w)
}

// Registration getters of the reference client types. Every check that reads a
// registration ("the client may use this response mode", "the registered
// signing algorithm", "the registered redirect URIs") goes through the Client
// interfaces; the reference types answer with the field of that name. A getter
// that invents a permissive default for an empty registration (or answers from
// a sibling field) widens what every handler allows. def is the one documented
// default (returned exactly when the field is empty).
type clientGetter struct{ typ, meth, field, def string }

func checkClientGetters(c *Ctx, rule string, rows ...clientGetter) {
	const role = "client-registration"
	for _, g := range rows {
		fn := c.P.Func("(*" + pkgRoot + "." + g.typ + ")." + g.meth)
		if fn == nil {
			c.RoleUnmatched(rule, role, "(*fosite."+g.typ+")."+g.meth)
			continue
		}
		ex := c.Explore(fn, ExploreConfig{}, "client")
		if !c.complete(ex, rule, role, fn) {
			continue
		}
		fld := field(paramNamed(fn, 0), g.field)
		ok, n := true, 0
		why := ""
		var w *Path
		for _, p := range ex.Paths {
			if p.Kind != "return" || len(p.Rets) != 1 {
				continue
			}
			n++
			r := p.Rets[0]
			switch {
			case r.Key() == fld.Key():
			case r.Key() == tTrue.Key() || r.Key() == tFalse.Key():
				if !p.Holds(atomB(fld), r.Key() == tTrue.Key()) {
					ok, w, why = false, p, fmt.Sprintf("%s answers %s on a path where the registered %s is not known to have that value", g.meth, r.Name, g.field)
				}
			default:
				s, isStr := r.StrConst()
				if g.def != "" && isStr && s == g.def && p.EmptyStr(fld) {
					continue
				}
				ok, w, why = false, p, fmt.Sprintf("%s returns %s, not the registered %s", g.meth, clip(r.Pretty(), 60), g.field)
			}
		}
		c.Check(ok && n > 0, rule, role, fn, "registration-getter:"+g.typ+"."+g.meth, g.typ+"."+g.meth+" answers with the registered "+g.field+" (documented default only for an empty registration)", why, w)
	}
}

// Credentials come from the request body. RFC 6749 §2.3.1: client credentials
// "MUST NOT be included in the request URI". The endpoints hand
// AuthenticateClient the form it may read client_id / client_secret /
// client_assertion from; r.PostForm is the body, r.Form also contains the URL
// query. Sites: token, device-authorization and revocation endpoints. The
// pushed-authorization endpoint passes r.Form today and its unit tests build
// requests that way — it is the one named exception (DESIGN section 5,
// observed, not claimed).
func checkCredentialsFromBody(c *Ctx, rule string) {
	const role = "endpoint-authn"
	target := c.P.Func("(*" + pkgRoot + ".Fosite).AuthenticateClient")
	if target == nil {
		c.RoleUnmatched(rule, role, "(*Fosite).AuthenticateClient")
		return
	}
	exempt := map[string]bool{"NewPushedAuthorizeRequest": true}
	n := 0
	for _, fn := range c.P.MethodsOf(pkgRoot, "Fosite") {
		for _, b := range fn.Blocks {
			for _, ins := range b.Instrs {
				call, ok := ins.(ssa.CallInstruction)
				if !ok || call.Common().StaticCallee() != target || len(call.Common().Args) < 4 {
					continue
				}
				// the endpoint(s) this call site serves: the exported Fosite methods that reach it
				onlyExempt, any := true, false
				for _, ep := range c.P.MethodsOf(pkgRoot, "Fosite") {
					if ep.Object() == nil || !ep.Object().Exported() || !c.P.reaches(ep, fn, 3) {
						continue
					}
					any = true
					if !exempt[ep.Name()] {
						onlyExempt = false
					}
				}
				if any && onlyExempt {
					continue
				}
				n++
				src := ""
				v := call.Common().Args[3]
				if u, ok := v.(*ssa.UnOp); ok {
					if fa, ok := u.X.(*ssa.FieldAddr); ok {
						src = fieldNameOf(fa.X.Type(), fa.Field)
					}
				}
				c.Check(src == "PostForm", rule, role, fn, "credentials-from-body", "the form handed to AuthenticateClient is the request body (r.PostForm), never a form that includes the URL query", "AuthenticateClient at "+c.P.Pos(ins.Pos())+" receives "+map[bool]string{true: "r." + src, false: "another value"}[src != ""], nil)
			}
		}
	}
	if n < 3 {
		c.RoleUnmatched(rule, role, fmt.Sprintf("at least 3 endpoint call sites of AuthenticateClient (found %d)", n))
	}
}

// JWKS cache identity: the key set a client assertion is verified against is
// the one fetched from that client's jwks_uri. The fetcher caches by location;
// the cache key must contain the whole location string (a truncated or
// normalised key makes two clients share one entry, and one client's key then
// authenticates the other), reads and writes use the same key, and the URL
// fetched is the location itself.
func checkJWKSCacheKey(c *Ctx, rule string) {
	const role = "jwks-fetcher"
	fn := c.P.Func("(*" + pkgRoot + ".DefaultJWKSFetcherStrategy).Resolve")
	if fn == nil {
		c.RoleUnmatched(rule, role, "(*DefaultJWKSFetcherStrategy).Resolve")
		return
	}
	ex := c.Explore(fn, ExploreConfig{}, "jwks")
	if !c.complete(ex, rule, role, fn) {
		return
	}
	loc := paramNamed(fn, 2)
	whole := func(k *Term) bool {
		// location appears as a direct operand of a concatenation / format, not under a string function
		found := false
		var rec func(t *Term, ok bool)
		rec = func(t *Term, ok bool) {
			if t.Key() == loc.Key() && ok {
				found = true
			}
			pass := ok && (t.Op == "bin" || t.Op == "lit" || t.IsCall("fmt.Sprintf") || t.IsCall("fmt.Sprint"))
			for _, a := range t.Args {
				rec(a, pass)
			}
		}
		if k.Key() == loc.Key() {
			return true
		}
		rec(k, true)
		return found
	}
	ok, n := true, 0
	why := ""
	var w *Path
	for _, p := range ex.Paths {
		var first *Term
		for _, e := range p.Events {
			if e.Kind != "call" {
				continue
			}
			if e.Recv != nil && e.Recv.Op == "field" && e.Recv.Name == "cache" && len(e.Args) > 0 && (strings.HasPrefix(e.Name, ".Get") || strings.HasPrefix(e.Name, ".Set")) {
				n++
				k := e.Args[0]
				if !whole(k) {
					ok, w, why = false, p, "the cache key "+clip(k.Pretty(), 70)+" does not contain the whole location"
				}
				if first == nil {
					first = k
				} else if first.Key() != k.Key() {
					ok, w, why = false, p, "the cache is read under "+clip(first.Pretty(), 50)+" and written under "+clip(k.Pretty(), 50)
				}
			}
			if e.Name == "retryablehttp.NewRequest" && len(e.Args) > 1 && e.Args[1].Key() != loc.Key() {
				ok, w, why = false, p, "the URL fetched is "+clip(e.Args[1].Pretty(), 60)+", not the location"
			}
		}
	}
	c.Check(ok && n > 0, rule, role, fn, "cache-keyed-by-location", "the JWKS cache is read and written under one key that contains the whole jwks_uri, and that URI is what is fetched", why, w)
}

// Session clones share nothing with the stored session. The refresh flow (and
// every flow that re-issues from a stored request) works on
// original.GetSession().Clone() and then stamps new expiries / ID-token claims
// into it; a clone that shares a map or pointer with the original rewrites the
// stored record before (and regardless of whether) the transaction commits, and
// two concurrent requests write the same object. Accepted shapes: the result is
// deepcopy.Copy(receiver); or a fresh struct in which no pointer/map/slice/
// interface field still holds the receiver's value (a whole-struct copy must
// overwrite every such field, a field-wise copy must not copy one verbatim).
func checkSessionCloneDeep(c *Ctx, rule string) {
	const role = "session-clone"
	n := 0
	for _, fn := range c.Impls(pkgRoot, "Session", "Clone") {
		if fn.Pkg == nil || !isSubjectPkg(fn.Pkg.Pkg.Path()) || len(fn.Params) == 0 {
			continue
		}
		n++
		recv := fn.Params[0]
		why := ""
		strip := func(v ssa.Value) ssa.Value {
			for {
				switch x := v.(type) {
				case *ssa.MakeInterface:
					v = x.X
				case *ssa.TypeAssert:
					v = x.X
				case *ssa.ChangeInterface:
					v = x.X
				case *ssa.ChangeType:
					v = x.X
				default:
					return v
				}
			}
		}
		isRef := func(t types.Type) bool {
			switch t.Underlying().(type) {
			case *types.Pointer, *types.Map, *types.Slice, *types.Interface, *types.Chan:
				return true
			}
			return false
		}
		for _, b := range fn.Blocks {
			for _, ins := range b.Instrs {
				ret, ok := ins.(*ssa.Return)
				if !ok || len(ret.Results) != 1 {
					continue
				}
				v := strip(ret.Results[0])
				if k, isC := v.(*ssa.Const); isC && k.IsNil() {
					continue
				}
				if call, isCall := v.(*ssa.Call); isCall {
					if src := deepCopied(call, 3); src != nil && strip(src) == ssa.Value(recv) {
						continue
					}
					why = "the clone is the result of " + call.Common().Value.String() + ", not deepcopy.Copy(receiver)"
					continue
				}
				al, isAlloc := v.(*ssa.Alloc)
				if !isAlloc {
					why = "the clone is not a fresh object"
					continue
				}
				st, _ := al.Type().Underlying().(*types.Pointer).Elem().Underlying().(*types.Struct)
				if st == nil {
					why = "the clone is not a struct"
					continue
				}
				whole := false
				over, alias := map[int]bool{}, map[int]bool{}
				for _, ref := range *al.Referrers() {
					switch r := ref.(type) {
					case *ssa.Store:
						if r.Addr == ssa.Value(al) {
							if u, isU := r.Val.(*ssa.UnOp); isU && u.X == ssa.Value(recv) {
								whole = true
							}
						}
					case *ssa.FieldAddr:
						for _, fr := range *r.Referrers() {
							if s2, isS := fr.(*ssa.Store); isS && s2.Addr == ssa.Value(r) {
								val := strip(s2.Val)
								if u, isU := val.(*ssa.UnOp); isU {
									if fa, isFA := u.X.(*ssa.FieldAddr); isFA && fa.X == ssa.Value(recv) {
										alias[r.Field] = true
										continue
									}
								}
								over[r.Field] = true
							}
						}
					}
				}
				for i := 0; i < st.NumFields(); i++ {
					if !isRef(st.Field(i).Type()) {
						continue
					}
					if alias[i] && !over[i] || whole && !over[i] {
						why = "the clone shares the " + st.Field(i).Name() + " field (" + st.Field(i).Type().String() + ") with the session it was cloned from"
					}
				}
			}
		}
		c.Check(why == "", rule, role, fn, "clone-shares-nothing", "Session.Clone returns deepcopy.Copy(receiver) or a fresh struct none of whose reference-typed fields still holds the receiver's value", why, nil)
	}
	if n < 2 {
		c.RoleUnmatched(rule, role, fmt.Sprintf("at least 2 Session.Clone implementations (found %d)", n))
	}
}

// JWT parsing: a signature failure ends the parse. ParseWithClaims verifies
// the signature (parsedToken.Claims(key, ...)) and only then evaluates the
// claims (claims.Valid()). Callers classify the returned ValidationError by its
// bits ("an expired id_token_hint is fine"); if the unverified claims are still
// evaluated after a signature failure and the bits merged, a forged token with
// an old exp is reported as merely expired. Rule: on every path where the
// signature check returned a non-nil error the function fails, and the error it
// returns is not derived from claims.Valid().
func checkParseSignatureFirst(c *Ctx, rule string) {
	const role = "jwt-parse"
	fn := c.P.Func(pkgJWT + ".ParseWithClaims")
	if fn == nil {
		c.RoleUnmatched(rule, role, "jwt.ParseWithClaims")
		return
	}
	ex := c.Explore(fn, ExploreConfig{}, "jwt")
	if !c.complete(ex, rule, role, fn) {
		return
	}
	ok, n := true, 0
	why := ""
	var w *Path
	for _, p := range ex.Paths {
		if p.Kind != "return" {
			continue
		}
		var sig *Event
		for _, e := range p.Calls(".Claims") {
			sig = e
		}
		if sig == nil || sig.Result == nil || !p.NonNil(sig.Result) {
			continue
		}
		n++
		if p.Classify() == ExitSuccess {
			ok, w, why = false, p, "the parse succeeds although the signature check failed"
			continue
		}
		if er := p.ErrRet(); er != nil && er.Mentions(func(t *Term) bool { return t.IsCall(".Valid") }) {
			ok, w, why = false, p, "after a failed signature check the returned error is derived from claims.Valid() (the unverified claims are evaluated)"
		}
	}
	c.Check(ok && n > 0, rule, role, fn, "signature-failure-ends-parse", "when the signature check fails ParseWithClaims fails with that error; the claims of an unverified token are not evaluated", why, w)
}

// Request getters that hand out the request's own storage. Handlers scrub and
// amend the request through the getter (GetRequestForm().Del("client_secret"),
// delete(GetRequestForm(), "password")); a getter that returns a copy turns
// every such write into a no-op on the request that is stored.
func checkRequestGetters(c *Ctx, rule string) {
	const role = "request-getter"
	for _, g := range []struct{ meth, field string }{{"GetRequestForm", "Form"}, {"GetSession", "Session"}, {"GetClient", "Client"}} {
		fn := c.P.Func("(*" + pkgRoot + ".Request)." + g.meth)
		if fn == nil {
			c.RoleUnmatched(rule, role, "(*fosite.Request)."+g.meth)
			continue
		}
		ex := c.Explore(fn, ExploreConfig{}, "request")
		if !c.complete(ex, rule, role, fn) {
			continue
		}
		fld := field(paramNamed(fn, 0), g.field)
		ok, n := true, 0
		var w *Path
		for _, p := range ex.Paths {
			if p.Kind != "return" || len(p.Rets) != 1 {
				continue
			}
			n++
			if p.Rets[0].Key() != fld.Key() {
				ok, w = false, p
			}
		}
		c.Check(ok && n > 0, rule, role, fn, "returns-own-storage:"+g.meth, "Request."+g.meth+" returns the request's "+g.field+" itself, so that writes through the getter reach the request", "the getter returns another value (a copy or a different field)", w)
	}
}

// deepCopied: the value a call deep-copies — the argument of deepcopy.Copy, or,
// through a helper of the module whose every result is the deep copy of one of
// its parameters (cloneOf[T](v) = deepcopy.Copy(v).(T)), the corresponding
// argument of the helper call.
func deepCopied(call *ssa.Call, depth int) ssa.Value {
	cal := call.Common().StaticCallee()
	if cal == nil || depth == 0 {
		return nil
	}
	if cal.Name() == "Copy" && cal.Pkg != nil && strings.HasSuffix(cal.Pkg.Pkg.Path(), "deepcopy") && len(call.Common().Args) == 1 {
		return call.Common().Args[0]
	}
	if len(cal.Blocks) == 0 || !isSubjectPkg(fnPkgPath(cal)) {
		return nil
	}
	idx := -1
	for _, b := range cal.Blocks {
		for _, ins := range b.Instrs {
			ret, ok := ins.(*ssa.Return)
			if !ok {
				continue
			}
			if len(ret.Results) != 1 {
				return nil
			}
			v := ret.Results[0]
			for {
				switch x := v.(type) {
				case *ssa.MakeInterface:
					v = x.X
					continue
				case *ssa.TypeAssert:
					v = x.X
					continue
				case *ssa.ChangeInterface:
					v = x.X
					continue
				case *ssa.ChangeType:
					v = x.X
					continue
				}
				break
			}
			inner, ok := v.(*ssa.Call)
			if !ok {
				return nil
			}
			src := deepCopied(inner, depth-1)
			for {
				switch x := src.(type) {
				case *ssa.MakeInterface:
					src = x.X
					continue
				case *ssa.ChangeInterface:
					src = x.X
					continue
				}
				break
			}
			p, ok := src.(*ssa.Parameter)
			if !ok {
				return nil
			}
			for i, q := range cal.Params {
				if q == p {
					if idx >= 0 && idx != i {
						return nil
					}
					idx = i
				}
			}
		}
	}
	if idx < 0 || idx >= len(call.Common().Args) {
		return nil
	}
	return call.Common().Args[idx]
}

// Responsibility is decided the same way by every token-endpoint handler. The
// handlers of one grant co-operate (for authorization_code: the OAuth2 code
// handler redeems, the PKCE handler verifies the verifier, the OpenID handler
// adds the ID token); each decides "is this my request" from the grant_type
// list. All of them answer true only for ExactOne(grant types, <their grant>):
// a handler that accepts a list merely containing its grant is responsible for
// a request its companions declare not to be theirs, and redeems it without
// their checks.
func checkCanHandleExact(c *Ctx, rule string) {
	const role = "responsibility"
	n := 0
	for _, fn := range c.Impls(pkgRoot, "TokenEndpointHandler", "CanHandleTokenEndpointRequest") {
		if !isSubjectPkg(fnPkgPath(fn)) || !c.P.RefsMethod(fn, 1, ".GetGrantTypes") {
			continue
		}
		ex := c.Explore(fn, ExploreConfig{}, "canhandle")
		if !c.complete(ex, rule, role, fn) {
			continue
		}
		n++
		ok, m := true, 0
		var w *Path
		for _, p := range ex.Paths {
			if p.Kind != "return" || len(p.Rets) != 1 || p.Rets[0].Key() != tTrue.Key() {
				continue
			}
			m++
			exact := false
			for _, f := range p.Facts {
				if f.Atom.Kind == "B" && f.Pol && f.Atom.A.IsCall(".ExactOne") && len(f.Atom.A.Args) == 2 && f.Atom.A.Args[0].IsCall(".GetGrantTypes") {
					if _, isC := f.Atom.A.Args[1].StrConst(); isC {
						exact = true
					}
				}
			}
			if !exact {
				ok, w = false, p
			}
		}
		c.Check(ok && m > 0, rule, role, fn, "responsible-for-exactly-one-grant", "CanHandleTokenEndpointRequest answers true only if the request's grant types are exactly the handler's one grant type", "true is returned without ExactOne(grant types, <constant>)", w)
	}
	if n < 6 {
		c.RoleUnmatched(rule, role, fmt.Sprintf("at least 6 grant-type based CanHandleTokenEndpointRequest implementations (found %d)", n))
	}
}

// Tokens are minted from the finished grant. The token strategies read the
// request when they are called (a JWT access token copies GetGrantedScopes /
// GetGrantedAudience into its claims at that moment); a request that is still
// granted scopes or audience after GenerateAccessToken / GenerateRefreshToken
// yields a token whose content lags behind what the response and the store say.
func checkGrantedBeforeMint(c *Ctx, rule string) {
	const role = "issue"
	mint := map[string]bool{".GenerateAccessToken": true, ".GenerateRefreshToken": true, ".GenerateIDToken": true}
	n := 0
	for _, en := range c.allEntries() {
		if en.role != "issue" && en.role != "authorize" || !c.P.CallsNamedAny(en.fn, 3, mint) || !c.P.RefsMethod(en.fn, 3, ".GrantScope", ".GrantAudience") {
			continue
		}
		ex := c.Explore(en.fn, ExploreConfig{NoArgInline: true, Inline: func(f *ssaFunction) bool {
			return f.Parent() != nil || handlerInline(f) && (c.P.CallsNamedAny(f, 3, mint) || c.P.RefsMethod(f, 3, ".GrantScope", ".GrantAudience"))
		}}, "mint-order")
		if !c.complete(ex, rule, role, en.fn) {
			continue
		}
		ok, m := true, 0
		why := ""
		var w *Path
		for _, p := range ex.Paths {
			for _, e := range p.Events {
				if e.Kind != "call" || !mint[e.Name] || len(e.Args) < 2 {
					continue
				}
				m++
				var req *Term
				for _, a := range e.Args {
					if a != nil && a != tCtx && !a.IsConst() && a.Type != nil && (strings.Contains(a.Type.String(), "Requester") || strings.Contains(a.Type.String(), "Request")) {
						req = a
					}
				}
				if req == nil {
					continue
				}
				for _, g := range p.Events[e.Idx+1:] {
					if g.Kind == "call" && (g.Name == ".GrantScope" || g.Name == ".GrantAudience") && g.Recv != nil && g.Recv.Key() == req.Key() {
						ok, w = false, p
						why = fmt.Sprintf("%s (%s) grants on the request after %s (%s) minted a token from it", g.Name, c.P.Pos(g.Instr.Pos()), e.Name, c.P.Pos(e.Instr.Pos()))
					}
				}
			}
		}
		if m > 0 {
			n++
			c.Check(ok, rule, role, en.fn, "granted-before-mint", "no scope or audience is granted on a request after a token was generated from it", why, w)
		}
	}
	if n < 2 {
		c.RoleUnmatched(rule, role, fmt.Sprintf("at least 2 issuing functions that grant and mint (found %d)", n))
	}
}

// One transport per presentation. The method gate of client authentication
// ("a client registered for client_secret_basic must not use the body") judges
// the transport by where credentials are *present*; it is sound only if the
// credentials that are then verified come from that same place. The extraction
// function returns either the header pair (when the request carries Basic
// authentication) or the body pair — never a mixture (an id from the header
// with a secret from the body passes neither arm of the gate).
func checkOneTransport(c *Ctx, rule string) {
	const role = "credential-extraction"
	fn := c.P.Func(pkgRoot + ".clientCredentialsFromRequest")
	if fn == nil {
		c.RoleUnmatched(rule, role, "fosite.clientCredentialsFromRequest")
		return
	}
	ex := c.Explore(fn, ExploreConfig{Inline: func(f *ssa.Function) bool { return true }}, "authn-extract")
	if !c.complete(ex, rule, role, fn) {
		return
	}
	isHeader := func(t *Term) bool { return t.Mentions(func(s *Term) bool { return s.IsCall(".BasicAuth") }) }
	isBody := func(t *Term) bool {
		return t.Mentions(func(s *Term) bool { return s.Op == "param" && strings.HasPrefix(s.Name, "1:") })
	}
	ok, n := true, 0
	why := ""
	var w *Path
	for _, p := range ex.Paths {
		if p.Kind != "return" || len(p.Rets) != 3 || p.Classify() != ExitSuccess {
			continue
		}
		n++
		id, sec := p.Rets[0], p.Rets[1]
		switch {
		case isHeader(id) && isHeader(sec) && !isBody(id) && !isBody(sec):
		case isBody(id) && isBody(sec) && !isHeader(id) && !isHeader(sec):
		case isHeader(id) && !isBody(id) && sec.Key() == tStr("").Key(), isBody(id) && !isHeader(id) && sec.Key() == tStr("").Key():
		default:
			ok, w = false, p
			why = "client id " + clip(id.Pretty(), 50) + " and secret " + clip(sec.Pretty(), 50) + " do not come from one transport"
		}
	}
	c.Check(ok && n >= 2, rule, role, fn, "one-transport", "the credentials handed to verification are the Basic-header pair or the body pair, never a mixture", why, w)
}

// Typed claims win over free-form extras. JWTClaims.ToMap / IDTokenClaims.ToMap
// render the claims a token carries: the registered claims (sub, iss, aud, exp,
// scp/scope, nonce, at_hash, c_hash …) come from typed fields the handlers fill
// from the grant; Extra is application-supplied. The rendering starts from a
// copy of Extra and then writes or deletes every registered key, so the typed
// value always wins. If the extras are copied in afterwards, an "aud" or "scp"
// entry in Extra replaces what was granted.
func checkRegisteredClaimsWin(c *Ctx, rule, fnName string, keys ...string) {
	const role = "claims-rendering"
	fn := c.P.Func(fnName)
	if fn == nil {
		c.RoleUnmatched(rule, role, fnName)
		return
	}
	ex := c.Explore(fn, ExploreConfig{}, "claims")
	if !c.complete(ex, rule, role, fn) {
		return
	}
	reg := map[string]bool{}
	for _, k := range keys {
		reg[k] = true
	}
	ok, n := true, 0
	why := ""
	var w *Path
	for _, p := range ex.Paths {
		if p.Kind != "return" || len(p.Rets) != 1 {
			continue
		}
		m := p.Rets[0]
		firstReg, lastDyn := -1, -1
		var dyn *Event
		for _, e := range p.Events {
			if (e.Kind != "mapupdate" && e.Kind != "mapdelete") || len(e.Args) < 2 || e.Args[0].Key() != m.Key() {
				continue
			}
			if k, isC := e.Args[1].StrConst(); isC {
				if reg[k] && firstReg < 0 {
					firstReg = e.Idx
				}
			} else {
				lastDyn, dyn = e.Idx, e
			}
		}
		if firstReg >= 0 {
			n++
		}
		if firstReg >= 0 && lastDyn > firstReg {
			ok, w = false, p
			why = fmt.Sprintf("a key that is not a constant is written into the rendered claims at %s, after the registered claims were set: a free-form entry can replace a registered claim", c.P.Pos(dyn.Instr.Pos()))
		}
	}
	c.Check(ok && n > 0, rule, role, fn, "registered-claims-win", "in the rendered claim set every registered claim is written after the free-form extras were copied in", why, w)
}

// Compose factories wire every collaborator the handler they return calls. The
// handler structs hold their storages and strategies in interface-typed fields;
// a factory that leaves one nil builds a handler that works until the rarely
// taken branch that needs it (the replay branch calls
// TokenRevocationStorage.RevokeAccessToken) and then panics instead of refusing
// and revoking. For the struct a factory returns (not for helper sub-handlers it
// embeds, which are used for a subset of their methods): every interface-typed
// field that a method of that struct invokes is assigned where the struct is built.
func checkFactoriesWireCollaborators(c *Ctx, rule string) {
	const role = "compose-factory"
	n := 0
	var bad []string
	for _, fn := range c.P.AllFuncs {
		if fnPkgPath(fn) != pkgCompose || fn.Parent() != nil || fn.Signature.Recv() != nil || fn.Signature.Params().Len() != 3 || fn.Signature.Results().Len() != 1 || !strings.HasSuffix(fn.Name(), "Factory") {
			continue
		}
		// the struct the factory returns (fields may be assigned on the constructor's allocation and,
		// afterwards, on the constructor's result in the factory itself)
		var al *ssa.Alloc
		set := map[int]bool{}
		collect := func(v ssa.Value) {
			refs := v.Referrers()
			if refs == nil {
				return
			}
			for _, r := range *refs {
				if fa, ok := r.(*ssa.FieldAddr); ok {
					for _, r2 := range *fa.Referrers() {
						if s2, ok := r2.(*ssa.Store); ok && s2.Addr == ssa.Value(fa) {
							set[fa.Field] = true
						}
					}
				}
			}
		}
		for _, b := range fn.Blocks {
			for _, ins := range b.Instrs {
				ret, ok := ins.(*ssa.Return)
				if !ok || len(ret.Results) != 1 {
					continue
				}
				v := ret.Results[0]
				if mi, ok := v.(*ssa.MakeInterface); ok {
					v = mi.X
				}
				for d := 0; d < 2; d++ {
					collect(v)
					if call, ok := v.(*ssa.Call); ok {
						if cal := call.Common().StaticCallee(); cal != nil && fnPkgPath(cal) == pkgCompose && len(cal.Blocks) > 0 {
							// a private constructor: its returned allocation
							for _, cb := range cal.Blocks {
								for _, ci := range cb.Instrs {
									if cr, ok := ci.(*ssa.Return); ok && len(cr.Results) == 1 {
										v = cr.Results[0]
									}
								}
							}
							continue
						}
					}
					break
				}
				if a, ok := v.(*ssa.Alloc); ok {
					al = a
				}
			}
		}
		if al == nil {
			continue
		}
		st, ok := al.Type().Underlying().(*types.Pointer).Elem().Underlying().(*types.Struct)
		named, _ := al.Type().Underlying().(*types.Pointer).Elem().(*types.Named)
		if !ok || named == nil || named.Obj().Pkg() == nil {
			continue
		}
		n++
		collect(al)
		used := map[int]string{}
		for _, m := range c.P.MethodsOf(named.Obj().Pkg().Path(), named.Obj().Name()) {
			if len(m.Params) == 0 {
				continue
			}
			for _, b := range m.Blocks {
				for _, ins := range b.Instrs {
					ci, ok := ins.(ssa.CallInstruction)
					if !ok || !ci.Common().IsInvoke() {
						continue
					}
					if u, ok := ci.Common().Value.(*ssa.UnOp); ok {
						if fa, ok := u.X.(*ssa.FieldAddr); ok && fa.X == ssa.Value(m.Params[0]) {
							if _, isI := st.Field(fa.Field).Type().Underlying().(*types.Interface); isI {
								used[fa.Field] = m.Name()
							}
						}
					}
				}
			}
		}
		for i, by := range used {
			if !set[i] {
				bad = append(bad, fmt.Sprintf("%s returns a %s whose %s is never set although %s calls it", fn.Name(), named.Obj().Name(), st.Field(i).Name(), by))
			}
		}
	}
	if n < 6 {
		c.RoleUnmatched(rule, role, fmt.Sprintf("at least 6 compose factories returning a handler struct; found %d", n))
	}
	sort.Strings(bad)
	c.Check(len(bad) == 0, rule, role, nil, "collaborators-wired", "every interface-typed field that a method of the returned handler invokes is assigned by the factory", strings.Join(bad, "; "), nil)
}

// The request context is handed down. Every storage call, configuration getter,
// strategy and key getter takes a context; the embedding server uses it to carry
// the transaction, the tenant / network, deadlines and cancellation, and the
// configuration and key providers may answer per context. A function that
// receives a context passes that context (or one derived from it: WithValue,
// the context MaybeBeginTx returns, a tracing span) to everything it calls —
// never a fresh context.Background()/TODO(), fosite.NewContext() or the raw
// http.Request.Context(), which silently drop what the caller put in.
func checkContextPropagated(c *Ctx, rule string) {
	const role = "context-propagation"
	isCtx := func(t types.Type) bool { return t != nil && t.String() == "context.Context" }
	n := 0
	var bad []string
	for _, fn := range c.P.AllFuncs {
		if fn.Pkg == nil || !isSubjectPkg(fn.Pkg.Pkg.Path()) || len(fn.Blocks) == 0 {
			continue
		}
		has := false
		for f := fn; f != nil && !has; f = f.Parent() {
			for _, p := range f.Params {
				if isCtx(p.Type()) {
					has = true
				}
			}
		}
		if !has {
			continue
		}
		var fresh func(v ssa.Value, depth int, seen map[ssa.Value]bool) string
		fresh = func(v ssa.Value, depth int, seen map[ssa.Value]bool) string {
			if depth > 8 || seen[v] {
				return ""
			}
			seen[v] = true
			switch x := v.(type) {
			case *ssa.Call:
				if cal := x.Common().StaticCallee(); cal != nil {
					full := cal.String()
					switch {
					case full == "context.Background" || full == "context.TODO" || full == pkgRoot+".NewContext":
						return full + "()"
					case cal.Name() == "Context" && cal.Signature.Recv() != nil && strings.HasSuffix(cal.Signature.Recv().Type().String(), "net/http.Request"):
						return "http.Request.Context()"
					}
				}
				for _, a := range x.Common().Args {
					if isCtx(a.Type()) {
						if s := fresh(a, depth+1, seen); s != "" {
							return s
						}
					}
				}
			case *ssa.Extract:
				return fresh(x.Tuple, depth+1, seen)
			case *ssa.Phi:
				for _, e := range x.Edges {
					if s := fresh(e, depth+1, seen); s != "" {
						return s
					}
				}
			case *ssa.UnOp:
				if al, ok := x.X.(*ssa.Alloc); ok {
					for _, r := range *al.Referrers() {
						if st, ok := r.(*ssa.Store); ok && st.Addr == ssa.Value(al) {
							if s := fresh(st.Val, depth+1, seen); s != "" {
								return s
							}
						}
					}
				}
			case *ssa.MakeInterface:
				return fresh(x.X, depth+1, seen)
			case *ssa.ChangeInterface:
				return fresh(x.X, depth+1, seen)
			}
			return ""
		}
		for _, b := range fn.Blocks {
			for _, ins := range b.Instrs {
				ci, ok := ins.(ssa.CallInstruction)
				if !ok {
					continue
				}
				for _, a := range ci.Common().Args {
					if !isCtx(a.Type()) {
						continue
					}
					n++
					if s := fresh(a, 0, map[ssa.Value]bool{}); s != "" {
						bad = append(bad, fmt.Sprintf("%s passes %s down at %s", short(fn.String()), s, c.P.Pos(ins.Pos())))
					}
				}
			}
		}
	}
	if n < 200 {
		c.RoleUnmatched(rule, role, fmt.Sprintf("at least 200 context arguments at call sites of functions that receive a context; found %d", n))
		return
	}
	sort.Strings(bad)
	c.Check(len(bad) == 0, rule, role, nil, "context-propagated", fmt.Sprintf("at all %d call sites inside functions that receive a context, the context passed down derives from the function's own", n), strings.Join(bad, "; "), nil)
}

// JWTClaims.With installs what it is given. The JWT access-token strategy
// renders a token from session.GetJWTClaims().With(expiry, grantedScopes,
// grantedAudience): the three arguments are what the handler computed for this
// token. With must overwrite all three unconditionally — a "fill only when
// unset / when non-empty" variant lets a value already sitting in the session's
// claims (the application's, or the previous token's after With mutated the
// shared object) win over the grant and over the advertised expiry.
func checkClaimsWith(c *Ctx, rule string) {
	const role = "claims-with"
	fn := c.P.Func("(*" + pkgJWT + ".JWTClaims).With")
	if fn == nil {
		c.RoleUnmatched(rule, role, "(*jwt.JWTClaims).With")
		return
	}
	ex := c.Explore(fn, ExploreConfig{}, "claims")
	if !c.complete(ex, rule, role, fn) {
		return
	}
	want := map[string]*Term{"ExpiresAt": paramNamed(fn, 1), "Scope": paramNamed(fn, 2), "Audience": paramNamed(fn, 3)}
	ok, n := true, 0
	why := ""
	var w *Path
	for _, p := range ex.Paths {
		if p.Kind != "return" {
			continue
		}
		n++
		got := map[string]bool{}
		for _, e := range p.Events {
			if (e.Kind == "store" || e.Kind == "lstore") && len(e.Args) == 2 {
				if v, isW := want[e.Name]; isW && e.Args[1].Key() == v.Key() {
					got[e.Name] = true
				}
			}
		}
		for f := range want {
			if !got[f] {
				ok, w, why = false, p, "a path returns without "+f+" having been set to the corresponding argument"
			}
		}
	}
	c.Check(ok && n > 0, rule, role, fn, "with-installs-arguments", "JWTClaims.With sets ExpiresAt, Scope and Audience to its arguments on every path", why, w)
}
