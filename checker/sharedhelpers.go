package main

import (
	"fmt"
	"strings"

	"golang.org/x/tools/go/ssa"
)

// Shared helpers that several properties lean on without looking into them.

// Arguments membership: Arguments.Has / HasOneOf / ExactOne are pure calls in
// every handler rule ("the client has the refresh_token grant", "the grant
// contains one of the refresh scopes"). They all go through StringInSlice;
// its documented meaning is case-insensitive *equality* with some element —
// a prefix or substring test would make "offline_reports" count as "offline".
func checkStringInSlice(c *Ctx, rule string) {
	const role = "membership-helper"
	fn := c.P.Func(pkgRoot + ".StringInSlice")
	if fn == nil {
		c.RoleUnmatched(rule, role, "fosite.StringInSlice")
		return
	}
	ex := c.Explore(fn, ExploreConfig{}, "helper")
	if !c.complete(ex, rule, role, fn) {
		return
	}
	needle, hay := paramNamed(fn, 0), paramNamed(fn, 1)
	ok, n := true, 0
	var w *Path
	for _, p := range ex.Paths {
		if p.Kind != "return" || len(p.Rets) != 1 || p.Rets[0].Key() != tTrue.Key() {
			continue
		}
		n++
		eq := false
		for _, f := range p.Facts {
			if !f.Pol {
				continue
			}
			var a, b *Term
			switch {
			case f.Atom.Kind == "EQ":
				a, b = f.Atom.A, f.Atom.B
			case f.Atom.Kind == "B" && f.Atom.A.IsCall("strings.EqualFold") && len(f.Atom.A.Args) == 2:
				a, b = f.Atom.A.Args[0], f.Atom.A.Args[1]
			default:
				continue
			}
			strip := func(t *Term) *Term {
				for t.IsCall("strings.ToLower", "strings.ToUpper") && len(t.Args) == 1 {
					t = t.Args[0]
				}
				return t
			}
			a, b = strip(a), strip(b)
			isEl := func(t *Term) bool {
				return (t.Op == "idx" || t.Op == "rangeval") && len(t.Args) == 2 && t.Args[0].Key() == hay.Key()
			}
			if a.Key() == needle.Key() && isEl(b) || b.Key() == needle.Key() && isEl(a) {
				eq = true
			}
		}
		if !eq {
			ok, w = false, p
		}
	}
	c.Check(ok && n > 0, rule, role, fn, "membership-is-equality", "StringInSlice (behind Arguments.Has/HasOneOf/ExactOne) is true only if the needle equals an element (case-insensitively), never on a prefix or substring", "true is returned without an equality between the needle and an element", w)
}

// Session expiry setter: SetExpiresAt(kind, t) records t unconditionally. Every
// handler stamps lifetimes through it (C07.R3/R7/R8); a setter that keeps an
// already-recorded later value makes a shorter per-client override silently
// ineffective on every cloned session.
func checkSessionSetExpiresAt(c *Ctx, rule string) {
	const role = "session-setter"
	n := 0
	for _, fn := range c.Impls(pkgRoot, "Session", "SetExpiresAt") {
		ex := c.Explore(fn, ExploreConfig{}, "setter")
		if !c.complete(ex, rule, role, fn) {
			continue
		}
		key, exp := paramNamed(fn, 1), paramNamed(fn, 2)
		ok, m := true, 0
		var w *Path
		for _, p := range ex.Paths {
			if p.Kind != "return" {
				continue
			}
			m++
			set := false
			for _, e := range p.Events {
				if e.Kind == "mapupdate" && len(e.Args) == 3 && e.Args[1].Key() == key.Key() && e.Args[2].Key() == exp.Key() {
					set = true
				}
				// delegation to an embedded session
				if e.Kind == "call" && e.Name == ".SetExpiresAt" && len(e.Args) == 2 && e.Arg(0).Key() == key.Key() && e.Arg(1).Key() == exp.Key() {
					set = true
				}
			}
			if !set {
				ok, w = false, p
			}
		}
		if m > 0 {
			n++
			c.Check(ok, rule, role, fn, "records-unconditionally", "SetExpiresAt stores the given expiry under the given token type on every path", "a path returns without storing the expiry (an existing value is kept)", w)
		}
	}
	if n == 0 {
		c.RoleUnmatched(rule, role, "implementation of fosite.Session.SetExpiresAt")
	}
}

// Client.IsPublic: "public clients are identified without a secret" — the client
// authentication strategy returns a public client before looking at any
// credential. Every implementation must report exactly the registered Public
// flag; deriving publicness from anything else (the auth method, an empty
// secret) lets a confidential client through without its secret.
func checkIsPublic(c *Ctx, rule string) {
	const role = "client-type"
	n := 0
	for _, fn := range c.Impls(pkgRoot, "Client", "IsPublic") {
		ex := c.Explore(fn, ExploreConfig{}, "client")
		if !c.complete(ex, rule, role, fn) {
			continue
		}
		n++
		ok := true
		var w *Path
		for _, p := range ex.Paths {
			if p.Kind != "return" || len(p.Rets) != 1 || p.Rets[0].Key() != tTrue.Key() {
				continue
			}
			pub := false
			for _, f := range p.Facts {
				if f.Atom.Kind == "B" && f.Pol && f.Atom.A.Op == "field" && f.Atom.A.Name == "Public" {
					pub = true
				}
			}
			if !pub {
				ok, w = false, p
			}
		}
		c.Check(ok, rule, role, fn, "public-flag-only", "IsPublic is true only if the client's registered Public flag is true", "true is returned without the Public flag being set", w)
	}
	if n == 0 {
		c.RoleUnmatched(rule, role, "implementation of fosite.Client.IsPublic")
	}
}

// Registered grant types default: RFC 7591 §2 — a client that registered no
// grant types may use authorization_code only. The default must not contain any
// other grant (refresh_token in particular: C05 "never honoured for a client
// lacking that grant").
func checkGrantTypesDefault(c *Ctx, rule string) {
	const role = "client-type"
	n := 0
	for _, fn := range c.Impls(pkgRoot, "Client", "GetGrantTypes") {
		ex := c.Explore(fn, ExploreConfig{}, "client")
		if !c.complete(ex, rule, role, fn) {
			continue
		}
		n++
		ok := true
		why := ""
		var w *Path
		for _, p := range ex.Paths {
			if p.Kind != "return" || len(p.Rets) != 1 {
				continue
			}
			r := p.Rets[0]
			if r.Mentions(func(t *Term) bool { return t.Op == "field" && t.Name == "GrantTypes" }) {
				continue
			}
			// a literal default
			var items []string
			r.Walk(func(t *Term) bool {
				if v, isC := t.StrConst(); isC {
					items = append(items, v)
				}
				return true
			})
			if len(items) != 1 || items[0] != "authorization_code" {
				ok, w, why = false, p, fmt.Sprintf("the default grant types are [%s]; RFC 7591 allows authorization_code only", strings.Join(items, " "))
			}
		}
		c.Check(ok, rule, role, fn, "grant-types-default", "a client without registered grant types may use authorization_code only", why, w)
	}
	if n == 0 {
		c.RoleUnmatched(rule, role, "implementation of fosite.Client.GetGrantTypes")
	}
}

// The push endpoint installs the session before the handlers run: the PAR
// handler stamps the request's lifetime into ar.GetSession() only if there is a
// session; installed afterwards, the stamp is silently skipped and the
// request_uri never expires.
func checkPARSessionOrder(c *Ctx, rule string) {
	const role = "par-response"
	fn := c.P.Func("(*" + pkgRoot + ".Fosite).NewPushedAuthorizeResponse")
	if fn == nil {
		c.RoleUnmatched(rule, role, "(*Fosite).NewPushedAuthorizeResponse")
		return
	}
	ex := c.Explore(fn, rootCfg(), "root")
	if !c.complete(ex, rule, role, fn) {
		return
	}
	ar := paramByType(fn, "fosite.AuthorizeRequester")
	sess := paramByType(fn, "fosite.Session")
	ok, n := true, 0
	var w *Path
	for _, p := range ex.Paths {
		var set *Event
		for _, e := range p.Calls(".SetSession") {
			if e.Recv != nil && ar != nil && e.Recv.Key() == ar.Key() && sess != nil && e.Arg(0).Key() == sess.Key() {
				set = e
			}
		}
		for _, e := range p.Calls(".HandlePushedAuthorizeEndpointRequest") {
			n++
			if set == nil || set.Idx > e.Idx {
				ok, w = false, p
			}
		}
	}
	c.Check(ok && n > 0, rule, role, fn, "session-installed-before-handlers", "the caller's session is installed on the request before any push handler runs", "a handler runs before ar.SetSession(session)", w)
}

// The introspection dispatcher reports what the validator found, not what the
// caller hinted: the TokenUse it returns is the value returned by the
// validator that accepted the token. (The endpoint's bearer branch relies on
// it: "the caller's credential must be an *access* token".)
func checkIntrospectDispatch(c *Ctx, rule string) {
	const role = "introspect-dispatch"
	fn := c.P.Func("(*" + pkgRoot + ".Fosite).IntrospectToken")
	if fn == nil {
		c.RoleUnmatched(rule, role, "(*Fosite).IntrospectToken")
		return
	}
	ex := c.Explore(fn, rootCfg(), "root")
	if !c.complete(ex, rule, role, fn) {
		return
	}
	ok, n := true, 0
	var w *Path
	why := ""
	for _, p := range ex.Paths {
		if p.Kind != "return" || p.Classify() != ExitSuccess || len(p.Rets) < 1 {
			continue
		}
		n++
		r := p.Rets[0]
		from := false
		for _, e := range p.Calls(".IntrospectToken") {
			if e.Invoke && r.Key() == e.Ret(0).Key() && p.IsNil(errResult(e)) {
				from = true
			}
		}
		if !from {
			ok, w, why = false, p, "the returned token use is "+clip(r.Pretty(), 60)+", not the value returned by a validator that accepted the token"
		}
	}
	c.Check(ok && n > 0, rule, role, fn, "token-use-from-validator", "Fosite.IntrospectToken returns the token use reported by the validator that accepted the token", why, w)
}

// Compose factories wire the provider's own collaborators: a handler built by a
// factory uses the strategy / storage / config it was handed, never a freshly
// constructed one (a revocation handler with its own HMAC strategy cannot find
// the JWT access tokens the provider issues).
func checkFactoriesUseGivenStrategy(c *Ctx, rule string) {
	const role = "compose-factory"
	n := 0
	var bad []string
	for _, fn := range c.P.AllFuncs {
		if fnPkgPath(fn) != pkgCompose || fn.Parent() != nil || fn.Signature.Recv() != nil || fn.Signature.Params().Len() != 3 || fn.Signature.Results().Len() != 1 {
			continue
		}
		if !strings.HasSuffix(fn.Name(), "Factory") {
			continue
		}
		n++
		for _, b := range fn.Blocks {
			for _, ins := range b.Instrs {
				ci, ok := ins.(ssa.CallInstruction)
				if !ok {
					continue
				}
				if sf := ci.Common().StaticCallee(); sf != nil && strings.HasPrefix(sf.Name(), "New") && strings.Contains(sf.Name(), "Strategy") && strings.HasPrefix(fnPkgPath(sf), modPath) {
					bad = append(bad, fmt.Sprintf("%s constructs %s (%s)", fn.Name(), sf.Name(), c.P.Pos(ins.Pos())))
				}
			}
		}
	}
	if n < 8 {
		c.RoleUnmatched(rule, role, fmt.Sprintf("at least 8 compose factories; found %d", n))
	}
	c.Check(len(bad) == 0, rule, role, nil, "no-private-strategy", "no compose factory constructs a token strategy of its own; handlers use the strategy the provider was composed with", strings.Join(bad, "; "), nil)
}
