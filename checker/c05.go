package main

import (
	"fmt"

	"golang.org/x/tools/go/ssa"
)

func init() {
	register(&propInfo{
		ID:          "C05",
		Run:         runC05,
		MinObl:      10,
		Explanation: "Decided: R1 every success exit of the refresh-validate function carries client-id(stored)==client-id(request) (mismatch → ErrInvalidGrant), Has(client grant types, refresh_token), and (no refresh scopes configured ∨ HasOneOf(granted scopes of stored, configured scopes)); R2 every GrantScope in that function is preceded on its path by the configured scope strategy accepting that very element against the requesting client's scopes, and GrantAudience/success by the audience strategy returning nil for (client audience, stored granted audience); R3 scopes/audience/session are overwritten from the stored request only (session through Clone) and grants are elements of the stored grant; R4 every GenerateRefreshToken/CreateRefreshTokenSession in the code and device redeem functions is reached only under (no scopes configured ∨ HasOneOf(granted, configured)) ∧ Has(client grant types, refresh_token); in the password flow under the first conjunct. NOT decided: the strategies' verdicts themselves (C12), histories.",
	})
}

func runC05(c *Ctx) {
	defer checkStringInSlice(c, "C05.R6")
	defer checkGrantTypesDefault(c, "C05.R6")
	defer checkConfigGetters(c, "C05.R5", "GetRefreshTokenScopes", "GetScopeStrategy", "GetAudienceStrategy")
	const role = "refresh-validate"
	fns := c.refreshValidateFns()
	if len(fns) == 0 {
		c.RoleUnmatched("C05.R1", role, "validate-phase function calling GetRefreshTokenSession")
	}
	for _, fn := range fns {
		ex := c.Explore(fn, handlerCfg(), "handler")
		if !c.complete(ex, "C05.R1", role, fn) {
			continue
		}
		req := reqParam(fn)
		checkClientBinding(c, "C05.R1", role, fn, ex, ".GetRefreshTokenSession", req, "fosite.ErrInvalidGrant")
		okG, okS := true, true
		var wG, wS *Path
		for _, p := range ex.Paths {
			lk := p.First(".GetRefreshTokenSession")
			if lk == nil || !p.Success() || p.Kind != "return" {
				continue
			}
			if !hasGrantType(p, nil, getClient(req), "refresh_token") {
				okG, wG = false, p
			}
			if !refreshScopeRule(p, nil, lk.Ret(0)) {
				okS, wS = false, p
			}
		}
		c.Check(okG, "C05.R1", role, fn, "client-has-refresh-grant", "success requires Has(GetGrantTypes(client of request), \"refresh_token\")", "a success exit lacks the grant-type literal", wG)
		c.Check(okS, "C05.R1", role, fn, "refresh-scope-still-granted", "success requires: no refresh scopes configured, or the stored grant has one of them", "a success exit lacks the refresh-scope literal", wS)
		// R2
		okSc, okAu := true, true
		var wSc, wAu *Path
		whySc := ""
		nSc := 0
		for _, p := range ex.Paths {
			lk := p.First(".GetRefreshTokenSession")
			if lk == nil {
				continue
			}
			st := lk.Ret(0)
			for _, e := range p.Calls(".GrantScope") {
				nSc++
				el := e.Arg(0)
				if !strategyAccepted(p, e, call(".GetScopes", getClient(req)), el) {
					okSc, wSc = false, p
					whySc = fmt.Sprintf("GrantScope(%s) is not preceded by the scope strategy accepting it against the client's scopes", el.Pretty())
				}
			}
			aud := func(e *Event) bool {
				return audienceAccepted(p, e, call(".GetAudience", getClient(req)), call(".GetGrantedAudience", st))
			}
			for _, e := range p.Calls(".GrantAudience") {
				if !aud(e) {
					okAu, wAu = false, p
				}
			}
			if p.Success() && p.Kind == "return" && !aud(nil) {
				okAu, wAu = false, p
			}
		}
		c.Check(okSc && nSc > 0, "C05.R2", role, fn, "scopes-revalidated", "every granted scope passed the configured scope strategy against the requesting client's current scopes", whySc, wSc)
		c.Check(okAu, "C05.R2", role, fn, "audience-revalidated", "the stored granted audience passed the configured audience strategy against the client's audience before any GrantAudience and before success", "GrantAudience or success without the audience strategy having returned nil", wAu)
		// R3
		checkOverwriteFromStored(c, "C05.R3", role, fn, ex, ".GetRefreshTokenSession", req, true)
		checkGrantsFromStored(c, "C05.R3", role, fn, ex, ".GetRefreshTokenSession")
	}
	// R4 issuance rule
	type en struct {
		role  string
		fns   []*ssa.Function
		grant bool
	}
	ens := []en{
		{"code-redeem", c.codeRedeemFns(), true},
		{"device-redeem", c.Calling(c.IssueFns(), ".InvalidateDeviceCodeSession"), true},
		{"password-issue", c.Calling(c.Calling(c.ValidateFns(), ".Authenticate"), ".Authenticate"), false},
	}
	// password-issue: issue function of the type whose validate calls Authenticate
	var pw []*ssa.Function
	for _, v := range ens[2].fns {
		for _, i := range c.IssueFns() {
			if recvTypeName(i) == recvTypeName(v) {
				pw = append(pw, i)
			}
		}
	}
	ens[2].fns = pw
	for _, e := range ens {
		if len(e.fns) == 0 {
			c.RoleUnmatched("C05.R4", e.role, "issue-phase function of this flow")
			continue
		}
		for _, fn := range e.fns {
			ex := c.Explore(fn, handlerCfg(), "handler")
			if !c.complete(ex, "C05.R4", e.role, fn) {
				continue
			}
			ok := true
			var w *Path
			why := ""
			n := 0
			for _, p := range ex.Paths {
				for _, ev := range p.Calls(".GenerateRefreshToken", ".CreateRefreshTokenSession") {
					n++
					// X: the stored request of this path or the requester
					var xs []*Term
					if r := reqParam(fn); r != nil {
						xs = append(xs, r)
					}
					for _, lk := range p.Calls(".GetAuthorizeCodeSession", ".GetDeviceCodeSession") {
						xs = append(xs, lk.Ret(0))
					}
					good := false
					for _, x := range xs {
						if refreshScopeRule(p, ev, x) && (!e.grant || hasGrantType(p, ev, getClient(x), "refresh_token")) {
							good = true
						}
					}
					if !good {
						ok, w = false, p
						why = fmt.Sprintf("%s (%s) is reachable without the refresh issuance condition", ev.Name, c.P.Pos(ev.Instr.Pos()))
					}
				}
			}
			if n == 0 {
				c.Bad("C05.R4", e.role, fn, "refresh-issuance-rule", "the flow can issue refresh tokens", "no GenerateRefreshToken/CreateRefreshTokenSession found", nil)
				continue
			}
			desc := "refresh tokens are generated/stored only if (no refresh scopes configured ∨ grant has one of them)"
			if e.grant {
				desc += " ∧ the client is registered for the refresh_token grant"
			}
			c.Check(ok, "C05.R4", e.role, fn, "refresh-issuance-rule", desc, why, w)
		}
	}
}

// hasGrantType: literal Has(GetGrantTypes(client), lit(gt)) holds (at e).
func hasGrantType(p *Path, e *Event, client *Term, gt string) bool {
	v, k := p.BoolCallAt(e, ".Has", func(t *Term) bool {
		return len(t.Args) == 2 && t.Args[0].Key() == call(".GetGrantTypes", client).Key() && litHas(t.Args[1], gt) && len(t.Args[1].Args) == 1
	})
	return k && v
}

// refreshScopeRule: len(cfg scopes)==0 ∨ HasOneOf(GetGrantedScopes(x), cfg scopes...).
func refreshScopeRule(p *Path, e *Event, x *Term) bool {
	n := len(p.Facts)
	if e != nil && e.NFacts < n {
		n = e.NFacts
	}
	for _, f := range p.Facts[:n] {
		a := f.Atom
		// len(GetRefreshTokenScopes(cfg)) == 0  /  < 1
		if (a.Kind == "EQ" || a.Kind == "LT") && f.Pol {
			for _, t := range []*Term{a.A, a.B} {
				if t != nil && t.IsCall("len") && len(t.Args) == 1 && t.Args[0].IsCall(".GetRefreshTokenScopes") {
					_, hi, _ := intervalOf(p.Facts[:n], t)
					if hi != nil && *hi <= 0 {
						return true
					}
				}
			}
		}
		if a.Kind == "B" && f.Pol && a.A.IsCall(".HasOneOf") && len(a.A.Args) == 2 &&
			a.A.Args[0].Key() == call(".GetGrantedScopes", x).Key() && a.A.Args[1].IsCall(".GetRefreshTokenScopes") {
			return true
		}
	}
	return false
}

// strategyAccepted: literal apply(GetScopeStrategy(cfg), haystack, needle) == true established before e.
func strategyAccepted(p *Path, e *Event, haystack, needle *Term) bool {
	v, k := p.BoolCallAt(e, "apply", func(t *Term) bool {
		return len(t.Args) == 3 && t.Args[0].IsCall(".GetScopeStrategy") && t.Args[1].Key() == haystack.Key() && t.Args[2].Key() == needle.Key()
	})
	return k && v
}

// audienceAccepted: literal apply(GetAudienceStrategy(cfg), haystack, needle) == nil established before e.
func audienceAccepted(p *Path, e *Event, haystack, needle *Term) bool {
	n := len(p.Facts)
	if e != nil && e.NFacts < n {
		n = e.NFacts
	}
	for _, f := range p.Facts[:n] {
		if f.Atom.Kind != "EQ" || !f.Pol {
			continue
		}
		for _, pr := range [][2]*Term{{f.Atom.A, f.Atom.B}, {f.Atom.B, f.Atom.A}} {
			t, o := pr[0], pr[1]
			if o.Op == "nil" && t.IsCall("apply") && len(t.Args) == 3 && t.Args[0].IsCall(".GetAudienceStrategy") &&
				t.Args[1].Key() == haystack.Key() && t.Args[2].Key() == needle.Key() {
				return true
			}
		}
	}
	return false
}
