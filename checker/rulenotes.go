package main

import (
	"sort"
	"strings"
)

// sharedRuleNotes documents the rule families that several properties reuse
// (the functions live in configgetters.go, sharedhelpers.go, storekeys.go,
// c18.go, c20codes.go). The evidence of a property lists the note of every
// shared rule that produced an obligation in that run.
var sharedRuleNotes = map[string]string{
	"context-propagated":                "at every call site inside a function that receives a context, the context passed down derives from the function's own (never Background / TODO / NewContext / http.Request.Context)",
	"with-installs-arguments":           "JWTClaims.With sets ExpiresAt, Scope and Audience to its arguments on every path",
	"registered-claims-win":             "claim rendering (JWTClaims.ToMap / IDTokenClaims.ToMap): every registered claim is written after the free-form extras were copied in, so an extra can never replace it",
	"collaborators-wired":               "compose factories assign every interface-typed field that a method of the handler they return invokes",
	"responsible-for-exactly-one-grant": "every grant-type based CanHandleTokenEndpointRequest answers true only under ExactOne(grant types, its grant)",
	"granted-before-mint":               "no scope or audience is granted on a request after a token was generated from it",
	"one-transport":                     "the credentials handed to verification are the Basic-header pair or the body pair, never a mixture",
	"storage-text-in-debug-only":        "no hint or description of a returned error is built from the error a storage call returned",
	"whitelist-covers-reader":           "the whitelist the OpenID Connect session is stored with keeps every form key GenerateIDToken reads",
	"registration-getter":               "reference client types answer registration getters with the field of that name; a default only where documented and only for an empty registration",
	"credentials-from-body":             "token, device-authorization and revocation endpoints hand AuthenticateClient r.PostForm (RFC 6749 2.3.1: never the URL query); the pushed-authorization endpoint is the named exception",
	"cache-keyed-by-location":           "the JWKS fetcher reads and writes its cache under one key containing the whole jwks_uri, and fetches that URI",
	"clone-shares-nothing":              "Session.Clone is deepcopy.Copy(receiver) or a fresh struct none of whose pointer/map/slice/interface fields still holds the receiver's value",
	"signature-failure-ends-parse":      "jwt.ParseWithClaims fails with the signature error; claims of an unverified token are not evaluated or merged into the error",
	"returns-own-storage":               "Request.GetRequestForm/GetSession/GetClient return the request's own field, so writes through the getter reach the stored request",
	"populated-before-dispatch":         "NewAccessRequest installs form, grant_type, requested scope and audience before the first handler runs and does not write the request after a handler validated it",
	"reads-own-field":                   "configuration getters the property reads return their own field, default exactly when it is unset (zero / nil / empty) and to the documented default; no getter reads a sibling field or another getter in place of its own",
	"membership-is-equality":            "membership helpers (StringInSlice behind Arguments.Has, ResponseModeTypes.Has, jwt.verifyAud) answer true only on whole-string equality with an element, never on a prefix or substring",
	"grant-types-default":               "DefaultClient.GetGrantTypes defaults to exactly [authorization_code] and only when the list is empty; the getter does not write the shared client",
	"records-unconditionally":           "DefaultSession.SetExpiresAt stores the given instant unchanged under the given key",
	"public-flag-only":                  "DefaultClient.IsPublic returns the Public field",
	"session-installed-before-handlers": "NewPushedAuthorizeResponse installs the session before any handler runs",
	"token-use-from-validator":          "IntrospectToken returns the token use reported by the validator that accepted the token and fails when none did",
	"no-private-strategy":               "compose factories use the strategy they are given; none constructs a private strategy",
	"keyed":                             "reference-store key discipline: create stores table[key] built from its arguments, get returns what it found under table[key] and modifies nothing, delete/invalidate remove or rewrite table[key]; no other table is touched",
	"errors-is-operand-order":           "every errors.Is call site walks the received error's chain with the package error value as target",
	"revocation-error-consistent":       "WriteRevocationResponse refuses errors matching ErrInvalidClient / ErrInvalidRequest with body and status of the matched value",
	"handler-failure-ends-request":      "endpoint dispatch loops: a success exit needs every handler result on the path to be nil or ErrUnknownRequest and no handler runs after a failed one",
	"appends-in-order-dedup-by-type":    "handler lists: Append skips a handler only for an element of identical dynamic type and otherwise appends at the end (registration order is dispatch order)",
}

func notesFor(c *Ctx) string {
	seen := map[string]bool{}
	for _, o := range c.Obls {
		for k := range sharedRuleNotes {
			if o.Detail == k || strings.HasPrefix(o.Detail, k+":") || o.Role == k {
				seen[o.Rule+" "+k] = true
			}
		}
	}
	var ks []string
	for k := range seen {
		ks = append(ks, k)
	}
	sort.Strings(ks)
	var out []string
	for _, k := range ks {
		parts := strings.SplitN(k, " ", 2)
		out = append(out, parts[0]+" ("+parts[1]+"): "+sharedRuleNotes[parts[1]])
	}
	if len(out) == 0 {
		return ""
	}
	return " Shared rule families evaluated in this run — " + strings.Join(out, "; ") + "."
}
