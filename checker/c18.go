package main

import (
	"fmt"
	"go/token"
	"go/types"
	"sort"
	"strings"

	"golang.org/x/tools/go/ssa"
)

func init() {
	register(&propInfo{
		ID:          "C18",
		Run:         runC18,
		MinObl:      72,
		Explanation: "Decided: R1 error discipline — on every success exit of every handler-interface implementation and endpoint function, the error result of each storage-interface call executed on the path is known nil (tested and taken on the nil edge); named tolerations: errors.Is(err, ErrNotFound) in the refresh-reuse branch and in the PKCE clean-up, ErrNotFound/ErrInactiveToken in RevokeToken's mapper, RevokeToken's first discovery lookup; R2 transaction typestate for every function that calls MaybeBeginTx: begin failure exits without touching the transaction; every success exit after begin has exactly one MaybeCommitTx whose error is nil and no rollback; every fail exit after a successful begin has executed MaybeRollbackTx; commit is never reached after a storage write of the transaction returned non-nil; no storage write follows commit or rollback; begin/commit/rollback take the same storage term and commit/rollback take the context begin returned; R3 NewAccessResponse returns a non-nil responder only if every PopulateTokenEndpointResponse result was nil or ErrUnknownRequest and access token and token type are set; R4 in the refresh-issue function a storage error satisfying errors.Is(·, ErrSerializationFailure) exits as an ErrInvalidRequest-derived (retryable) error; R5 validate-phase functions mutate storage only in their replay/reuse branches (jti registration exempt). R1 also: a storage failure is never returned as ErrUnknownRequest (which the endpoint layer treats as 'handler not responsible' and skips), except for the documented no-such-session cases; R6 RFC6749Error.Is reports identity only if both the error name and the status code are equal (several values share the name 'error'). NOT decided: crash points, fault pairs, what a retry observes, atomicity of the store's own rollback.",
	})
}

type entryFn struct {
	role string
	fn   *ssa.Function
	cfg  ExploreConfig
	tag  string
}

// allEntries: every handler-interface implementation and exported endpoint function.
func (c *Ctx) allEntries() []entryFn {
	var out []entryFn
	add := func(role string, fns []*ssa.Function) {
		for _, f := range fns {
			out = append(out, entryFn{role, f, handlerCfg(), "handler"})
		}
	}
	add("validate", c.ValidateFns())
	add("issue", c.IssueFns())
	add("authorize", c.AuthorizeFns())
	add("push", c.PushFns())
	add("device", c.DeviceFns())
	add("revoke", c.Impls(pkgRoot, "RevocationHandler", "RevokeToken"))
	add("introspect", c.Impls(pkgRoot, "TokenIntrospector", "IntrospectToken"))
	for _, n := range []string{"NewAccessRequest", "NewAccessResponse", "NewAuthorizeRequest", "NewAuthorizeResponse", "NewPushedAuthorizeRequest", "NewPushedAuthorizeResponse",
		"NewDeviceRequest", "NewDeviceResponse", "NewIntrospectionRequest", "NewRevocationRequest", "DefaultClientAuthenticationStrategy", "IntrospectToken"} {
		if f := c.P.Func("(*" + pkgRoot + ".Fosite)." + n); f != nil {
			out = append(out, entryFn{"endpoint", f, rootCfg(), "root"})
		}
	}
	return out
}

// errResult returns the error-typed last result of a call event, or nil.
func errResult(e *Event) *Term {
	if e.Callee == nil || e.Result == nil {
		return nil
	}
	sig, _ := e.Callee.Type().(*types.Signature)
	if sig == nil || sig.Results().Len() == 0 {
		return nil
	}
	n := sig.Results().Len()
	if typeShort(sig.Results().At(n-1).Type()) != "error" {
		return nil
	}
	if n == 1 {
		return e.Result
	}
	return ret(n-1, e.Result)
}

func runC18(c *Ctx) {
	defer checkContextPropagated(c, "C18.R12")
	defer checkFactoriesWireCollaborators(c, "C18.R11")
	defer checkCanHandleExact(c, "C18.R10")
	defer checkSessionCloneDeep(c, "C18.R9")
	c18R1(c)
	c18R2(c)
	c18R3(c)
	c18R4(c)
	c18R5(c)
	c18ErrorIdentity(c)
	checkErrorsIsOperands(c, "C18.R6")
	c18Dispatch(c)
	c18Registration(c)
}

// storageReaching: inline only callees from which a storage call is reachable
// (everything else is irrelevant to the storage alphabet and stays opaque,
// which keeps the path sets small).
func (c *Ctx) storageReaching(base func(*ssa.Function) bool) func(*ssa.Function) bool {
	memo := map[*ssa.Function]bool{}
	return func(fn *ssa.Function) bool {
		if !base(fn) {
			return false
		}
		if fn.Parent() != nil {
			return true
		}
		v, ok := memo[fn]
		if !ok {
			v = c.P.CallsNamedAny(fn, 4, storageMutators, storageLookups, txOps)
			memo[fn] = v
		}
		return v
	}
}

func c18R1(c *Ctx) {
	const rule = "C18.R1"
	sites := 0
	for _, en := range c.allEntries() {
		if !c.P.CallsNamedAny(en.fn, 4, storageMutators, storageLookups) {
			continue
		}
		cfg := en.cfg
		base := cfg.Inline
		if base == nil {
			base = defaultInline
		}
		cfg.Inline = c.storageReaching(base)
		ex := c.Explore(en.fn, cfg, en.tag+"-storage")
		if !c.complete(ex, rule, en.role, en.fn) {
			continue
		}
		isRevokeImpl := en.role == "revoke"
		bad := map[string]*Path{}
		seen := map[string]bool{}
		why := map[string]string{}
		for _, p := range ex.Paths {
			if p.Kind != "return" || p.Classify() != ExitSuccess && p.Classify() != ExitMaybe {
				continue
			}
			// functions whose last result is not an error (none among the entries) are skipped
			for _, e := range p.Events {
				if !isStorageCall(e) {
					continue
				}
				er := errResult(e)
				if er == nil {
					continue
				}
				key := e.Name
				seen[key] = true
				if p.IsNil(er) {
					continue
				}
				// tolerations
				notFound := p.Holds(atomB(call("errors.Is", er, gl("fosite.ErrNotFound"))), true)
				inactive := p.Holds(atomB(call("errors.Is", er, gl("fosite.ErrInactiveToken"))), true)
				if isRevokeImpl && (notFound || inactive) {
					continue // RFC 7009: unknown/invalid tokens are answered with success
				}
				if e.Name == ".GetRefreshTokenSession" || e.Name == ".GetAccessTokenSession" {
					// token-kind discovery: the lookup of one kind may fail if the lookup of the other
					// kind, keyed by the signature of the same presented token, succeeded
					okOther := false
					raw, _ := sigRaw(e.Arg(1))
					for _, e2 := range p.Calls(".GetRefreshTokenSession", ".GetAccessTokenSession") {
						r2, _ := sigRaw(e2.Arg(1))
						if e2.Name != e.Name && raw != nil && r2 != nil && raw.Key() == r2.Key() && p.IsNil(e2.Ret(1)) {
							okOther = true
						}
					}
					if okOther {
						continue
					}
				}
				if (e.Name == ".DeletePKCERequestSession" || e.Name == ".GetPKCERequestSession") && notFound {
					continue // no PKCE session is a legal state (judged by C03.R2 case c) / clean-up of a session already gone
				}
				if e.Name == ".CreateDeviceAuthSession" && p.Holds(atomB(call("errors.Is", er, gl("fosite.ErrExistingUserCodeSignature"))), true) {
					// user-code collision: retried; a later attempt must have succeeded
					later := false
					for _, e2 := range p.Calls(".CreateDeviceAuthSession") {
						if e2.Idx > e.Idx && p.IsNil(e2.Result) {
							later = true
						}
					}
					if later {
						continue
					}
				}
				if p.ErrRet() != nil && mentionsTerm(p.ErrRet(), er) {
					continue // the call's own error is what is returned (ExitMaybe)
				}
				bad[key] = p
				why[key] = fmt.Sprintf("%s (%s): a success exit is reachable although its error result is not known nil", e.Name, c.P.Pos(e.Instr.Pos()))
			}
		}
		// fail exits: a storage failure must not be reported as "this handler is not responsible"
		// (ErrUnknownRequest), because the endpoint layer skips that error and carries on
		for _, p := range ex.Paths {
			if p.Kind != "return" || p.Classify() != ExitFail || errorRoot(p.ErrRet()) != "fosite.ErrUnknownRequest" {
				continue
			}
			for _, e := range p.Events {
				if !isStorageCall(e) {
					continue
				}
				er := errResult(e)
				if er == nil || !p.NonNil(er) || !mentionsTerm(p.ErrRet(), er) {
					continue
				}
				if p.Holds(atomB(call("errors.Is", er, gl("handler/openid.ErrNoSessionFound"))), true) || p.Holds(atomB(call("errors.Is", er, gl("fosite.ErrNotFound"))), true) {
					continue // "no such session": the documented way of saying the grant is not an OpenID Connect one
				}
				key := e.Name
				seen[key] = true
				bad[key] = p
				why[key] = fmt.Sprintf("%s (%s): its failure is returned as ErrUnknownRequest, which the endpoint treats as 'handler not responsible' and ignores", e.Name, c.P.Pos(e.Instr.Pos()))
			}
		}
		for k := range seen {
			sites++
			if p, isBad := bad[k]; isBad {
				c.Bad(rule, en.role, en.fn, "storage-error-tested:"+strings.TrimPrefix(k, "."), "the error of every storage call is tested and success is reachable only on its nil edge", why[k], p)
			} else {
				c.OK(rule, en.role, en.fn, "storage-error-tested:"+strings.TrimPrefix(k, "."), "the error of every storage call is tested and success is reachable only on its nil edge")
			}
		}
	}
	if sites < 20 {
		c.RoleUnmatched(rule, "storage-call-sites", fmt.Sprintf("at least 20 (function, storage method) pairs on success paths; found %d", sites))
	}
}

// CallsNamedAny: fn reaches (depth-bounded, static callees) a call whose name is in one of the sets.
func (P *Program) CallsNamedAny(fn *ssa.Function, depth int, sets ...map[string]bool) bool {
	for _, s := range sets {
		for n := range s {
			if P.CallsNamed(fn, n, depth) {
				return true
			}
		}
	}
	return false
}

func c18R2(c *Ctx) {
	const rule, role = "C18.R2", "transaction"
	var fns []*ssa.Function
	for _, en := range c.allEntries() {
		if c.P.CallsNamed(en.fn, "storage.MaybeBeginTx", 4) {
			fns = append(fns, en.fn)
		}
	}
	if len(fns) < 3 {
		c.RoleUnmatched(rule, role, fmt.Sprintf("at least 3 handler functions using MaybeBeginTx; found %d", len(fns)))
	}
	for _, fn := range fns {
		ex := c.Explore(fn, handlerCfg(), "handler")
		if !c.complete(ex, rule, role, fn) {
			continue
		}
		type chk struct {
			ok  bool
			w   *Path
			why string
		}
		cs := map[string]*chk{}
		for _, k := range []string{"begin-failure-exits", "success-commits-once", "failure-rolls-back", "no-commit-after-failed-write", "no-write-after-end", "same-storage-and-context"} {
			cs[k] = &chk{ok: true}
		}
		fail := func(k string, p *Path, why string) {
			cs[k].ok, cs[k].w, cs[k].why = false, p, why
		}
		nTx := 0
		for _, p := range ex.Paths {
			if p.Kind != "return" {
				continue
			}
			var begin *Event
			state := "none"
			var failedWrite *Event
			nCommitOK, nRollback := 0, 0
			for _, e := range p.Events {
				if e.Kind != "call" {
					continue
				}
				switch {
				case e.Name == "storage.MaybeBeginTx":
					begin = e
					nTx++
					if p.NonNil(e.Ret(1)) {
						state = "begin-failed"
					} else {
						state = "open"
					}
					failedWrite = nil
					nCommitOK, nRollback = 0, 0
				case e.Name == "storage.MaybeCommitTx":
					if state == "begin-failed" || begin == nil {
						fail("begin-failure-exits", p, "MaybeCommitTx runs although MaybeBeginTx failed or never ran")
						continue
					}
					if state != "open" {
						fail("success-commits-once", p, "MaybeCommitTx runs in state "+state)
					}
					if failedWrite != nil {
						fail("no-commit-after-failed-write", p, fmt.Sprintf("MaybeCommitTx is reached after %s returned a non-nil error", failedWrite.Name))
					}
					if e.Arg(1).Key() != begin.Arg(1).Key() || e.Ctx == nil || e.Ctx.Key() != begin.Ret(0).Key() {
						fail("same-storage-and-context", p, "MaybeCommitTx takes a different storage or context than MaybeBeginTx produced")
					}
					if p.NonNil(e.Result) {
						state = "commit-failed"
					} else {
						state = "committed"
						nCommitOK++
					}
				case e.Name == "storage.MaybeRollbackTx":
					if state == "begin-failed" || begin == nil {
						fail("begin-failure-exits", p, "MaybeRollbackTx runs although MaybeBeginTx failed or never ran")
						continue
					}
					if state == "committed" {
						fail("success-commits-once", p, "MaybeRollbackTx runs after a successful commit")
					}
					if e.Arg(1).Key() != begin.Arg(1).Key() || e.Ctx == nil || e.Ctx.Key() != begin.Ret(0).Key() {
						fail("same-storage-and-context", p, "MaybeRollbackTx takes a different storage or context than MaybeBeginTx produced")
					}
					state = "rolledback"
					nRollback++
				case storageMutators[e.Name]:
					switch state {
					case "begin-failed":
						fail("begin-failure-exits", p, e.Name+" runs although MaybeBeginTx failed")
					case "committed", "rolledback", "commit-failed":
						fail("no-write-after-end", p, e.Name+" runs after the transaction ended ("+state+")")
					case "open":
						if e.Ctx == nil || e.Ctx.Key() != begin.Ret(0).Key() {
							fail("same-storage-and-context", p, e.Name+" inside the transaction does not use the context MaybeBeginTx returned")
						}
						if er := errResult(e); er != nil && p.NonNil(er) && !p.Holds(atomB(call("errors.Is", er, gl("fosite.ErrNotFound"))), true) {
							failedWrite = e
						}
					}
				}
			}
			if begin == nil {
				continue
			}
			switch {
			case state == "begin-failed":
				if p.Classify() != ExitFail {
					fail("begin-failure-exits", p, "begin failed but the function does not fail")
				}
			case p.Classify() == ExitSuccess:
				if state != "committed" || nCommitOK != 1 || nRollback != 0 {
					fail("success-commits-once", p, fmt.Sprintf("success exit in transaction state %s (commits=%d rollbacks=%d)", state, nCommitOK, nRollback))
				}
			case p.Classify() == ExitFail:
				if state == "open" || state == "commit-failed" {
					fail("failure-rolls-back", p, "fail exit leaves the transaction in state "+state+" (no MaybeRollbackTx)")
				}
			default:
				fail("success-commits-once", p, "exit cannot be classified as success or failure")
			}
		}
		if nTx == 0 {
			continue
		}
		desc := map[string]string{
			"begin-failure-exits":          "a failed MaybeBeginTx is followed by a fail exit without commit, rollback or writes",
			"success-commits-once":         "every success exit after begin has exactly one successful MaybeCommitTx and no rollback",
			"failure-rolls-back":           "every fail exit after a successful begin has executed MaybeRollbackTx (also after a failed commit)",
			"no-commit-after-failed-write": "MaybeCommitTx is never reached after a storage write of the transaction returned a non-nil error",
			"no-write-after-end":           "no storage write follows commit or rollback",
			"same-storage-and-context":     "begin/commit/rollback take the same storage term; commit, rollback and the writes take the context begin returned",
		}
		for k, v := range cs {
			c.Check(v.ok, rule, role, fn, k, desc[k], v.why, v.w)
		}
	}
}

func c18R3(c *Ctx) {
	const rule, role = "C18.R3", "token-response"
	fn := c.P.Func("(*" + pkgRoot + ".Fosite).NewAccessResponse")
	if fn == nil {
		c.RoleUnmatched(rule, role, "(*Fosite).NewAccessResponse")
		return
	}
	ex := c.Explore(fn, rootCfg(), "root")
	if !c.complete(ex, rule, role, fn) {
		return
	}
	okH, okNil, okSet := true, true, true
	var wH, wNil, wSet *Path
	n := 0
	for _, p := range ex.Paths {
		if p.Kind != "return" || len(p.Rets) != 2 {
			continue
		}
		respNonNil := p.Rets[0].Op != "nil"
		if !respNonNil {
			continue
		}
		n++
		if !p.IsNil(p.Rets[1]) {
			okNil, wNil = false, p
		}
		for _, e := range p.Calls(".PopulateTokenEndpointResponse") {
			if !(p.IsNil(e.Result) || p.Holds(atomB(call("errors.Is", e.Result, gl("fosite.ErrUnknownRequest"))), true)) {
				okH, wH = false, p
			}
		}
		// access token and token type set
		r := p.Rets[0]
		if !(p.Ne(call(".GetAccessToken", r), tStr("")) && p.Ne(call(".GetTokenType", r), tStr(""))) {
			okSet, wSet = false, p
		}
	}
	if n == 0 {
		c.Bad(rule, role, fn, "responder", "a path returning a responder exists", "none", nil)
		return
	}
	c.Check(okH, rule, role, fn, "all-handlers-succeeded", "a responder is returned only if every PopulateTokenEndpointResponse result was nil or ErrUnknownRequest", "a responder is returned although a handler failed", wH)
	c.Check(okNil, rule, role, fn, "responder-implies-nil-error", "a non-nil responder is returned only with a nil error", "responder returned together with an error", wNil)
	c.Check(okSet, rule, role, fn, "token-set", "a responder is returned only with a non-empty access token and token type", "responder returned without the emptiness tests", wSet)
}

func c18R4(c *Ctx) {
	const rule, role = "C18.R4", "refresh-issue"
	for _, fn := range c.refreshIssueFns() {
		ex := c.Explore(fn, handlerCfg(), "handler")
		if !c.complete(ex, rule, role, fn) {
			continue
		}
		ok := true
		var w *Path
		n := 0
		for _, p := range ex.Paths {
			for _, f := range p.Facts {
				if f.Atom.Kind == "B" && f.Pol && f.Atom.A.IsCall("errors.Is") && len(f.Atom.A.Args) == 2 && f.Atom.A.Args[1].Key() == "global:fosite.ErrSerializationFailure" {
					rbFailed := false
					for _, rb := range p.Calls("storage.MaybeRollbackTx") {
						if p.NonNil(rb.Result) {
							rbFailed = true
						}
					}
					if rbFailed {
						continue // a failed rollback surfaces as a server error
					}
					n++
					if p.Classify() != ExitFail || errorRoot(p.ErrRet()) != "fosite.ErrInvalidRequest" {
						ok, w = false, p
					}
				}
			}
		}
		c.Check(ok && n > 0, rule, role, fn, "serialization-conflict-retryable", "a storage error that is ErrSerializationFailure exits as an ErrInvalidRequest-derived (retryable) error", "no such branch, or it exits with another error", w)
	}
}

func c18R5(c *Ctx) {
	const rule, role = "C18.R5", "validate"
	n := 0
	for _, fn := range c.ValidateFns() {
		if !c.P.CallsNamedAny(fn, 4, storageMutators) {
			c.OK(rule, role, fn, "validate-read-only", "validate-phase functions mutate storage only in replay/reuse branches").Layer = "no mutator reachable"
			n++
			continue
		}
		ex := c.Explore(fn, handlerCfg(), "handler")
		if !c.complete(ex, rule, role, fn) {
			continue
		}
		n++
		ok := true
		var w *Path
		why := ""
		for _, p := range ex.Paths {
			for _, e := range p.Events {
				if e.Kind != "call" || !storageMutators[e.Name] {
					continue
				}
				if e.Name == ".MarkJWTUsedForTime" || e.Name == ".SetClientAssertionJWT" {
					continue // jti registry: at-most-once marking is its purpose (C15.R2)
				}
				// replay / reuse branch: some lookup error on the path is known Invalidated*/Inactive before e
				inBranch := false
				for _, f := range p.Facts[:min(e.NFacts, len(p.Facts))] {
					if f.Atom.Kind == "B" && f.Pol && f.Atom.A.IsCall("errors.Is") && len(f.Atom.A.Args) == 2 {
						switch f.Atom.A.Args[1].Key() {
						case "global:fosite.ErrInvalidatedAuthorizeCode", "global:fosite.ErrInvalidatedDeviceCode", "global:fosite.ErrInactiveToken":
							inBranch = true
						}
					}
				}
				if !inBranch {
					ok, w = false, p
					why = fmt.Sprintf("%s (%s) is called in the validate phase outside a replay/reuse branch", e.Name, c.P.Pos(e.Instr.Pos()))
				}
			}
		}
		c.Check(ok, rule, role, fn, "validate-read-only", "validate-phase functions mutate storage only in replay/reuse branches (a failed attempt must leave the credential usable by its holder)", why, w)
	}
	if n < 5 {
		c.RoleUnmatched(rule, role, "at least 5 HandleTokenEndpointRequest implementations")
	}
}

// C18.R6 — error identity. Handlers and endpoints classify failures with
// errors.Is against the package's error values (ErrUnknownRequest = "not my
// request, skip", ErrSerializationFailure = "retry", ...). Several of them share
// the ErrorField "error" and differ only in the status code, so
// RFC6749Error.Is must compare both fields; comparing the name alone makes a
// serialization conflict look like ErrUnknownRequest and the endpoint skips it.
func c18ErrorIdentity(c *Ctx) {
	const rule, role = "C18.R6", "error-identity"
	fn := c.P.Func("(" + pkgRoot + ".RFC6749Error).Is")
	if fn == nil {
		fn = c.P.Func("(*" + pkgRoot + ".RFC6749Error).Is")
	}
	if fn == nil {
		c.RoleUnmatched(rule, role, "(RFC6749Error).Is")
		return
	}
	ex := c.Explore(fn, ExploreConfig{}, "errors")
	if !c.complete(ex, rule, role, fn) {
		return
	}
	ok, n := true, 0
	var w *Path
	for _, p := range ex.Paths {
		if p.Kind != "return" || len(p.Rets) != 1 || p.Rets[0].Key() != tTrue.Key() {
			continue
		}
		n++
		both := map[string]bool{}
		for _, f := range p.Facts {
			if f.Atom.Kind == "EQ" && f.Pol {
				for _, nm := range []string{"ErrorField", "CodeField"} {
					a, b := f.Atom.A, f.Atom.B
					if a.Op == "field" && a.Name == nm && b.Op == "field" && b.Name == nm {
						both[nm] = true
					}
				}
			}
		}
		if !(both["ErrorField"] && both["CodeField"]) {
			ok, w = false, p
		}
	}
	c.Check(ok && n > 0, rule, role, fn, "name-and-code", "RFC6749Error.Is reports identity only if both the error name and the status code are equal", "true is returned with only one of them compared", w)
}

// C18.R7 — endpoint dispatch loops propagate handler failures. Every endpoint
// walks a list of handlers; a handler may say "not my request"
// (ErrUnknownRequest), succeed, or fail. A failure of any handler must end the
// request: the endpoint may reach a success exit only if every handler result on
// the path is known nil or known to be ErrUnknownRequest, and no further handler
// runs after a failed one (a later handler may already consume state — the PKCE
// handler deletes its session in the populate phase).
var dispatchMethods = map[string]bool{
	".HandleTokenEndpointRequest": true, ".PopulateTokenEndpointResponse": true, ".HandleAuthorizeEndpointRequest": true,
	".RevokeToken": true, ".IntrospectToken": true, ".HandleDeviceEndpointRequest": true, ".HandlePushedAuthorizeEndpointRequest": true,
}

func c18Dispatch(c *Ctx) {
	const rule, role = "C18.R7", "endpoint-dispatch"
	n := 0
	for _, fn := range c.P.MethodsOf(pkgRoot, "Fosite") {
		if fn.Object() == nil || !fn.Object().Exported() || !c.P.RefsMethod(fn, 1, keysOfBool(dispatchMethods)...) {
			continue
		}
		ex := c.Explore(fn, rootCfg(), "root")
		if !c.complete(ex, rule, role, fn) {
			continue
		}
		ok, m := true, 0
		var w *Path
		why := ""
		for _, p := range ex.Paths {
			var failed *Event
			for _, e := range p.Events {
				if e.Kind != "call" || !e.Invoke || !dispatchMethods[e.Name] {
					continue
				}
				m++
				if failed != nil {
					ok, w = false, p
					why = fmt.Sprintf("%s (%s) still runs after %s (%s) failed", e.Name, c.P.Pos(e.Instr.Pos()), failed.Name, c.P.Pos(failed.Instr.Pos()))
				}
				er := errResult(e)
				if er == nil {
					continue
				}
				isNil := p.IsNil(er)
				unknownReq := p.Holds(atomB(call("errors.Is", er, gl("fosite.ErrUnknownRequest"))), true)
				if !isNil && !unknownReq {
					if p.NonNil(er) {
						failed = e
					}
					if p.Kind == "return" && (p.Classify() == ExitSuccess) {
						ok, w = false, p
						why = fmt.Sprintf("the endpoint succeeds although the result of %s (%s) is neither known nil nor known to be ErrUnknownRequest", e.Name, c.P.Pos(e.Instr.Pos()))
					}
				}
			}
		}
		if m > 0 {
			n++
			c.Check(ok, rule, role, fn, "handler-failure-ends-request", "a success exit needs every handler result on the path to be nil or ErrUnknownRequest, and no handler runs after a failed one", why, w)
		}
	}
	if n < 5 {
		c.RoleUnmatched(rule, role, fmt.Sprintf("at least 5 endpoint functions dispatching to handler lists; found %d", n))
	}
}

func keysOfBool(m map[string]bool) []string {
	var out []string
	for k := range m {
		out = append(out, k)
	}
	sort.Strings(out)
	return out
}

// C18.R8 — handler registration keeps every handler type, in registration
// order. compose.Compose fills the endpoint handler lists through the Append
// methods; the dispatch loops rely on the order (the PKCE handler after the
// code handler, OIDC handlers after their OAuth2 companions — C03.R5, C14.R4)
// and on no handler being dropped. Append may skip a handler only when an
// element of the list has the identical dynamic type (reflect.TypeOf equality —
// not the type's name or kind), and otherwise appends it at the end.
func c18Registration(c *Ctx) {
	const rule, role = "C18.R8", "handler-registration"
	n := 0
	for _, fn := range c.P.AllFuncs {
		if fn.Name() != "Append" || fn.Parent() != nil || fnPkgPath(fn) != pkgRoot || fn.Signature.Recv() == nil || !strings.HasSuffix(recvTypeName(fn), "Handlers") {
			continue
		}
		ex := c.Explore(fn, ExploreConfig{}, "append")
		if !c.complete(ex, rule, role, fn) {
			continue
		}
		n++
		recv, h := paramNamed(fn, 0), paramNamed(fn, 1)
		old := mk("deref", "", recv)
		ok, nApp := true, 0
		var w *Path
		why := ""
		for _, p := range ex.Paths {
			if p.Kind != "return" {
				continue
			}
			var st *Event
			for _, e := range p.Events {
				if e.Kind == "store" && len(e.Args) == 2 && e.Args[0].Key() == recv.Key() {
					st = e
				}
			}
			if st == nil {
				// skipped: only for an element of identical dynamic type
				same := false
				for _, f := range p.Facts {
					if f.Atom.Kind == "EQ" && f.Pol && f.Atom.A.IsCall("reflect.TypeOf") && f.Atom.B.IsCall("reflect.TypeOf") {
						a, b := f.Atom.A.Args[0], f.Atom.B.Args[0]
						if a.Key() == h.Key() && b.Op == "idx" && b.Args[0].Key() == old.Key() || b.Key() == h.Key() && a.Op == "idx" && a.Args[0].Key() == old.Key() {
							same = true
						}
					}
				}
				if !same {
					ok, w, why = false, p, "the handler is dropped without an element of identical dynamic type (reflect.TypeOf equality) in the list"
				}
				continue
			}
			nApp++
			v := st.Args[1]
			if !(v.IsCall("append") && len(v.Args) == 2 && v.Args[0].Key() == old.Key() && v.Args[1].Contains(h.Key())) {
				ok, w, why = false, p, "the list becomes "+clip(v.Pretty(), 80)+": not the old list with the handler appended at the end"
			}
		}
		c.Check(ok && nApp > 0, rule, role, fn, "appends-in-order-dedup-by-type", "Append skips a handler only for an element of identical dynamic type and otherwise appends it at the end of the list", why, w)
	}
	if n < 4 {
		c.RoleUnmatched(rule, role, fmt.Sprintf("at least 4 Append methods of endpoint handler lists; found %d", n))
	}
}

// C18.R6 (operand order) — errors.Is(err, target) walks the chain of its FIRST
// operand. With the operands swapped the sentinel's own (empty) chain is walked
// and every decorated error (WithHint/WithWrap/WithStack — all real ones) stops
// matching, so the branch that refuses or retries is silently skipped.
func checkErrorsIsOperands(c *Ctx, rule string) {
	const role = "error-identity"
	sentinel := func(v ssa.Value) bool {
		for i := 0; i < 4; i++ {
			switch x := v.(type) {
			case *ssa.MakeInterface:
				v = x.X
				continue
			case *ssa.ChangeInterface:
				v = x.X
				continue
			case *ssa.UnOp:
				if g, ok := x.X.(*ssa.Global); ok && x.Op == token.MUL {
					return strings.HasPrefix(g.Name(), "Err") && isSubjectPkg(g.Pkg.Pkg.Path())
				}
				return false
			}
			return false
		}
		return false
	}
	n := 0
	var bad *ssa.Function
	why := ""
	for _, fn := range c.P.AllFuncs {
		if fn.Pkg == nil || !isSubjectPkg(fn.Pkg.Pkg.Path()) {
			continue
		}
		for _, b := range fn.Blocks {
			for _, ins := range b.Instrs {
				call, ok := ins.(ssa.CallInstruction)
				if !ok {
					continue
				}
				cal := call.Common().StaticCallee()
				if cal == nil || cal.Pkg == nil || cal.Name() != "Is" || len(call.Common().Args) != 2 {
					continue
				}
				if pp := cal.Pkg.Pkg.Path(); pp != "errors" && pp != "github.com/pkg/errors" {
					continue
				}
				n++
				if a := call.Common().Args; sentinel(a[0]) && !sentinel(a[1]) {
					if bad == nil {
						bad = fn
					}
					why += fmt.Sprintf("errors.Is at %s has the package error value as its first operand; ", c.P.Pos(ins.Pos()))
				}
			}
		}
	}
	if n < 20 {
		c.RoleUnmatched(rule, role, fmt.Sprintf("at least 20 errors.Is call sites (found %d)", n))
		return
	}
	c.Check(bad == nil, rule, role, bad, "errors-is-operand-order", fmt.Sprintf("in all %d errors.Is call sites the chain that is walked is the received error's, the package error value is the target", n), why, nil)
}
