package main

import (
	"fmt"
	"strings"

	"golang.org/x/tools/go/ssa"
)

func init() {
	register(&propInfo{
		ID:          "C15",
		Run:         runC15,
		MinObl:      27,
		Explanation: "Decided: R1 client assertion — every success exit of the assertion branch of the default client authentication (jwt.ParseWithClaims and the key function traversed in place) requires: the registered method private_key_jwt; the registered signing algorithm equal to the header alg; the verification key obtained from the client's registered JWKS for an RS*/ES*/PS* method (HS* and unknown methods are fail exits); signature verification by the parser; Claims.Valid()==nil; the exp claim verified as required against the current time (an absent or zero exp is a fail exit); VerifyIssuer(client id, required); sub == client id; a non-empty jti; ClientAssertionJWTValid(jti)==nil; an exp claim of a numeric type; SetClientAssertionJWT(jti, exp)==nil; and the audience matching a configured token URL; the client returned is the one looked up for that id; R2 at-most-once marking: the results of SetClientAssertionJWT / MarkJWTUsedForTime are tested and a non-nil result reaches only fail exits; in the reference store the existence test and the insertion of a jti happen under one uninterrupted write-lock hold and the exists edge returns ErrJTIKnown before the write; R3 JWT-bearer grant: success requires the signature verified with a key looked up for (iss, sub[, kid]), a non-empty audience containing a token URL, exp present and not before now, nbf not after now, iat present unless optional, exp − iat within the configured maximum, jti present unless optional and unused, the requested scopes covered by the key's scopes (C12) and the jti marked. R4 retention covers acceptance: over the four orderings of now against exp (before, equal, within the following second, later) every ordering in which jwt.verifyExp (whole seconds) or the JWT-bearer expiry test still accepts is one in which the reference store still reports a recorded jti as known and does not purge it (comparators read from the path literals; constant Add shifts folded; anything else undetermined = not retained). NOT decided: go-jose's signature verification, interleavings beyond the store's atomic section.",
	})
}

func authnInline(P *Program) func(*ssa.Function) bool {
	memo := map[*ssa.Function]bool{}
	return func(fn *ssa.Function) bool {
		if fn.Parent() != nil {
			return true
		}
		if fn.String() == pkgJWT+".ParseWithClaims" {
			return true
		}
		if !defaultInline(fn) {
			return false
		}
		v, ok := memo[fn]
		if !ok {
			// the JWKS lookup helper stays opaque (its result is "the client's registered key")
			v = !P.RefsMethod(fn, 0, ".GetJSONWebKeys", ".Resolve")
			memo[fn] = v
		}
		return v
	}
}

func runC15(c *Ctx) {
	defer checkContextPropagated(c, "C15.R11")
	defer checkParseSignatureFirst(c, "C15.R10")
	defer checkJWKSCacheKey(c, "C15.R8")
	defer checkClientGetters(c, "C15.R9", clientGetter{"DefaultOpenIDConnectClient", "GetTokenEndpointAuthSigningAlgorithm", "TokenEndpointAuthSigningAlgorithm", "RS256"}, clientGetter{"DefaultOpenIDConnectClient", "GetJSONWebKeys", "JSONWebKeys", ""}, clientGetter{"DefaultOpenIDConnectClient", "GetJSONWebKeysURI", "JSONWebKeysURI", ""})
	defer checkVerifyAud(c, "C15.R7")
	defer checkStoreLooksUp(c, "C15.R6", "GetPublicKey", 2, 3, 4)
	defer checkStoreLooksUp(c, "C15.R6", "GetPublicKeys", 2, 3)
	defer checkStoreKeyed(c, "C15.R6", storeRow{meth: "SetClientAssertionJWT", table: "BlacklistedJTIs", op: "create", key: 2, purge: true}, storeRow{meth: "ClientAssertionJWTValid", table: "BlacklistedJTIs", op: "lookup", key: 2})
	defer checkConfigGetters(c, "C15.R5", "GetGrantTypeJWTBearerIDOptional", "GetGrantTypeJWTBearerIssuedDateOptional", "GetJWTMaxDuration", "GetTokenURLs")
	c15R1(c)
	c15R2(c)
	c15R3(c)
	c15R4(c)
}

func c15R1(c *Ctx) {
	const rule, role = "C15.R1", "authn"
	fn := c.P.Func("(*" + pkgRoot + ".Fosite).DefaultClientAuthenticationStrategy")
	if fn == nil {
		c.RoleUnmatched(rule, role, "(*Fosite).DefaultClientAuthenticationStrategy")
		return
	}
	ex := c.Explore(fn, ExploreConfig{Inline: authnInline(c.P), Opaque: func(f *ssa.Function) bool { return c.P.RefsMethod(f, 0, ".GetJSONWebKeys", ".Resolve") }, ForceInline: func(f *ssa.Function) bool { return f.String() == pkgJWT+".ParseWithClaims" }}, "authn-deep")
	if !c.complete(ex, rule, role, fn) {
		return
	}
	names := []string{"method-private-key-jwt", "alg-pinned", "key-from-jwks", "signature-verified", "claims-valid", "exp-required", "issuer", "subject", "jti-present", "jti-unused", "exp-typed", "jti-marked", "audience", "returns-looked-up-client"}
	type chk struct {
		ok  bool
		w   *Path
		why string
	}
	cs := map[string]*chk{}
	for _, n := range names {
		cs[n] = &chk{ok: true}
	}
	fail := func(k string, p *Path, why string) { cs[k].ok, cs[k].w, cs[k].why = false, p, why }
	nS := 0
	for _, p := range ex.Paths {
		if !p.Success() || p.Kind != "return" || len(p.Rets) != 2 {
			continue
		}
		ps := p.First("jwt.ParseSigned")
		if ps == nil {
			continue // secret-based path (C10.R4)
		}
		nS++
		gc := p.First(".GetClient")
		if gc == nil || !p.IsNil(gc.Ret(1)) {
			fail("returns-looked-up-client", p, "assertion success without a successful client lookup")
			continue
		}
		client, clientID := gc.Ret(0), gc.Arg(1)
		if p.Rets[0].Key() != client.Key() {
			fail("returns-looked-up-client", p, "the returned client is not the one looked up for the assertion's client id")
		}
		m := call(".GetTokenEndpointAuthMethod", client)
		if !p.Eq(m, tStr("private_key_jwt")) {
			fail("method-private-key-jwt", p, "assertion accepted for a client whose method is not known to be private_key_jwt")
		}
		pinned := false
		for _, f := range p.Facts {
			if f.Atom.Kind == "EQ" && f.Pol {
				for _, pr := range [][2]*Term{{f.Atom.A, f.Atom.B}, {f.Atom.B, f.Atom.A}} {
					if pr[0].IsCall(".GetTokenEndpointAuthSigningAlgorithm") && pr[0].Args[0].Key() == client.Key() && pr[1].Mentions(func(s *Term) bool {
						return s.Op == "lookup" && len(s.Args) == 2 && s.Args[1].Key() == tStr("alg").Key() || s.Op == "field" && s.Name == "Algorithm"
					}) {
						pinned = true
					}
				}
			}
		}
		if !pinned {
			fail("alg-pinned", p, "assertion accepted without registered signing algorithm == header alg")
		}
		// key from JWKS helper and used for verification
		var keyEv *Event
		for _, e := range p.Events {
			if e.Kind == "call" && e.StaticFn != nil && c.P.RefsMethod(e.StaticFn, 0, ".GetJSONWebKeys", ".Resolve") {
				keyEv = e
			}
		}
		if keyEv == nil || !p.IsNil(keyEv.Ret(1)) || !mentionsTerm(&Term{Op: "tuple", Args: keyEv.Args}, client) {
			fail("key-from-jwks", p, "assertion accepted without a key from the client's registered JWKS")
		} else {
			ver := false
			for _, e := range p.Calls(".Claims") {
				if p.IsNil(e.Result) && e.Arg(0).Contains(keyEv.Ret(0).Key()) {
					ver = true
				}
			}
			if !ver {
				fail("signature-verified", p, "assertion accepted without the parser having verified the signature with the JWKS key")
			}
		}
		// claims valid
		cv := 0
		for _, f := range p.Facts {
			if f.Atom.Kind == "EQ" && f.Pol {
				for _, t := range []*Term{f.Atom.A, f.Atom.B} {
					if t.IsCall(".Valid") {
						cv++
					}
				}
			}
		}
		if cv == 0 {
			fail("claims-valid", p, "assertion accepted without Claims.Valid()==nil")
		}
		// exp is required: Claims.Valid() treats an absent or zero exp as "no expiry"
		// (VerifyExpiresAt(now, false)), so unexpired-ness needs the required form, or an
		// explicit comparison of the exp claim with the current time
		expReq, _ := p.BoolCall(".VerifyExpiresAt", func(t *Term) bool {
			return len(t.Args) == 3 && t.Args[2].Key() == tTrue.Key() && mentionsNow(t.Args[1])
		})
		if !expReq {
			for _, f := range p.Facts {
				if f.Atom.Kind != "LT" {
					continue
				}
				isExp := func(t *Term) bool {
					return t.Mentions(func(s *Term) bool {
						return s.Op == "lookup" && len(s.Args) == 2 && s.Args[1].Key() == tStr("exp").Key()
					})
				}
				// now < exp, or not (exp < now)
				if f.Pol && mentionsNow(f.Atom.A) && isExp(f.Atom.B) || !f.Pol && isExp(f.Atom.A) && mentionsNow(f.Atom.B) {
					expReq = true
				}
			}
		}
		if !expReq {
			fail("exp-required", p, "assertion accepted although its exp claim may be absent or zero: Claims.Valid() does not require exp, and no VerifyExpiresAt(now, required) / comparison of exp with the current time holds on the path")
		}
		// issuer / subject against the client id
		iss, _ := p.BoolCall(".VerifyIssuer", func(t *Term) bool {
			return len(t.Args) == 3 && t.Args[1].Key() == clientID.Key() && t.Args[2].Key() == tTrue.Key()
		})
		if !iss {
			fail("issuer", p, "assertion accepted without VerifyIssuer(client id, required)")
		}
		subOK := false
		var jti *Term
		for _, f := range p.Facts {
			if f.Atom.Kind == "EQ" && f.Pol {
				for _, pr := range [][2]*Term{{f.Atom.A, f.Atom.B}, {f.Atom.B, f.Atom.A}} {
					if pr[1].Key() == clientID.Key() && pr[0].Mentions(func(s *Term) bool {
						return s.Op == "lookup" && len(s.Args) == 2 && s.Args[1].Key() == tStr("sub").Key()
					}) {
						subOK = true
					}
				}
			}
		}
		// clientID may itself be the sub claim (no client_id in the body): then iss is still compared with it
		if clientID.Mentions(func(s *Term) bool {
			return s.Op == "lookup" && len(s.Args) == 2 && s.Args[1].Key() == tStr("sub").Key()
		}) {
			subOK = true
		}
		if !subOK {
			fail("subject", p, "assertion accepted without sub == client id")
		}
		vj := p.First(".ClientAssertionJWTValid")
		if vj == nil || !p.IsNil(vj.Result) {
			fail("jti-unused", p, "assertion accepted without ClientAssertionJWTValid(jti)==nil")
		} else {
			jti = vj.Arg(1)
			if !jti.Mentions(func(s *Term) bool {
				return s.Op == "lookup" && len(s.Args) == 2 && s.Args[1].Key() == tStr("jti").Key()
			}) {
				fail("jti-unused", p, "the value checked against the jti registry is not the jti claim")
			}
			if !p.NonEmptyStr(jti) {
				fail("jti-present", p, "assertion accepted without a non-empty jti")
			}
		}
		sj := p.First(".SetClientAssertionJWT")
		if sj == nil || !p.IsNil(sj.Result) || jti != nil && sj.Arg(1).Key() != jti.Key() {
			fail("jti-marked", p, "assertion accepted without SetClientAssertionJWT(jti, exp)==nil for the checked jti")
		} else {
			if !sj.Arg(2).Mentions(func(s *Term) bool {
				return s.Op == "lookup" && len(s.Args) == 2 && s.Args[1].Key() == tStr("exp").Key()
			}) {
				fail("exp-typed", p, "the jti is registered with an expiry that is not the assertion's exp claim")
			} else if sj.Arg(2).Mentions(func(s *Term) bool {
				// NumericDate is seconds: the claim is converted, never scaled or offset on the way to time.Unix
				return s.Op == "bin" && len(s.Args) == 2 && (s.Name == "/" || s.Name == "*" || s.Name == "+" || s.Name == "-" || s.Name == ">>" || s.Name == "<<") &&
					(s.Args[0].Mentions(func(x *Term) bool { return x.Op == "lookup" }) || s.Args[1].Mentions(func(x *Term) bool { return x.Op == "lookup" }))
			}) {
				fail("exp-typed", p, "the jti is registered with an expiry computed by arithmetic on the exp claim (a unit slip forgets the jti early)")
			}
		}
		audOK := false
		for _, f := range p.Facts {
			if f.Pol && (f.Atom.Kind == "EQ" || f.Atom.Kind == "B") {
				for _, t := range []*Term{f.Atom.A, f.Atom.B} {
					if t == nil {
						continue
					}
					// required form only: VerifyAudience(url, false) is true for an assertion without aud
					if t.IsCall(".VerifyAudience") && len(t.Args) == 3 && t.Args[2].Key() == tTrue.Key() && t.Args[1].Mentions(func(s *Term) bool { return s.IsCall(".GetTokenURLs") }) {
						audOK = true
					}
					if t.Op == "idx" && t.Args[0].IsCall(".GetTokenURLs") && f.Atom.Kind == "EQ" {
						audOK = true
					}
				}
			}
		}
		if !audOK {
			fail("audience", p, "assertion accepted without the audience matching a configured token URL")
		}
	}
	if nS == 0 {
		c.Bad(rule, role, fn, "assertion-success-path", "the assertion branch has a success path", "none found", nil)
		return
	}
	desc := map[string]string{
		"method-private-key-jwt":   "the client's registered method is private_key_jwt",
		"alg-pinned":               "the client's registered signing algorithm equals the header alg",
		"key-from-jwks":            "the verification key comes from the client's registered JWKS",
		"signature-verified":       "the parser verified the signature with that key",
		"claims-valid":             "Claims.Valid() returned nil",
		"exp-required":             "the exp claim is present and compared with the current time (an absent or zero exp is refused)",
		"issuer":                   "iss equals the client id (VerifyIssuer required)",
		"subject":                  "sub equals the client id",
		"jti-present":              "jti is non-empty",
		"jti-unused":               "ClientAssertionJWTValid(jti) returned nil",
		"exp-typed":                "the jti is registered until the assertion's own exp",
		"jti-marked":               "SetClientAssertionJWT(jti, exp) returned nil",
		"audience":                 "aud contains a configured token URL",
		"returns-looked-up-client": "the client returned is the one looked up for the assertion's client id",
	}
	for _, n := range names {
		c.Check(cs[n].ok, rule, role, fn, n, "a client assertion authenticates only if "+desc[n], cs[n].why, cs[n].w)
	}
}

func c15R2(c *Ctx) {
	const rule = "C15.R2"
	// store: check and insert in one write-lock hold; exists edge returns ErrJTIKnown before the write
	fn := storeMethod(c, "SetClientAssertionJWT")
	if fn == nil {
		c.RoleUnmatched(rule, "store", "(*MemoryStore).SetClientAssertionJWT")
	} else {
		ex := c.Explore(fn, storeCfg(), "store")
		if c.complete(ex, rule, "store", fn) {
			jti := paramNamed(fn, 2)
			ok, nIns, nKnown := true, 0, 0
			var w *Path
			why := ""
			for _, p := range ex.Paths {
				held := ""
				holdNo := 0
				lookupHold := -1
				for _, e := range p.Events {
					if e.Kind == "call" {
						if mu, op, isMu := lockOp(e); isMu && mu == guardTable["BlacklistedJTIs"] {
							switch op {
							case ".Lock":
								held = "W"
								holdNo++
							case ".RLock":
								held = "R"
								holdNo++
							case ".Unlock", ".RUnlock":
								held = ""
							}
						}
					}
					if e.Kind == "maplookup" && isStoreMap(e.Args[0], "BlacklistedJTIs") && e.Args[1].Key() == jti.Key() {
						lookupHold = holdNo
						if held != "W" {
							ok, w, why = false, p, "the existence test of the jti runs without the write lock"
						}
					}
					if e.Kind == "mapupdate" && isStoreMap(e.Args[0], "BlacklistedJTIs") && e.Args[1].Key() == jti.Key() {
						nIns++
						if held != "W" || lookupHold != holdNo {
							ok, w, why = false, p, "the jti is inserted in another lock hold than its existence test (or without one)"
						}
						if !p.HoldsAt(e, atomB(call("haskey", e.Args[0], jti)), false) {
							ok, w, why = false, p, "the jti is inserted without the existence test having been negative"
						}
					}
				}
				if p.Holds(atomB(call("haskey", field(paramNamed(fn, 0), "BlacklistedJTIs"), jti)), true) {
					nKnown++
					if p.Kind != "return" || errorRoot(p.ErrRet()) != "fosite.ErrJTIKnown" {
						ok, w, why = false, p, "a known jti does not return ErrJTIKnown"
					}
				}
			}
			c.Check(ok && nIns > 0 && nKnown > 0, rule, "store", fn, "check-and-insert-atomic", "the existence test and the insertion of a jti happen under one uninterrupted write-lock hold, and a known jti returns ErrJTIKnown before any write", why, w)
		}
	}
	if fn2 := storeMethod(c, "MarkJWTUsedForTime"); fn2 != nil {
		ex := c.Explore(fn2, ExploreConfig{}, "store-opaque")
		ok := len(ex.Paths) > 0
		for _, p := range ex.Paths {
			e := p.First(".SetClientAssertionJWT")
			if e == nil || unwrapStack(p.ErrRet()).Key() != e.Result.Key() && !(p.IsNil(e.Result) && p.Success()) {
				ok = false
			}
		}
		c.Check(ok, rule, "store", fn2, "mark-delegates", "MarkJWTUsedForTime returns the result of the atomic check-and-insert", "it does not", nil)
	}
	// callers test the marking result (C18.R1 generalised to the jti registry)
	n := 0
	for _, en := range c.allEntries() {
		if !c.P.CallsNamedAny(en.fn, 4, map[string]bool{".SetClientAssertionJWT": true, ".MarkJWTUsedForTime": true}) || fnPkgPath(en.fn) == pkgStorage {
			continue
		}
		cfg := en.cfg
		if en.fn.Name() == "DefaultClientAuthenticationStrategy" {
			cfg = ExploreConfig{}
		} else {
			cfg = ExploreConfig{Inline: c.storageReaching(handlerInline)}
		}
		ex := c.Explore(en.fn, cfg, "jti-mark")
		if ex.Truncated != "" {
			continue
		}
		ok, m := true, 0
		var w *Path
		for _, p := range ex.Paths {
			for _, e := range p.Calls(".SetClientAssertionJWT", ".MarkJWTUsedForTime") {
				m++
				if p.Success() && p.Kind == "return" && !p.IsNil(e.Result) {
					ok, w = false, p
				}
			}
		}
		if m > 0 {
			n++
			c.Check(ok, rule, en.role, en.fn, "marking-result-tested", "success is reachable only if marking the jti as used returned nil", "a success exit does not depend on the marking result", w)
		}
	}
	if n < 2 {
		c.RoleUnmatched(rule, "jti-markers", fmt.Sprintf("client authentication and the JWT-bearer handler marking jtis; found %d", n))
	}
}

func c15R3(c *Ctx) {
	const rule, role = "C15.R3", "jwt-bearer"
	var fn *ssa.Function
	for _, f := range c.ValidateFns() {
		if recvTypeName(f) == pkgJWTB+".Handler" {
			fn = f
		}
	}
	if fn == nil {
		c.RoleUnmatched(rule, role, "JWT-bearer validate function")
		return
	}
	ex := c.Explore(fn, handlerCfg(), "handler")
	if !c.complete(ex, rule, role, fn) {
		return
	}
	names := []string{"key-for-iss-sub", "signature-verified", "audience", "exp", "nbf", "iat", "max-duration", "jti", "jti-marked"}
	type chk struct {
		ok  bool
		w   *Path
		why string
	}
	cs := map[string]*chk{}
	for _, n := range names {
		cs[n] = &chk{ok: true}
	}
	fail := func(k string, p *Path, why string) { cs[k].ok, cs[k].w, cs[k].why = false, p, why }
	mentionsField := func(t *Term, f string) bool {
		return t.Mentions(func(s *Term) bool { return s.Op == "field" && s.Name == f })
	}
	nS := 0
	for _, p := range ex.Paths {
		if !p.Success() || p.Kind != "return" {
			continue
		}
		nS++
		// key lookup keyed by claims of the (unverified) token: GetPublicKey(iss, sub, kid) or GetPublicKeys(iss, sub)
		var key *Term
		for _, e := range p.Calls(".GetPublicKey", ".GetPublicKeys") {
			if p.IsNil(e.Ret(1)) && mentionsField(e.Arg(1), "Issuer") && mentionsField(e.Arg(2), "Subject") {
				key = e.Ret(0)
			}
		}
		if key == nil {
			fail("key-for-iss-sub", p, "success without a public key looked up for the assertion's (iss, sub)")
			continue
		}
		ver := false
		var claims *Term
		for _, e := range p.Calls(".Claims") {
			if p.IsNil(e.Result) && e.Arg(0).Mentions(func(s *Term) bool { return s.Key() == key.Key() }) {
				ver = true
				claims = &Term{Op: "out", Name: "2", Args: []*Term{e.Result}}
			}
		}
		if !ver {
			fail("signature-verified", p, "success without the assertion's signature verified with the looked-up key")
			continue
		}
		_ = claims
		has := func(pred func(f Fact) bool) bool {
			for _, f := range p.Facts {
				if pred(f) {
					return true
				}
			}
			return false
		}
		// audience non-empty and contains a token URL
		audNonEmpty := has(func(f Fact) bool {
			return (f.Atom.Kind == "EQ" && !f.Pol || f.Atom.Kind == "LT" && !f.Pol) && f.Atom.A != nil && f.Atom.A.IsCall("len") && mentionsField(f.Atom.A, "Audience") ||
				f.Atom.Kind == "EQ" && !f.Pol && f.Atom.B != nil && f.Atom.B.IsCall("len") && mentionsField(f.Atom.B, "Audience")
		})
		// membership of a configured token URL in aud, by equality: Audience.Contains(url),
		// StringInSlice(url, aud) or aud[i] == url. A verdict of the configurable audience
		// *strategy* (prefix matching by default) is not membership.
		isURL := func(t *Term) bool { return t.Mentions(func(s *Term) bool { return s.IsCall(".GetTokenURLs") }) }
		viaStrategy := func(t *Term) bool {
			return t.Mentions(func(s *Term) bool { return s.IsCall("apply") || s.IsCall(".GetAudienceStrategy") })
		}
		audURL := has(func(f Fact) bool {
			if !f.Pol {
				return false
			}
			switch f.Atom.Kind {
			case "B":
				t := f.Atom.A
				if viaStrategy(t) {
					return false
				}
				if t.IsCall(".Contains") && len(t.Args) == 2 && mentionsField(t.Args[0], "Audience") && isURL(t.Args[1]) {
					return true
				}
				if t.IsCall("fosite.StringInSlice") && len(t.Args) == 2 && isURL(t.Args[0]) && mentionsField(t.Args[1], "Audience") {
					return true
				}
			case "EQ":
				a, b := f.Atom.A, f.Atom.B
				if viaStrategy(a) || viaStrategy(b) {
					return false
				}
				if mentionsField(a, "Audience") && isURL(b) || mentionsField(b, "Audience") && isURL(a) {
					return true
				}
			}
			return false
		})
		if !audNonEmpty || !audURL {
			fail("audience", p, fmt.Sprintf("success without a non-empty audience (%v) containing a configured token URL (%v)", audNonEmpty, audURL))
		}
		// exp present and not before now
		expPresent := has(func(f Fact) bool {
			return f.Atom.Kind == "EQ" && !f.Pol && (mentionsField(f.Atom.A, "Expiry") && f.Atom.B.Op == "nil" || mentionsField(f.Atom.B, "Expiry") && f.Atom.A.Op == "nil")
		})
		expFresh := has(func(f Fact) bool {
			if f.Atom.Kind != "B" {
				return false
			}
			a := f.Atom.A
			return (a.IsCall(".Before") && mentionsField(a.Args[0], "Expiry") && mentionsNow(a.Args[1]) && !f.Pol) ||
				(a.IsCall(".After") && mentionsField(a.Args[1], "Expiry") && mentionsNow(a.Args[0]) && !f.Pol) ||
				// now strictly before exp (exp.After(now), normalised)
				(a.IsCall(".Before") && mentionsField(a.Args[1], "Expiry") && mentionsNow(a.Args[0]) && f.Pol)
		})
		if !expPresent || !expFresh {
			fail("exp", p, fmt.Sprintf("success without exp present (%v) and not before now (%v)", expPresent, expFresh))
		}
		// nbf: absent or not after now
		nbfOK := has(func(f Fact) bool {
			if f.Atom.Kind == "EQ" && f.Pol && (mentionsField(f.Atom.A, "NotBefore") && f.Atom.B.Op == "nil" || f.Atom.A.Op == "nil" && mentionsField(f.Atom.B, "NotBefore")) {
				return true
			}
			if f.Atom.Kind == "B" && !f.Pol {
				a := f.Atom.A
				if a.IsCall(".After") && mentionsField(a.Args[0], "NotBefore") && mentionsNow(a.Args[1]) || a.IsCall(".Before") && mentionsField(a.Args[1], "NotBefore") && mentionsNow(a.Args[0]) {
					return true
				}
			}
			if f.Atom.Kind == "B" && f.Pol {
				a := f.Atom.A
				if a.IsCall(".Before") && mentionsField(a.Args[0], "NotBefore") && mentionsNow(a.Args[1]) || a.IsCall(".After") && mentionsField(a.Args[1], "NotBefore") && mentionsNow(a.Args[0]) {
					return true
				}
			}
			return false
		})
		if !nbfOK {
			fail("nbf", p, "success without nbf absent or not after now")
		}
		// iat present unless optional
		iatOK := has(func(f Fact) bool {
			if f.Atom.Kind == "EQ" && !f.Pol && (mentionsField(f.Atom.A, "IssuedAt") && f.Atom.B.Op == "nil" || f.Atom.A.Op == "nil" && mentionsField(f.Atom.B, "IssuedAt")) {
				return true
			}
			return f.Atom.Kind == "B" && f.Pol && f.Atom.A.IsCall(".GetGrantTypeJWTBearerIssuedDateOptional")
		})
		if !iatOK {
			fail("iat", p, "success without iat present or declared optional")
		}
		// max duration
		durOK := has(func(f Fact) bool {
			if f.Atom.Kind == "LT" {
				for _, t := range []*Term{f.Atom.A, f.Atom.B} {
					if t.Mentions(func(s *Term) bool { return s.IsCall(".GetJWTMaxDuration") }) {
						return true
					}
				}
			}
			if f.Atom.Kind == "B" && !f.Pol && (f.Atom.A.IsCall(".After") || f.Atom.A.IsCall(".Before")) && f.Atom.A.Mentions(func(s *Term) bool { return s.IsCall(".GetJWTMaxDuration") }) {
				return true
			}
			return false
		})
		if !durOK {
			fail("max-duration", p, "success without the assertion's lifetime compared with GetJWTMaxDuration")
		}
		// jti present unless optional; unused if present
		jtiEmpty := has(func(f Fact) bool {
			return f.Atom.Kind == "EQ" && f.Pol && (mentionsField(f.Atom.A, "ID") && f.Atom.B.Key() == tStr("").Key() || f.Atom.A.Key() == tStr("").Key() && mentionsField(f.Atom.B, "ID"))
		})
		if jtiEmpty {
			if !has(func(f Fact) bool {
				return f.Atom.Kind == "B" && f.Pol && f.Atom.A.IsCall(".GetGrantTypeJWTBearerIDOptional")
			}) {
				fail("jti", p, "success with an empty jti although it is not declared optional")
			}
		} else {
			used := p.First(".IsJWTUsed")
			if used == nil || !p.IsNil(used.Ret(1)) || !p.False(used.Ret(0)) {
				fail("jti", p, "success with a jti that was not checked to be unused")
			}
			mk := p.First(".MarkJWTUsedForTime")
			if mk == nil || !p.IsNil(mk.Result) || !mentionsField(mk.Arg(1), "ID") {
				fail("jti-marked", p, "success with a jti that was not marked as used")
			}
		}
	}
	if nS == 0 {
		c.Bad(rule, role, fn, "success-path", "the JWT-bearer validate function has a success path", "none", nil)
		return
	}
	desc := map[string]string{
		"key-for-iss-sub":    "a public key registered for the assertion's (iss, sub) was found",
		"signature-verified": "the signature was verified with that key",
		"audience":           "aud is non-empty and contains a configured token URL",
		"exp":                "exp is present and not before now",
		"nbf":                "nbf is absent or not after now",
		"iat":                "iat is present unless declared optional",
		"max-duration":       "the assertion's lifetime is compared with the configured maximum",
		"jti":                "jti is present unless declared optional, and unused when present",
		"jti-marked":         "a present jti is marked as used",
	}
	for _, n := range names {
		c.Check(cs[n].ok, rule, role, fn, n, "a JWT-bearer grant succeeds only if "+desc[n], cs[n].why, cs[n].w)
	}
	_ = strings.Join
}
