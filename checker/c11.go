package main

import (
	"fmt"
	"strings"

	"golang.org/x/tools/go/ssa"
)

func init() {
	register(&propInfo{
		ID:          "C11",
		Run:         runC11,
		MinObl:      11,
		Explanation: "Decided: R1 matcher shape — MatchRedirectURIWithClientRedirectURIs returns a non-nil URL only if (raw==\"\" ∧ exactly one registered URI ∧ it parses ∧ IsValidRedirectURI) or (raw≠\"\" ∧ some registered URI b with b == raw (string equality) or the loopback rule: scheme==http ∧ IsLoopback(ParseIP(host)) ∧ host, path and raw query equal to b's ∧ both parse) ∧ the result parses ∧ IsValidRedirectURI; the returned URL is the parse of raw / of the single registered URI; R2 IsValidRedirectURI is true only with IsRequestURL(String(u)) ∧ Fragment==\"\"; R3 in WriteAuthorizeError every redirect emission (Location header, form-post render) requires IsRedirectURIValid()==true, and IsRedirectURIValid is true only if the matcher accepts the request's own URI for its own client and IsValidRedirectURI holds; R4 the Location/form target in both writers is built only from String(GetRedirectURI(request)), url.Values.Encode() and constants; AuthorizeRequest.RedirectURI is written only from the matcher's result or a stored pushed request; R5 the code-flow authorize handler and the PAR handler store/issue only after the configured secure-transport checker accepted the redirect URI, and IsRedirectURISecure is false exactly for scheme http on a non-localhost host. IsLocalhost is true only for the name localhost, a name ending in .localhost or a loopback IP literal (no prefix or substring test). NOT decided: URL-parser corner cases, what custom response-mode handlers do.",
	})
}

func runC11(c *Ctx) {
	defer checkContextPropagated(c, "C11.R10")
	defer checkClientGetters(c, "C11.R9", clientGetter{"DefaultClient", "GetRedirectURIs", "RedirectURIs", ""}, clientGetter{"DefaultClient", "GetID", "ID", ""})
	defer checkResponseModeHas(c, "C11.R8")
	defer checkStoreKeyed(c, "C11.R7", storeRow{meth: "GetClient", table: "Clients", op: "get", key: 2})
	defer checkConfigGetters(c, "C11.R6", "GetRedirectSecureChecker")
	c11R1(c)
	c11R2(c)
	c11R3(c)
	c11R4(c)
	c11R5(c)
}

func c11R1(c *Ctx) {
	const rule, role = "C11.R1", "redirect-matcher"
	fn := c.P.Func(pkgRoot + ".MatchRedirectURIWithClientRedirectURIs")
	if fn == nil {
		c.RoleUnmatched(rule, role, "fosite.MatchRedirectURIWithClientRedirectURIs")
		return
	}
	ex := c.Explore(fn, ExploreConfig{}, "matcher")
	if !c.complete(ex, rule, role, fn) {
		return
	}
	raw, client := paramNamed(fn, 0), paramNamed(fn, 1)
	reg := call(".GetRedirectURIs", client)
	ok := true
	var w *Path
	why := ""
	nA, nExact, nLoop := 0, 0, 0
	for _, p := range ex.Paths {
		if p.Kind != "return" || len(p.Rets) != 2 || p.Rets[0].Op == "nil" {
			continue
		}
		u := p.Rets[0]
		if !(u.Op == "ret" && u.Name == "0" && u.Args[0].IsCall("url.Parse")) {
			ok, w, why = false, p, "the returned URL is "+clip(u.Pretty(), 80)+", not the result of url.Parse"
			continue
		}
		src := u.Args[0].Args[0]
		if !p.IsNil(ret(1, u.Args[0])) || !p.True(call("fosite.IsValidRedirectURI", u)) {
			ok, w, why = false, p, "a URL is returned without a nil parse error and IsValidRedirectURI being true"
			continue
		}
		switch {
		case p.EmptyStr(raw):
			nA++
			lo, hi := p.IntBounds(call("len", reg))
			if lo == nil || hi == nil || *lo != 1 || *hi != 1 || src.Key() != mk("idx", "", reg, tInt(0)).Key() {
				ok, w, why = false, p, "empty redirect_uri accepted without exactly one registered URI being used"
			}
		case p.NonEmptyStr(raw):
			// exact or loopback against some registered b
			matched := false
			for k := 0; k < 3; k++ {
				b := mk("idx", "", reg, tInt(int64(k)))
				if p.Holds(atomEQ(b, raw), true) {
					matched = true
					nExact++
					if src.Key() != b.Key() && src.Key() != raw.Key() {
						ok, w, why = false, p, "exact match but another string is returned"
					}
				}
				rq, rg := ret(0, call("url.Parse", raw)), ret(0, call("url.Parse", b))
				loop := p.Eq(field(rq, "Scheme"), tStr("http")) &&
					p.True(call(".IsLoopback", call("net.ParseIP", call(".Hostname", rq)))) &&
					p.Eq(call(".Hostname", rg), call(".Hostname", rq)) &&
					p.Eq(field(rg, "Path"), field(rq, "Path")) &&
					p.Eq(field(rg, "RawQuery"), field(rq, "RawQuery")) &&
					p.IsNil(ret(1, call("url.Parse", raw))) && p.IsNil(ret(1, call("url.Parse", b)))
				if loop {
					matched = true
					nLoop++
					if src.Key() != raw.Key() {
						ok, w, why = false, p, "loopback match but the returned URL is not the requested one"
					}
				}
			}
			if !matched {
				ok, w, why = false, p, "a non-empty redirect_uri is accepted without string equality with a registered URI and without all five loopback conjuncts"
			}
		default:
			ok, w, why = false, p, "a URL is returned without the redirect_uri having been tested for emptiness"
		}
	}
	c.Check(ok, rule, role, fn, "match-shape", "a URL is returned only for an exact string match, the RFC 8252 loopback rule (http, loopback IP literal, equal host/path/query), or the single registered URI when none was requested — parsed without error and valid", why, w)
	c.Check(nA > 0 && nExact > 0 && nLoop > 0, rule, role, fn, "all-three-cases", "the three accepting cases exist", fmt.Sprintf("accepting paths: single-registered=%d exact=%d loopback=%d", nA, nExact, nLoop), nil)
}

func c11R2(c *Ctx) {
	const rule, role = "C11.R2", "redirect-valid"
	fn := c.P.Func(pkgRoot + ".IsValidRedirectURI")
	if fn == nil {
		c.RoleUnmatched(rule, role, "fosite.IsValidRedirectURI")
		return
	}
	ex := c.Explore(fn, ExploreConfig{}, "matcher")
	if !c.complete(ex, rule, role, fn) {
		return
	}
	u := paramNamed(fn, 0)
	ok, n := true, 0
	var w *Path
	for _, p := range ex.Paths {
		if p.Kind != "return" || p.Rets[0].Key() != tTrue.Key() {
			if p.Kind == "return" && p.Rets[0].Key() != tFalse.Key() {
				ok, w = false, p
			}
			continue
		}
		n++
		if !(p.True(call("govalidator.IsRequestURL", call(".String", u))) && p.EmptyStr(field(u, "Fragment"))) {
			ok, w = false, p
		}
	}
	c.Check(ok && n > 0, rule, role, fn, "absolute-no-fragment", "IsValidRedirectURI is true only if the URI is an absolute request URL and has no fragment", "true is returned otherwise", w)
}

func c11R3(c *Ctx) {
	const rule = "C11.R3"
	fn := c.P.Func("(*" + pkgRoot + ".Fosite).WriteAuthorizeError")
	if fn == nil {
		c.RoleUnmatched(rule, "authorize-error-writer", "(*Fosite).WriteAuthorizeError")
	} else {
		ex := c.Explore(fn, rootCfg(), "root")
		if c.complete(ex, rule, "authorize-error-writer", fn) {
			rw := paramByType(fn, "http.ResponseWriter")
			ar := paramByType(fn, "fosite.AuthorizeRequester")
			ok, n := true, 0
			var w *Path
			why := ""
			for _, p := range ex.Paths {
				for _, e := range p.Events {
					if e.Kind != "call" {
						continue
					}
					isLoc := e.Name == ".Set" && e.Recv != nil && e.Recv.IsCall(".Header") && e.Recv.Args[0].Key() == rw.Key() && strings.EqualFold(strVal(e.Arg(0)), "Location")
					isForm := e.Name == "fosite.WriteAuthorizeFormPostResponse"
					if !isLoc && !isForm {
						continue
					}
					n++
					if !p.TrueAt(e, call(".IsRedirectURIValid", ar)) {
						ok, w = false, p
						why = fmt.Sprintf("%s (%s) redirects although IsRedirectURIValid() is not known true", e.Name, c.P.Pos(e.Instr.Pos()))
					}
				}
			}
			c.Check(ok && n >= 2, rule, "authorize-error-writer", fn, "redirect-needs-valid-uri", "the error writer redirects (Location header or form post) only if the request's redirect URI re-validates against its client", why, w)
		}
	}
	fn2 := c.P.Func("(*" + pkgRoot + ".AuthorizeRequest).IsRedirectURIValid")
	if fn2 == nil {
		c.RoleUnmatched(rule, "request", "(*AuthorizeRequest).IsRedirectURIValid")
		return
	}
	ex := c.Explore(fn2, ExploreConfig{}, "matcher")
	if !c.complete(ex, rule, "request", fn2) {
		return
	}
	d := paramNamed(fn2, 0)
	ok, n := true, 0
	var w *Path
	for _, p := range ex.Paths {
		if p.Kind != "return" {
			continue
		}
		r := p.Rets[0]
		if r.Key() == tFalse.Key() {
			continue
		}
		n++
		m := call("fosite.MatchRedirectURIWithClientRedirectURIs", call(".String", call(".GetRedirectURI", d)), call(".GetClient", d))
		good := p.IsNil(ret(1, m)) && (r.Key() == call("fosite.IsValidRedirectURI", ret(0, m)).Key() || r.Key() == tTrue.Key() && p.True(call("fosite.IsValidRedirectURI", ret(0, m))))
		if !good {
			ok, w = false, p
		}
	}
	c.Check(ok && n > 0, rule, "request", fn2, "revalidates-own-uri", "IsRedirectURIValid is true only if the matcher accepts the request's own redirect URI for its own client and the result is valid", "true can be returned otherwise", w)
}

func strVal(t *Term) string {
	s, _ := t.StrConst()
	return s
}

// builtOnlyFrom: t is a concatenation of constants and allowed terms.
func builtOnlyFrom(t *Term, allowed func(*Term) bool) bool {
	if t.IsConst() || allowed(t) {
		return true
	}
	if t.Op == "bin" && t.Name == "+" {
		return builtOnlyFrom(t.Args[0], allowed) && builtOnlyFrom(t.Args[1], allowed)
	}
	return false
}

func c11R4(c *Ctx) {
	const rule = "C11.R4"
	for _, name := range []string{"WriteAuthorizeResponse", "WriteAuthorizeError"} {
		fn := c.P.Func("(*" + pkgRoot + ".Fosite)." + name)
		if fn == nil {
			c.RoleUnmatched(rule, "authorize-writer", "(*Fosite)."+name)
			continue
		}
		ex := c.Explore(fn, rootCfg(), "root")
		if !c.complete(ex, rule, "authorize-writer", fn) {
			continue
		}
		rw := paramByType(fn, "http.ResponseWriter")
		ar := paramByType(fn, "fosite.AuthorizeRequester")
		target := call(".String", call(".GetRedirectURI", ar))
		allowed := func(t *Term) bool { return t.Key() == target.Key() || t.IsCall(".Encode") }
		ok, n := true, 0
		var w *Path
		why := ""
		for _, p := range ex.Paths {
			for _, e := range p.Events {
				if e.Kind != "call" {
					continue
				}
				var v *Term
				if e.Name == ".Set" && e.Recv != nil && e.Recv.IsCall(".Header") && e.Recv.Args[0].Key() == rw.Key() && strings.EqualFold(strVal(e.Arg(0)), "Location") {
					v = e.Arg(1)
				} else if e.Name == "fosite.WriteAuthorizeFormPostResponse" {
					v = e.Arg(0)
				} else {
					continue
				}
				n++
				if !builtOnlyFrom(v, allowed) {
					ok, w = false, p
					why = fmt.Sprintf("the redirect target %s (%s) is not built from String(GetRedirectURI(request)), Encode() and constants", clip(v.Pretty(), 120), c.P.Pos(e.Instr.Pos()))
				}
			}
		}
		c.Check(ok && n > 0, rule, "authorize-writer", fn, "target-provenance", "the redirect target is built only from the request's redirect URI, encoded parameters and constants", why, w)
	}
	// who may write AuthorizeRequest.RedirectURI
	n := 0
	for _, fn := range c.P.AllFuncs {
		for _, b := range fn.Blocks {
			for _, ins := range b.Instrs {
				st, ok := ins.(*ssa.Store)
				if !ok {
					continue
				}
				fa, ok := st.Addr.(*ssa.FieldAddr)
				if !ok || fieldNameOf(fa.X.Type(), fa.Field) != "RedirectURI" || namedKey(fa.X.Type()) != pkgRoot+".AuthorizeRequest" {
					continue
				}
				n++
				src := describeRedirectSource(st.Val)
				top := fn
				for top.Parent() != nil {
					top = top.Parent()
				}
				c.Check(src != "", rule, "redirect-uri-writer", top, "who-may-set-redirect-uri:"+src, "AuthorizeRequest.RedirectURI is assigned only the matcher's result or the redirect URI of a stored pushed request", "assigned from another value at "+c.P.Pos(st.Pos()), nil)
			}
		}
	}
	if n == 0 {
		c.RoleUnmatched(rule, "redirect-uri-writer", "a store to AuthorizeRequest.RedirectURI")
	}
}

func describeRedirectSource(v ssa.Value) string {
	seen := map[ssa.Value]bool{}
	var rec func(v ssa.Value) string
	rec = func(v ssa.Value) string {
		if v == nil || seen[v] {
			return ""
		}
		seen[v] = true
		switch x := v.(type) {
		case *ssa.Extract:
			return rec(x.Tuple)
		case *ssa.Call:
			if sf := x.Common().StaticCallee(); sf != nil && sf.Name() == "MatchRedirectURIWithClientRedirectURIs" {
				return "matcher"
			}
			if x.Common().IsInvoke() && x.Common().Method.Name() == "GetRedirectURI" {
				return "stored-request"
			}
			return ""
		case *ssa.Phi:
			res := ""
			for _, e := range x.Edges {
				r := rec(e)
				if r == "" {
					return ""
				}
				res = r
			}
			return res
		case *ssa.UnOp:
			a, ok := x.X.(*ssa.Alloc)
			if !ok {
				return ""
			}
			res := ""
			n := 0
			for _, r := range *a.Referrers() {
				if st, ok := r.(*ssa.Store); ok && st.Addr == a {
					n++
					rr := rec(st.Val)
					if rr == "" {
						return ""
					}
					res = rr
				}
			}
			if n == 0 {
				return ""
			}
			return res
		}
		return ""
	}
	return rec(v)
}

func c11R5(c *Ctx) {
	const rule = "C11.R5"
	// code-flow authorize: CreateAuthorizeCodeSession / code parameter only after the checker accepted the redirect URI
	n := 0
	subjects := c.Calling(c.AuthorizeFns(), ".CreateAuthorizeCodeSession")
	// ... and the pushed-authorization handler: nothing is stored before the checker accepted the URI
	nPar := 0
	for _, fn := range c.Impls(pkgRoot, "PushedAuthorizeEndpointHandler", "HandlePushedAuthorizeEndpointRequest") {
		if c.P.RefsMethod(fn, 2, ".CreatePARSession") {
			subjects = append(subjects, fn)
			nPar++
		}
	}
	if nPar == 0 {
		c.RoleUnmatched(rule, "par-handler", "HandlePushedAuthorizeEndpointRequest implementation storing the pushed request")
	}
	for _, fn := range subjects {
		if fn.Name() != "HandlePushedAuthorizeEndpointRequest" && recvTypeName(fn) != pkgOAuth2+".AuthorizeExplicitGrantHandler" {
			continue
		}
		n++
		ex := c.Explore(fn, handlerCfg(), "handler")
		if !c.complete(ex, rule, "authz-code", fn) {
			continue
		}
		ar := reqParam(fn)
		ok, m := true, 0
		var w *Path
		for _, p := range ex.Paths {
			for _, e := range p.Calls(".CreateAuthorizeCodeSession", ".GenerateAuthorizeCode", ".CreatePARSession") {
				m++
				sec := false
				for _, f := range p.Facts[:min(e.NFacts, len(p.Facts))] {
					if f.Atom.Kind == "B" && f.Pol && (f.Atom.A.IsCall("apply") || f.Atom.A.IsCall("fosite.IsRedirectURISecure")) {
						a := f.Atom.A
						if a.Args[len(a.Args)-1].Key() == call(".GetRedirectURI", ar).Key() {
							sec = true
						}
					}
				}
				if !sec {
					ok, w = false, p
				}
			}
		}
		c.Check(ok && m > 0, rule, "authz-code", fn, "transport", "authorization codes / pushed requests are generated and stored only after the secure-transport checker accepted the redirect URI", "issuance or storage reachable without the checker", w)
	}
	if n == 0 {
		c.RoleUnmatched(rule, "authz-code", "code-flow authorize handler")
	}
	// IsRedirectURISecure shape
	fn := c.P.Func(pkgRoot + ".IsRedirectURISecure")
	if fn == nil {
		c.RoleUnmatched(rule, "secure-checker", "fosite.IsRedirectURISecure")
		return
	}
	ex := c.Explore(fn, ExploreConfig{}, "matcher")
	if !c.complete(ex, rule, "secure-checker", fn) {
		return
	}
	u := paramNamed(fn, 1)
	ok := true
	var w *Path
	nF := 0
	for _, p := range ex.Paths {
		if p.Kind != "return" {
			continue
		}
		r := p.Rets[0]
		isHTTP := p.Eq(field(u, "Scheme"), tStr("http"))
		notHTTP := p.Ne(field(u, "Scheme"), tStr("http"))
		loc := call("fosite.IsLocalhost", u)
		switch {
		case r.Key() == tFalse.Key():
			nF++
			if !(isHTTP && p.False(loc)) {
				ok, w = false, p
			}
		case r.Key() == tTrue.Key():
			if !(notHTTP || p.True(loc)) {
				ok, w = false, p
			}
		default:
			// returned expression: must be IsLocalhost(u) under scheme==http, or its negation's negation
			if !(isHTTP && (r.Key() == loc.Key())) {
				ok, w = false, p
			}
		}
	}
	c.Check(ok, rule, "secure-checker", fn, "http-only-on-localhost", "IsRedirectURISecure is false exactly for scheme http on a host that is not localhost/loopback", "another result is possible", w)
	_ = nF
	// ... and "localhost/loopback" means: the host name is exactly localhost, ends in .localhost, or is a
	// loopback IP literal — nothing looser (a prefix test would admit localhost.attacker.example)
	if lf := c.P.Func(pkgRoot + ".IsLocalhost"); lf != nil {
		lex := c.Explore(lf, ExploreConfig{}, "matcher")
		if c.complete(lex, rule, "localhost-predicate", lf) {
			hn := call(".Hostname", paramNamed(lf, 0))
			okL, nT := true, 0
			var wL *Path
			for _, p := range lex.Paths {
				if p.Kind != "return" || len(p.Rets) != 1 || p.Rets[0].Key() != tTrue.Key() {
					if p.Kind == "return" && len(p.Rets) == 1 && p.Rets[0].Key() != tFalse.Key() {
						okL, wL = false, p
					}
					continue
				}
				nT++
				if !(p.Eq(hn, tStr("localhost")) || p.True(call("strings.HasSuffix", hn, tStr(".localhost"))) || p.True(call(".IsLoopback", call("net.ParseIP", hn)))) {
					okL, wL = false, p
				}
			}
			c.Check(okL && nT > 0, rule, "localhost-predicate", lf, "localhost-exact", "IsLocalhost is true only for the host name localhost, a name ending in .localhost, or a loopback IP literal", "true is returned for another host", wL)
		}
	} else {
		c.RoleUnmatched(rule, "localhost-predicate", "fosite.IsLocalhost")
	}
}
