package main

import (
	"fmt"
	"go/types"
	"os"
	"sort"
	"strings"

	"golang.org/x/tools/go/ssa"
)

func init() {
	register(&propInfo{
		ID:          "C19",
		Run:         runC19,
		MinObl:      262,
		Explanation: "Decided (race-freedom and deadlock-freedom preconditions, not interleaving semantics): R1 lock discipline of storage.MemoryStore — on every path of every method (calls to other methods of the receiver traversed in place) each write to a guarded map happens with that map's mutex write-locked and each read with it read- or write-locked, for every map that some method writes; every map field is in the guard table; R2 every Lock/RLock is released on all exits, no method acquires a mutex it already holds, and the held→acquired relation over all methods is acyclic; R3 a method that writes several guarded maps holds all their write locks at each of those writes, and no mutex is released between a read of a map and a later write of the same map on one path (check-then-insert / read-modify-write sections); R4 no method of a provider-shared type (Fosite, Config, handler and strategy structs — found by the interfaces they implement) stores into a field or map of its receiver, and no function outside package init stores to a package-level variable, unless a mutex of that object is held; R5 objects owned by the store (results of storage lookups and what their getters return, unless passed through Clone/Sanitize) are not mutated and not installed into the request by handler code. NOT decided: linearizability of request-level operations, liveness, absence of panics, uniqueness of generated tokens, races inside collaborators (ristretto cache, go-jose).",
	})
}

var guardTable = map[string]string{
	"Clients":                "clientsMutex",
	"AuthorizeCodes":         "authorizeCodesMutex",
	"IDSessions":             "idSessionsMutex",
	"AccessTokens":           "accessTokensMutex",
	"RefreshTokens":          "refreshTokensMutex",
	"DeviceAuths":            "deviceAuthsMutex",
	"PKCES":                  "pkcesMutex",
	"Users":                  "usersMutex",
	"BlacklistedJTIs":        "blacklistedJTIsMutex",
	"AccessTokenRequestIDs":  "accessTokenRequestIDsMutex",
	"RefreshTokenRequestIDs": "refreshTokenRequestIDsMutex",
	"DeviceCodesRequestIDs":  "deviceAuthsRequestIDsMutex",
	"UserCodesRequestIDs":    "deviceAuthsRequestIDsMutex",
	"IssuerPublicKeys":       "issuerPublicKeysMutex",
	"PARSessions":            "parSessionsMutex",
}

func runC19(c *Ctx) {
	defer checkSessionCloneDeep(c, "C19.R6")
	c19Store(c)
	c19R4(c)
	c19R5(c)
}

type mapAccess struct {
	m     string
	write bool
	ev    *Event
	held  map[string]string
}

// storeMapOf: the term is field <X> of the store receiver; returns X.
func storeMapOf(t *Term) (string, bool) {
	if t != nil && t.Op == "field" && len(t.Args) == 1 && t.Args[0].Op == "param" && strings.HasPrefix(t.Args[0].Name, "0:") {
		return t.Name, true
	}
	return "", false
}

func mutexOf(recv *Term) (string, bool) {
	mu, _, ok := mutexModeOf(recv)
	return mu, ok
}

// mutexModeOf also sees through (*sync.RWMutex).RLocker(): Lock/Unlock on that
// Locker are RLock/RUnlock of the mutex (reader == true).
func mutexModeOf(recv *Term) (name string, reader, ok bool) {
	if recv != nil && recv.IsCall(".RLocker") && len(recv.Args) == 1 {
		recv, reader = recv.Args[0], true
	}
	if recv != nil && recv.Op == "addr" && len(recv.Args) == 1 && recv.Args[0].Op == "param" && strings.HasPrefix(recv.Args[0].Name, "0:") {
		return recv.Name, reader, true
	}
	return "", false, false
}

// lockOp normalises a lock call on a store mutex: the mutex and the operation
// as if it had been called on the RWMutex itself.
func lockOp(e *Event) (mu, op string, ok bool) {
	mu, reader, ok := mutexModeOf(e.Recv)
	if !ok {
		return "", "", false
	}
	op = e.Name
	if reader {
		switch op {
		case ".Lock":
			op = ".RLock"
		case ".Unlock":
			op = ".RUnlock"
		}
	}
	return mu, op, true
}

func c19Store(c *Ctx) {
	methods := c.P.MethodsOf(pkgStorage, "MemoryStore")
	if len(methods) < 30 {
		c.RoleUnmatched("C19.R1", "store-methods", fmt.Sprintf("at least 30 methods of storage.MemoryStore; found %d", len(methods)))
		return
	}
	// every map field must be guarded
	if st := c.P.ByPath[pkgStorage]; st != nil {
		if o := st.Types.Scope().Lookup("MemoryStore"); o != nil {
			s := o.Type().Underlying().(*types.Struct)
			for i := 0; i < s.NumFields(); i++ {
				f := s.Field(i)
				if _, isMap := f.Type().Underlying().(*types.Map); isMap {
					if _, ok := guardTable[f.Name()]; !ok {
						c.BadAt("C19.R1", "store", nil, "unguarded-map:"+f.Name(), "every map of the reference store has a mutex in the guard table", "map field "+f.Name()+" has no guard", c.P.Pos(f.Pos()), nil)
					}
				}
			}
		}
	}
	type methodData struct {
		fn    *ssa.Function
		ex    *Exploration
		paths [][]mapAccess
	}
	var all []methodData
	written := map[string]bool{}
	edges := map[string]map[string]string{} // held -> acquired -> witness
	for _, fn := range methods {
		if fn.Object() == nil || !fn.Object().Exported() {
			continue
		}
		ex := c.Explore(fn, storeCfg(), "store")
		if !c.complete(ex, "C19.R1", "store", fn) {
			continue
		}
		md := methodData{fn: fn, ex: ex}
		okPair, okReacq, okRMW := true, true, true
		whyPair, whyReacq, whyRMW := "", "", ""
		for _, p := range ex.Paths {
			held := map[string]string{}
			var acc []mapAccess
			lastRead := map[string]bool{} // map read under its current lock hold
			for _, e := range p.Events {
				switch e.Kind {
				case "call":
					mu, op, ok := lockOp(e)
					if !ok {
						continue
					}
					switch op {
					case ".Lock", ".RLock":
						if _, h := held[mu]; h {
							okReacq = false
							whyReacq = fmt.Sprintf("%s is acquired at %s while already held", mu, c.P.Pos(e.Instr.Pos()))
						}
						for h := range held {
							if edges[h] == nil {
								edges[h] = map[string]string{}
							}
							edges[h][mu] = fnShort(fn)
						}
						if op == ".Lock" {
							held[mu] = "W"
						} else {
							held[mu] = "R"
						}
					case ".Unlock", ".RUnlock":
						want := "W"
						if op == ".RUnlock" {
							want = "R"
						}
						if held[mu] != want {
							okPair = false
							whyPair = fmt.Sprintf("%s%s at %s does not match the lock state %q", mu, op, c.P.Pos(e.Instr.Pos()), held[mu])
						}
						delete(held, mu)
						// releasing the guard ends the read-modify-write window of its maps
						for m, g := range guardTable {
							if g == mu {
								delete(lastRead, m)
							}
						}
					}
				case "maplookup", "mapupdate", "mapdelete", "range":
					m, ok := storeMapOf(e.Args[0])
					if !ok {
						continue
					}
					w := e.Kind == "mapupdate" || e.Kind == "mapdelete"
					h := map[string]string{}
					for k, v := range held {
						h[k] = v
					}
					acc = append(acc, mapAccess{m, w, e, h})
					if w {
						written[m] = true
					} else {
						lastRead[m] = true
					}
				}
			}
			if len(held) > 0 && p.Kind == "return" {
				okPair = false
				var hs []string
				for h := range held {
					hs = append(hs, h)
				}
				sort.Strings(hs)
				whyPair = "exit at " + c.P.Pos(p.ExitPos) + " with " + strings.Join(hs, ",") + " still held"
			}
			// read-modify-write: a write to m whose decision read of m happened in an earlier hold
			readHold := map[string]int{}
			keyHold := map[string]int{} // map|key -> hold in which that key was last looked up
			hold := map[string]int{}
			for _, e := range p.Events {
				if e.Kind == "call" {
					if mu, op, ok := lockOp(e); ok && (op == ".Unlock" || op == ".RUnlock") {
						hold[mu]++
					}
					continue
				}
				m, ok := storeMapOf(firstArg(e))
				if !ok {
					continue
				}
				g := guardTable[m]
				switch e.Kind {
				case "maplookup", "range":
					readHold[m] = hold[g] + 1
					if e.Kind == "maplookup" && len(e.Args) > 1 {
						keyHold[m+"|"+e.Args[1].Key()] = hold[g] + 1
					}
				case "mapupdate", "mapdelete":
					if rh, had := readHold[m]; had && rh != hold[g]+1 {
						okRMW = false
						whyRMW = fmt.Sprintf("%s is read and later written (%s) with %s released in between", m, c.P.Pos(e.Instr.Pos()), g)
					}
					// check-then-insert: the presence test of this very key must be in the same hold as the write
					if len(e.Args) > 1 {
						if kh, had := keyHold[m+"|"+e.Args[1].Key()]; had && kh != hold[g]+1 {
							okRMW = false
							whyRMW = fmt.Sprintf("%s[%s] is tested and later written (%s) with %s released in between (check-then-act window)", m, clip(e.Args[1].Pretty(), 40), c.P.Pos(e.Instr.Pos()), g)
						}
					}
				}
			}
			md.paths = append(md.paths, acc)
		}
		c.Check(okPair, "C19.R2", "store", fn, "lock-pairing", "every Lock/RLock is released by the matching unlock on all exits", whyPair, nil)
		c.Check(okReacq, "C19.R2", "store", fn, "no-reacquire", "no mutex is acquired while it is already held by the same call (RWMutex is not re-entrant)", whyReacq, nil)
		c.Check(okRMW, "C19.R3", "store", fn, "read-modify-write-atomic", "no guard is released between a read of a map and a later write of the same map on one path", whyRMW, nil)
		all = append(all, md)
	}
	// R1 / R3 with the global written set
	for _, md := range all {
		ok1, ok3 := true, true
		why1, why3 := "", ""
		n := 0
		for _, acc := range md.paths {
			ws := map[string]bool{}
			for _, a := range acc {
				// only the method's own writes form its section; writes of composed methods
				// (RotateRefreshToken = Revoke + Revoke) are judged in their own method
				if a.write && a.ev.Depth == 0 {
					ws[a.m] = true
				}
			}
			for _, a := range acc {
				n++
				g, okg := guardTable[a.m]
				if !okg {
					continue
				}
				if a.write {
					if a.held[g] != "W" {
						ok1 = false
						why1 = fmt.Sprintf("%s is written at %s without %s write-locked (held: %v)", a.m, c.P.Pos(a.ev.Instr.Pos()), g, keysOf(a.held))
					}
					for m2 := range ws {
						if m2 == a.m || a.ev.Depth != 0 {
							continue
						}
						if g2 := guardTable[m2]; a.held[g2] != "W" {
							ok3 = false
							why3 = fmt.Sprintf("the method writes %s and %s but %s is not write-locked at the write of %s (%s)", a.m, m2, g2, a.m, c.P.Pos(a.ev.Instr.Pos()))
						}
					}
				} else if written[a.m] {
					if a.held[g] == "" {
						ok1 = false
						why1 = fmt.Sprintf("%s is read at %s without %s held (held: %v)", a.m, c.P.Pos(a.ev.Instr.Pos()), g, keysOf(a.held))
					}
				}
			}
		}
		if n == 0 {
			continue
		}
		c.Check(ok1, "C19.R1", "store", md.fn, "lock-discipline", "every write to a guarded map holds its mutex for writing; every read of a map that some method writes holds it for reading or writing", why1, nil)
		c.Check(ok3, "C19.R3", "store", md.fn, "multi-map-section", "a method that writes several guarded maps holds all their write locks at each of those writes", why3, nil)
	}
	// lock order acyclic
	cyc := findCycle(edges)
	c.Check(cyc == "", "C19.R2", "store", nil, "lock-order-acyclic", "the held→acquired relation over all store methods is acyclic", cyc, nil)
}

func firstArg(e *Event) *Term {
	if len(e.Args) > 0 {
		return e.Args[0]
	}
	return nil
}

func keysOf(m map[string]string) []string {
	var ks []string
	for k, v := range m {
		ks = append(ks, k+":"+v)
	}
	sort.Strings(ks)
	return ks
}

func findCycle(edges map[string]map[string]string) string {
	color := map[string]int{}
	var stack []string
	var res string
	var dfs func(n string) bool
	dfs = func(n string) bool {
		color[n] = 1
		stack = append(stack, n)
		var succ []string
		for m := range edges[n] {
			succ = append(succ, m)
		}
		sort.Strings(succ)
		for _, m := range succ {
			if color[m] == 1 {
				res = fmt.Sprintf("lock-order cycle: %s -> %s (in %s); stack %v", n, m, edges[n][m], stack)
				return true
			}
			if color[m] == 0 && dfs(m) {
				return true
			}
		}
		color[n] = 2
		stack = stack[:len(stack)-1]
		return false
	}
	var ns []string
	for n := range edges {
		ns = append(ns, n)
	}
	sort.Strings(ns)
	for _, n := range ns {
		if color[n] == 0 && dfs(n) {
			return res
		}
	}
	return ""
}

// ----------------------------------------------------------------- R4

// sharedTypes: named struct types that are provider-shared, found by the
// interfaces they implement plus Fosite/Config/MemoryStore.
func (c *Ctx) sharedTypes() map[string]bool {
	shared := map[string]bool{
		pkgRoot + ".Fosite": true, pkgRoot + ".Config": true, pkgStorage + ".MemoryStore": true,
	}
	var ifaces []*types.Interface
	for _, sp := range c.P.Subjects {
		for _, m := range sp.Members {
			tn, ok := m.(*ssa.Type)
			if !ok {
				continue
			}
			it, ok := tn.Type().Underlying().(*types.Interface)
			if !ok || it.NumMethods() == 0 {
				continue
			}
			n := tn.Name()
			if strings.HasSuffix(n, "Handler") || strings.HasSuffix(n, "Strategy") || strings.HasSuffix(n, "Signer") || strings.HasSuffix(n, "Hasher") ||
				n == "TokenIntrospector" || strings.HasSuffix(n, "Validator") || strings.HasSuffix(n, "Provider") || n == "Configurator" {
				ifaces = append(ifaces, it)
			}
		}
	}
	for _, sp := range c.P.Subjects {
		for _, m := range sp.Members {
			tn, ok := m.(*ssa.Type)
			if !ok {
				continue
			}
			T := tn.Type()
			if _, isStruct := T.Underlying().(*types.Struct); !isStruct {
				continue
			}
			for _, it := range ifaces {
				if types.Implements(types.NewPointer(T), it) || types.Implements(T, it) {
					shared[sp.Pkg.Path()+"."+tn.Name()] = true
					break
				}
			}
		}
	}
	// request-scoped data types are never provider-shared even if they happen to satisfy a small interface
	for k := range shared {
		n := k[strings.LastIndex(k, ".")+1:]
		if strings.Contains(n, "Request") || strings.Contains(n, "Response") || strings.Contains(n, "Session") || strings.Contains(n, "Claims") || n == "Token" || n == "Headers" || strings.HasPrefix(n, "Default") && strings.Contains(n, "Client") {
			delete(shared, k)
		}
	}
	return shared
}

func c19R4(c *Ctx) {
	const rule = "C19.R4"
	shared := c.sharedTypes()
	if len(shared) < 15 {
		c.RoleUnmatched(rule, "shared-types", fmt.Sprintf("at least 15 provider-shared types; found %d", len(shared)))
	}
	nFn := 0
	for _, fn := range c.P.AllFuncs {
		if fn.Parent() != nil || len(fn.Blocks) == 0 {
			continue
		}
		isInit := fn.Name() == "init" || strings.HasPrefix(fn.Name(), "init#")
		rt := recvTypeName(fn)
		isShared := shared[rt]
		if rt == pkgStorage+".MemoryStore" {
			isShared = false // judged by R1 (maps) — it has no other mutable fields
		}
		// registered clients are handed out by the store as one object for all requests: their
		// getters are read-only. The package-level error values are shared by every request: the
		// With* builders work on a copy.
		short := rt[strings.LastIndex(rt, ".")+1:]
		if strings.HasPrefix(short, "Default") && strings.Contains(short, "Client") && (strings.HasPrefix(fn.Name(), "Get") || strings.HasPrefix(fn.Name(), "Is")) {
			isShared = true
		}
		// (WithTrace is the one builder that records into its receiver by design — through Wrap in the
		// unchanged tree — and the library never calls it; it is not an instance of this rule.)
		if rt == pkgRoot+".RFC6749Error" && strings.HasPrefix(fn.Name(), "With") && fn.Name() != "WithTrace" {
			isShared = true
		}
		// writes in the method body need the exclusive lock (Lock, not RLock); writes inside a closure
		// are also covered by sync.Once.Do (one-time initialisation)
		var badBody, badClosure []string
		lockW, once := false, false
		var walk func(f *ssa.Function, inClosure bool)
		recvFree := map[ssa.Value]bool{}
		seen := map[*ssa.Function]bool{}
		walk = func(f *ssa.Function, inClosure bool) {
			if seen[f] {
				return
			}
			seen[f] = true
			add := func(s string) {
				if inClosure {
					badClosure = append(badClosure, s)
				} else {
					badBody = append(badBody, s)
				}
			}
			for _, b := range f.Blocks {
				for _, ins := range b.Instrs {
					switch ins := ins.(type) {
					case *ssa.Call:
						if sf := ins.Common().StaticCallee(); sf != nil && sf.Pkg != nil && sf.Pkg.Pkg.Path() == "sync" {
							switch sf.Name() {
							case "Lock":
								lockW = true
							case "Do":
								once = true
							}
						}
					case *ssa.MakeClosure:
						// free variables of the closure that are bound to the method's receiver
						cf := ins.Fn.(*ssa.Function)
						for i, bnd := range ins.Bindings {
							if i < len(cf.FreeVars) && (len(fn.Params) > 0 && bnd == ssa.Value(fn.Params[0]) || recvFree[bnd]) {
								recvFree[cf.FreeVars[i]] = true
							}
						}
						walk(cf, true)
					case *ssa.Store:
						if g, ok := rootGlobal(ins.Addr); ok && !isInit {
							add(fmt.Sprintf("store to package-level variable %s at %s", globalName(g), c.P.Pos(ins.Pos())))
						}
						if isShared && (rootedAtReceiver(ins.Addr, fn) || inClosure && rootedAtFreeVar(ins.Addr, recvFree)) {
							add(fmt.Sprintf("store to %s at %s", describeAddr(ins.Addr), c.P.Pos(ins.Pos())))
						}
					case *ssa.MapUpdate:
						if isShared && (rootedAtReceiver(ins.Map, fn) || inClosure && rootedAtFreeVar(ins.Map, recvFree)) {
							add(fmt.Sprintf("map update through the receiver at %s", c.P.Pos(ins.Pos())))
						}
					}
					// delete(m, k) on a receiver map is a write as well
					if call, ok := ins.(*ssa.Call); ok {
						if bi, ok := call.Common().Value.(*ssa.Builtin); ok && bi.Name() == "delete" && len(call.Common().Args) == 2 {
							if isShared && (rootedAtReceiver(call.Common().Args[0], fn) || inClosure && rootedAtFreeVar(call.Common().Args[0], recvFree)) {
								add(fmt.Sprintf("map delete through the receiver at %s", c.P.Pos(ins.Pos())))
							}
						}
					}
				}
			}
		}
		walk(fn, false)
		if os.Getenv("FL_DEBUG") != "" && strings.Contains(fn.String(), os.Getenv("FL_DEBUG")) {
			fmt.Fprintln(os.Stderr, "DBG", fn.String(), rt, isShared, lockW, once, badBody, badClosure)
		}
		var bad []string
		locks := true
		if len(badBody) > 0 && !lockW {
			bad, locks = append(bad, badBody...), false
		}
		if len(badClosure) > 0 && !lockW && !once {
			bad, locks = append(bad, badClosure...), false
		}
		if len(bad) == 0 {
			bad = append(append(bad, badBody...), badClosure...)
		}
		if !isShared && len(bad) == 0 {
			continue
		}
		nFn++
		if len(bad) > 0 && !locks {
			c.Bad(rule, "shared-object", fn, "no-unsynchronised-write", "methods of provider-shared objects do not store into their receiver (or into package-level variables) without holding a lock", strings.Join(bad, "; "), nil)
		} else {
			c.OK(rule, "shared-object", fn, "no-unsynchronised-write", "methods of provider-shared objects do not store into their receiver (or into package-level variables) without holding a lock")
		}
	}
	if nFn < 100 {
		c.RoleUnmatched(rule, "shared-methods", fmt.Sprintf("at least 100 methods of provider-shared types; found %d", nFn))
	}
}

func rootGlobal(v ssa.Value) (*ssa.Global, bool) {
	for i := 0; i < 16; i++ {
		switch x := v.(type) {
		case *ssa.Global:
			if x.Pkg != nil && isSubjectPkg(x.Pkg.Pkg.Path()) {
				return x, true
			}
			return nil, false
		case *ssa.FieldAddr:
			v = x.X
		case *ssa.IndexAddr:
			v = x.X
		default:
			return nil, false
		}
	}
	return nil, false
}

// rootedAtReceiver: the address/value derives from the receiver parameter through
// field addresses, field loads and pointer loads.
func rootedAtReceiver(v ssa.Value, fn *ssa.Function) bool {
	if len(fn.Params) == 0 || fn.Signature.Recv() == nil {
		return false
	}
	recv := fn.Params[0]
	loaded := false // the chain went through a load (so a cell reached afterwards was read, not written)
	for i := 0; i < 16; i++ {
		switch x := v.(type) {
		case *ssa.Parameter:
			return x == recv
		case *ssa.FieldAddr:
			v = x.X
		case *ssa.IndexAddr:
			v = x.X
		case *ssa.Field:
			v = x.X
		case *ssa.UnOp:
			v = x.X
			loaded = true
		case *ssa.Alloc:
			if !loaded {
				return false // the cell itself is the target (the spill of a parameter)
			}
			// a pointer receiver captured by a closure is spilled into a cell: the cell holds the receiver
			if refs := x.Referrers(); refs != nil {
				for _, r := range *refs {
					if st, ok := r.(*ssa.Store); ok && st.Addr == ssa.Value(x) && st.Val == ssa.Value(recv) {
						if _, isPtr := recv.Type().Underlying().(*types.Pointer); isPtr {
							return true
						}
					}
				}
			}
			// value receivers are spilled: local copy, not shared
			return false
		default:
			return false
		}
	}
	return false
}

func describeAddr(v ssa.Value) string {
	if fa, ok := v.(*ssa.FieldAddr); ok {
		return "receiver field " + fieldName(fa.X.Type(), fa.Field)
	}
	return "receiver memory"
}

// ----------------------------------------------------------------- R5

func storeOwned(t *Term) bool {
	for i := 0; i < 12 && t != nil; i++ {
		switch t.Op {
		case "ret":
			if t.Name == "0" && len(t.Args) == 1 && t.Args[0].Op == "icall" {
				n := t.Args[0].CallName()
				return storageLookups[n] && n != ".GetClient" && n != ".Authenticate" && n != ".GetPublicKey" && n != ".GetPublicKeys" && n != ".GetPublicKeyScopes"
			}
			return false
		case "call":
			if t.Name == ".Clone" || t.Name == ".Sanitize" {
				return false
			}
			if strings.HasPrefix(t.Name, ".Get") || t.Name == ".IDTokenClaims" || t.Name == ".IDTokenHeaders" {
				if len(t.Args) == 0 {
					return false
				}
				t = t.Args[0]
				continue
			}
			return false
		case "addr", "field", "deref":
			if len(t.Args) == 0 {
				return false
			}
			t = t.Args[0]
		default:
			return false
		}
	}
	return false
}

func isMutatorName(n string) bool {
	for _, p := range []string{".Set", ".Grant", ".Append", ".Add", ".Merge", ".Del", ".Remove"} {
		if strings.HasPrefix(n, p) {
			return true
		}
	}
	return false
}

func c19R5(c *Ctx) {
	const rule = "C19.R5"
	n := 0
	for _, en := range c.allEntries() {
		if en.role == "endpoint" {
			continue
		}
		if !c.P.CallsNamedAny(en.fn, 4, storageLookups) {
			continue
		}
		cfg := en.cfg
		base := cfg.Inline
		if base == nil {
			base = defaultInline
		}
		cfg.Inline = c.storageReaching(base)
		ex := c.Explore(en.fn, cfg, en.tag+"-storage")
		if !c.complete(ex, rule, en.role, en.fn) {
			continue
		}
		n++
		bad := map[string]string{}
		var wit = map[string]*Path{}
		for _, p := range ex.Paths {
			for _, e := range p.Events {
				switch e.Kind {
				case "call":
					if e.Recv != nil && isMutatorName(e.Name) && storeOwned(e.Recv) {
						k := "mutates-store-owned:" + e.Name
						bad[k] = fmt.Sprintf("%s is applied to %s (%s), an object owned by the store", e.Name, clip(e.Recv.Pretty(), 120), c.P.Pos(e.Instr.Pos()))
						wit[k] = p
					}
					if e.Name == ".SetSession" && len(e.Args) == 1 && storeOwned(e.Args[0]) {
						k := "installs-store-owned-session"
						bad[k] = fmt.Sprintf("the store-owned session %s is installed into the request without Clone() (%s)", clip(e.Args[0].Pretty(), 120), c.P.Pos(e.Instr.Pos()))
						wit[k] = p
					}
				case "store":
					if storeOwned(e.Args[0]) {
						k := "writes-store-owned-field:" + e.Name
						bad[k] = fmt.Sprintf("field %s of the store-owned %s is written (%s)", e.Name, clip(addrRoot(e.Args[0]).Pretty(), 120), c.P.Pos(e.Instr.Pos()))
						wit[k] = p
					}
				}
			}
		}
		if len(bad) == 0 {
			c.OK(rule, en.role, en.fn, "store-owned-not-mutated", "objects returned by storage lookups (and what their getters return) are not mutated nor installed into the request without Clone()")
		}
		for k, why := range bad {
			c.Bad(rule, en.role, en.fn, k, "objects returned by storage lookups (and what their getters return) are not mutated nor installed into the request without Clone()", why, wit[k])
		}
	}
	if n < 8 {
		c.RoleUnmatched(rule, "lookup-users", fmt.Sprintf("at least 8 handler functions using storage lookups; found %d", n))
	}
}

// rootedAtFreeVar: the address is reached from a captured variable of a closure
// that is bound to the method's receiver.
func rootedAtFreeVar(v ssa.Value, recvFree map[ssa.Value]bool) bool {
	for i := 0; i < 16; i++ {
		switch x := v.(type) {
		case *ssa.FreeVar:
			return recvFree[x]
		case *ssa.FieldAddr:
			v = x.X
		case *ssa.IndexAddr:
			v = x.X
		case *ssa.Field:
			v = x.X
		case *ssa.UnOp:
			v = x.X
		default:
			return false
		}
	}
	return false
}
