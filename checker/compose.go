package main

import (
	"go/types"

	"golang.org/x/tools/go/ssa"
)

// composeOrder returns, for compose.ComposeAllEnabled, the list of handler
// types produced by the factories in the order they are passed to Compose.
// A factory "produces" the named struct type it allocates and returns.
func (c *Ctx) composeOrder() ([]string, *ssa.Function) {
	fn := c.P.Func(pkgCompose + ".ComposeAllEnabled")
	if fn == nil {
		return nil, nil
	}
	type slot struct {
		idx int64
		fn  *ssa.Function
	}
	var slots []slot
	// the list may be a literal in ComposeAllEnabled or come from a parameterless helper of the package
	// whose result is passed on to Compose (allFactories()...)
	src := fn
	for _, b := range fn.Blocks {
		for _, ins := range b.Instrs {
			call, ok := ins.(*ssa.Call)
			if !ok {
				continue
			}
			g := call.Call.StaticCallee()
			if g == nil || g.Pkg != fn.Pkg || len(g.Params) != 0 || len(g.Blocks) == 0 || g.Signature.Results().Len() != 1 {
				continue
			}
			if sl, ok := g.Signature.Results().At(0).Type().Underlying().(*types.Slice); ok {
				if _, ok := sl.Elem().Underlying().(*types.Signature); ok {
					src = g
				}
			}
		}
	}
	for _, b := range src.Blocks {
		for _, ins := range b.Instrs {
			st, ok := ins.(*ssa.Store)
			if !ok {
				continue
			}
			ia, ok := st.Addr.(*ssa.IndexAddr)
			if !ok {
				continue
			}
			k, ok := ia.Index.(*ssa.Const)
			if !ok {
				continue
			}
			v := st.Val
			if ct, ok := v.(*ssa.ChangeType); ok {
				v = ct.X
			}
			f, ok := v.(*ssa.Function)
			if !ok {
				continue
			}
			slots = append(slots, slot{k.Int64(), f})
		}
	}
	out := make([]string, len(slots))
	for _, s := range slots {
		if int(s.idx) < len(out) {
			out[s.idx] = factoryProduct(s.fn)
		}
	}
	return out, fn
}

func factoryProduct(fn *ssa.Function) string {
	for _, b := range fn.Blocks {
		for _, ins := range b.Instrs {
			r, ok := ins.(*ssa.Return)
			if !ok || len(r.Results) != 1 {
				continue
			}
			v := r.Results[0]
			if mi, ok := v.(*ssa.MakeInterface); ok {
				v = mi.X
			}
			if p, ok := v.Type().(*types.Pointer); ok {
				if n, ok := p.Elem().(*types.Named); ok && n.Obj().Pkg() != nil {
					return n.Obj().Pkg().Path() + "." + n.Obj().Name()
				}
			}
		}
	}
	return ""
}

func indexOf(xs []string, x string) int {
	for i, v := range xs {
		if v == x {
			return i
		}
	}
	return -1
}

// checkComposeOrder: in ComposeAllEnabled the handler of type `first` is registered before `second`.
func (c *Ctx) checkComposeOrder(rule, first, second, why string) {
	order, fn := c.composeOrder()
	if fn == nil || len(order) < 10 {
		c.RoleUnmatched(rule, "compose", "compose.ComposeAllEnabled with its factory list")
		return
	}
	i, j := indexOf(order, first), indexOf(order, second)
	detail := "order:" + short(first) + "<" + short(second)
	if i < 0 || j < 0 {
		c.Bad(rule, "compose", fn, detail, "both handlers are registered by ComposeAllEnabled", "factory for "+short(first)+" or "+short(second)+" not found in the factory list", nil)
		return
	}
	c.Check(i < j, rule, "compose", fn, detail, short(first)+" is registered before "+short(second)+" ("+why+")", "the factory order is reversed", nil)
}
