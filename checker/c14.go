package main

import (
	"fmt"
	"go/constant"
	"strings"

	"golang.org/x/tools/go/ssa"
)

func init() {
	register(&propInfo{
		ID:          "C14",
		Run:         runC14,
		MinObl:      25,
		Explanation: "Decided: R1 issuance gates — every ID-token sink in the OIDC handlers (explicit, refresh, device, implicit, hybrid) is reached only with Has(granted scopes, openid) true for the grant being served, and GenerateIDToken succeeds only with a non-empty subject; R2 claim provenance in GenerateIDToken: nonce ← the request's nonce (only if at least the minimum length), aud ∋ the requesting client's id, issuer defaulted from the provider when empty, a zero expiry becomes now+lifespan and an expiry before now fails, and unsatisfied max_age / prompt=none|login / id_token_hint subject mismatch are fail exits; R3 hashes: at_hash is computed from responder.GetAccessToken() / the access_token parameter of the same response and c_hash from its code parameter; the hash helper returns base64url of the left half of SHA-256/384/512 chosen by the digits of the header alg; on refresh c_hash is cleared and at_hash recomputed; R4 in ComposeAllEnabled each OAuth2 handler precedes its OIDC companion (explicit, refresh, device). R5 the authorize-endpoint validator (ValidatePrompt) succeeds only with a non-empty subject, and — whenever the prompt list is not known to lack the value — with auth_time not before the request time for login, auth_time present and not after it for none, auth_time + max_age not before it for max_age > 0, and the hint's sub equal to the session subject for an id_token_hint (the strategy's own switch only matches single-valued prompts, so this is the only guard for \"login consent\"). NOT decided: signature validity of the emitted JWT, time arithmetic, what the application put into the session claims.",
	})
}

func runC14(c *Ctx) {
	defer checkRegisteredClaimsWin(c, "C14.R12", "(*"+pkgJWT+".IDTokenClaims).ToMap", "aud", "sub", "iss", "nonce", "at_hash", "c_hash", "exp", "auth_time")
	defer checkParseSignatureFirst(c, "C14.R10")
	defer checkConfigGetters(c, "C14.R8", "GetIDTokenLifespan", "GetIDTokenIssuer", "GetMinParameterEntropy", "GetAllowedPrompts")
	defer checkStringInSlice(c, "C14.R9")
	defer checkStoreKeyed(c, "C14.R7", storeRow{meth: "CreateOpenIDConnectSession", table: "IDSessions", op: "create", key: 2}, storeRow{meth: "GetOpenIDConnectSession", table: "IDSessions", op: "get", key: 2}, storeRow{meth: "DeleteOpenIDConnectSession", table: "IDSessions", op: "delete", key: 2})
	c14R1(c)
	c14Generate(c)
	c14Hashes(c)
	c14Order(c)
	c14Prompt(c)
	c14IssueFromStored(c)
	c14StoredFormKeys(c)
	c14RefreshResets(c)
}

func c14R1(c *Ctx) {
	const rule = "C14.R1"
	sinks := []string{".IssueExplicitIDToken", ".IssueImplicitIDToken", ".GenerateIDToken"}
	n := 0
	for _, en := range c.allEntries() {
		if en.role != "issue" && en.role != "authorize" || fnPkgPath(en.fn) != pkgOpenID {
			continue
		}
		if !c.P.RefsMethod(en.fn, 2, sinks...) {
			continue
		}
		n++
		ex := c.Explore(en.fn, ExploreConfig{Inline: oidcInline(c)}, "oidc")
		if !c.complete(ex, rule, en.role, en.fn) {
			continue
		}
		req := reqParam(en.fn)
		ok, m := true, 0
		var w *Path
		for _, p := range ex.Paths {
			for _, e := range p.Calls(sinks...) {
				m++
				good := false
				for _, f := range p.Facts[:min(e.NFacts, len(p.Facts))] {
					a := f.Atom.A
					if f.Atom.Kind == "B" && f.Pol && a.IsCall(".Has") && len(a.Args) == 2 && litHas(a.Args[1], "openid") && len(a.Args[1].Args) == 1 && a.Args[0].IsCall(".GetGrantedScopes") {
						x := a.Args[0].Args[0]
						if x.Key() == req.Key() || storeOwned(x) {
							good = true
						}
					}
				}
				if !good {
					ok, w = false, p
				}
			}
		}
		c.Check(ok && m > 0, rule, en.role, en.fn, "openid-scope-gate", "an ID token is issued only if the grant being served includes the openid scope", "an ID-token sink is reachable without Has(GetGrantedScopes(·), \"openid\")", w)
	}
	if n < 5 {
		c.RoleUnmatched(rule, "oidc-handlers", fmt.Sprintf("five OIDC handlers issuing ID tokens (explicit, refresh, device, implicit, hybrid); found %d", n))
	}
}

func c14Generate(c *Ctx) {
	const role = "id-token-strategy"
	fns := c.Impls(pkgOpenID, "OpenIDConnectTokenStrategy", "GenerateIDToken")
	if len(fns) == 0 {
		c.RoleUnmatched("C14.R2", role, "implementation of OpenIDConnectTokenStrategy.GenerateIDToken")
		return
	}
	for _, fn := range fns {
		ex := c.Explore(fn, ExploreConfig{}, "idtoken")
		if !c.complete(ex, "C14.R2", role, fn) {
			continue
		}
		req := paramNamed(fn, 3)
		type chk struct {
			ok  bool
			w   *Path
			why string
		}
		names := []string{"subject", "nonce", "audience", "issuer", "expiry", "max-age", "prompt", "id-token-hint"}
		cs := map[string]*chk{}
		for _, n := range names {
			cs[n] = &chk{ok: true}
		}
		fail := func(k string, p *Path, why string) { cs[k].ok, cs[k].w, cs[k].why = false, p, why }
		nS := 0
		nonce := form(req, "nonce")
		for _, p := range ex.Paths {
			gen := p.First(".Generate")
			if !(p.Kind == "return" && gen != nil && p.Success()) {
				continue
			}
			nS++
			// the claims object
			var claims *Term
			for _, f := range p.Facts {
				for _, t := range []*Term{f.Atom.A, f.Atom.B} {
					if t != nil && t.Op == "field" && t.Name == "Subject" {
						claims = t.Args[0]
					}
				}
			}
			if claims == nil || !p.Ne(field(claims, "Subject"), tStr("")) {
				fail("subject", p, "an ID token is generated without the subject known non-empty")
				continue
			}
			stores := map[string]*Term{}
			for _, e := range p.Events {
				if e.Kind == "store" && addrRoot(e.Args[0]).Key() == addrRoot(claims).Key() {
					stores[e.Name] = e.Args[1]
				}
			}
			// nonce
			if v, set := stores["Nonce"]; set {
				ge := false
				for _, f := range p.Facts {
					if f.Atom.Kind == "LT" && !f.Pol && f.Atom.A.Key() == call("len", nonce).Key() && f.Atom.B.IsCall(".GetMinParameterEntropy") {
						ge = true
					}
				}
				if v.Key() != nonce.Key() || !ge {
					fail("nonce", p, "the nonce claim is set from "+clip(v.Pretty(), 60)+" or without the minimum-length test")
				}
			} else if !p.EmptyStr(nonce) {
				fail("nonce", p, "a non-empty request nonce is not echoed into the token")
			}
			// audience
			if v, set := stores["Audience"]; !set || !v.Contains(getID(getClient(req)).Key()) {
				fail("audience", p, "the audience claim does not include the requesting client's id")
			}
			// issuer
			if v, set := stores["Issuer"]; set {
				if !v.IsCall(".GetIDTokenIssuer") || !p.EmptyStr(field(claims, "Issuer")) {
					fail("issuer", p, "the issuer is overwritten although set, or defaulted from something else than the provider")
				}
			} else if !p.NonEmptyStr(field(claims, "Issuer")) {
				fail("issuer", p, "an empty issuer is not defaulted")
			}
			// expiry
			expF := field(claims, "ExpiresAt")
			z, zk := p.BoolCall(".IsZero", func(t *Term) bool { return t.Args[0].Key() == expF.Key() })
			var expV *Term = expF
			if v, set := stores["ExpiresAt"]; set {
				expV = v
				if !(zk && z) || !(v.IsCall(".Add") && mentionsNow(v.Args[0]) && v.Args[1].Op == "param" || v.IsCall(".Add") && mentionsNow(v.Args[0])) {
					fail("expiry", p, "the expiry is overwritten although pre-set, or not computed as now + lifespan")
				}
			} else if !(zk && !z) {
				fail("expiry", p, "a zero expiry is not replaced by now + lifespan")
			}
			if k, e := notBeforeNow(p, expV); !k || e {
				fail("expiry", p, "a token is generated without the expiry known not to be before now")
			}
			// id_token_hint
			hint := form(req, "id_token_hint")
			if p.NonEmptyStr(hint) {
				okH := false
				for _, f := range p.Facts {
					if f.Atom.Kind == "EQ" && f.Pol && (f.Atom.A.Key() == field(claims, "Subject").Key() || f.Atom.B.Key() == field(claims, "Subject").Key()) {
						o := f.Atom.A
						if o.Key() == field(claims, "Subject").Key() {
							o = f.Atom.B
						}
						if o.Mentions(func(s *Term) bool {
							return s.Op == "lookup" && len(s.Args) == 2 && s.Args[1].Key() == tStr("sub").Key()
						}) {
							okH = true
						}
					}
				}
				if !okH {
					fail("id-token-hint", p, "an id_token_hint is accepted without its sub being equal to the session's subject")
				}
			}
			// prompt
			prompt := form(req, "prompt")
			at, ra := field(claims, "AuthTime"), field(claims, "RequestedAt")
			eq := p.True(call(".Equal", at, ra))
			if p.Eq(prompt, tStr("none")) && !eq && !p.False(call(".After", at, ra)) {
				fail("prompt", p, "prompt=none accepted although auth_time may be after the request time")
			}
			if p.Eq(prompt, tStr("login")) && !eq && !p.False(call(".Before", at, ra)) {
				fail("prompt", p, "prompt=login accepted although auth_time may be before the request time")
			}
			// max_age
			for _, f := range p.Facts {
				if f.Atom.Kind == "LT" && f.Atom.B.Key() == tInt(1).Key() && !f.Pol && f.Atom.A.Mentions(func(s *Term) bool { return s.IsCall("strconv.ParseInt") }) {
					// maxAge > 0 on this path
					bad := true
					for _, g := range p.Facts {
						if g.Atom.Kind == "B" && !g.Pol && g.Atom.A.IsCall(".Before") && g.Atom.A.Args[1].Key() == ra.Key() && g.Atom.A.Args[0].IsCall(".Add") && g.Atom.A.Args[0].Args[0].Key() == at.Key() {
							bad = false
						}
					}
					if bad || !p.False(call(".IsZero", at)) {
						fail("max-age", p, "max_age > 0 accepted without auth_time + max_age not being before the request time")
					}
				}
			}
		}
		if nS == 0 {
			c.Bad("C14.R2", role, fn, "success-path", "GenerateIDToken has a success path", "none", nil)
			continue
		}
		desc := map[string]string{
			"subject":       "an ID token is generated only with a non-empty subject",
			"nonce":         "the nonce claim is exactly the request's nonce, only if it has the minimum length; a non-empty nonce is always echoed",
			"audience":      "the audience claim includes the requesting client's id",
			"issuer":        "an empty issuer is defaulted from the provider and a set one is kept",
			"expiry":        "a zero expiry becomes now + lifespan, a pre-set one is kept, and an expiry before now fails",
			"max-age":       "max_age > 0 requires auth_time and auth_time + max_age not before the request time",
			"prompt":        "prompt=none / prompt=login are honoured only if auth_time is on the right side of the request time",
			"id-token-hint": "an id_token_hint is accepted only if its subject equals the session's subject",
		}
		for _, n := range names {
			rid := "C14.R2"
			if n == "subject" {
				rid = "C14.R1"
			}
			c.Check(cs[n].ok, rid, role, fn, n, desc[n], cs[n].why, cs[n].w)
		}
	}
}

func c14Hashes(c *Ctx) {
	const rule = "C14.R3"
	// the hash helper
	var compute *ssa.Function
	for _, fn := range c.P.MethodsOf(pkgOpenID, "IDTokenHandleHelper") {
		if fn.Name() == "ComputeHash" {
			compute = fn
		}
	}
	if compute == nil {
		c.RoleUnmatched(rule, "hash-helper", "(*openid.IDTokenHandleHelper).ComputeHash")
	} else {
		ex := c.Explore(compute, ExploreConfig{}, "hash")
		if c.complete(ex, rule, "hash-helper", compute) {
			token := paramNamed(compute, 3)
			ok, n := true, 0
			var w *Path
			why := ""
			algs := map[string]bool{}
			for _, p := range ex.Paths {
				if p.Kind != "return" || len(p.Rets) != 2 || !(p.Rets[1].Op == "nil" || p.IsNil(p.Rets[1])) {
					continue
				}
				n++
				r := p.Rets[0]
				if !(r.IsCall(".EncodeToString") && r.Args[0].Key() == "global:encoding/base64.RawURLEncoding" && r.Args[1].Op == "slice") {
					ok, w, why = false, p, "the result is "+clip(r.Pretty(), 80)+", not base64url of a slice"
					continue
				}
				sl := r.Args[1]
				buf := sl.Args[0]
				hi := sl.Args[2]
				// half the length of the digest: buffer.Len()/2 or len(digest)/2
				half := hi.Op == "bin" && hi.Name == "/" && hi.Args[1].Key() == tInt(2).Key() && (hi.Args[0].IsCall(".Len") || hi.Args[0].IsCall("len") && hi.Args[0].Args[0].Key() == buf.Key()) &&
					hi.Args[0].Mentions(func(s *Term) bool { return s.IsCall(".Sum") })
				lowOK := sl.Args[1].Key() == "_" || sl.Args[1].Key() == "0"
				if !half || !lowOK {
					ok, w, why = false, p, "the digest is not cut to its left half: "+clip(sl.Pretty(), 100)
				}
				var H *Term
				buf.Walk(func(s *Term) bool {
					if s.IsCall(".Sum") && len(s.Args) > 0 {
						H = s.Args[0]
					}
					return true
				})
				if H == nil {
					ok, w, why = false, p, "the encoded bytes are not a digest"
					continue
				}
				wrote := false
				for _, e := range p.Calls(".Write") {
					if e.Recv != nil && e.Recv.Key() == H.Key() && e.Arg(0).Contains(token.Key()) {
						wrote = true
					}
				}
				if !wrote {
					ok, w, why = false, p, "the digest is not computed over the token"
				}
				// algorithm selection
				size := int64(256)
				for _, f := range p.Facts {
					if f.Atom.Kind == "EQ" && f.Pol && f.Atom.B.Mentions(func(s *Term) bool { return s.IsCall("strconv.Atoi") }) {
						if v, isC := f.Atom.A.IntConst(); isC {
							size = v
						}
					}
				}
				wantH := map[int64]string{256: "sha256.New", 384: "sha512.New384", 512: "sha512.New"}[size]
				if wantH == "" {
					wantH = "sha256.New"
				}
				// dispatch-table form: the constructor is looked up in a package-level table keyed by
				// the size parsed from the alg header; sizes missing from the table take the fallback
				if H.IsCall("apply") && len(H.Args) == 1 && H.Args[0].Op == "lookup" && len(H.Args[0].Args) == 2 && H.Args[0].Args[0].Op == "global" &&
					H.Args[0].Args[1].Mentions(func(s *Term) bool { return s.IsCall("strconv.Atoi") }) {
					tbl, okT := c.P.GlobalFuncMap(H.Args[0].Args[0].Name)
					want := map[int64]string{256: "sha256.New", 384: "sha512.New384", 512: "sha512.New"}
					if !okT {
						ok, w, why = false, p, "the hash constructor is taken from "+H.Args[0].Args[0].Name+", which is not a constant dispatch table"
						continue
					}
					for k, v := range tbl {
						if want[k] != v {
							ok, w, why = false, p, fmt.Sprintf("the dispatch table maps alg size %d to %s, expected %s", k, v, map[bool]string{true: want[k], false: "no entry (SHA-256 fallback)"}[want[k] != ""])
						}
						algs[v] = true
					}
					for _, k := range []int64{384, 512} {
						if tbl[k] == "" {
							ok, w, why = false, p, fmt.Sprintf("the dispatch table has no entry for alg size %d, which then falls back to another digest", k)
						}
					}
					continue
				}
				if H.CallName() != wantH {
					ok, w, why = false, p, fmt.Sprintf("alg size %d hashes with %s, expected %s", size, H.CallName(), wantH)
				}
				algs[H.CallName()] = true
			}
			c.Check(ok && n > 0 && len(algs) == 3, rule, "hash-helper", compute, "left-half-of-alg-digest", "the hash helper returns base64url(left half of SHA-256/384/512(token)) with the digest size taken from the header alg", why+fmt.Sprintf(" (digests seen: %d/3)", len(algs)), w)
		}
	}
	// at_hash / c_hash inputs at the handlers
	n := 0
	for _, en := range c.allEntries() {
		if fnPkgPath(en.fn) != pkgOpenID || en.role != "issue" && en.role != "authorize" {
			continue
		}
		ex := c.Explore(en.fn, ExploreConfig{Inline: oidcInline(c)}, "oidc")
		if ex.Truncated != "" {
			continue
		}
		resp := paramByType(en.fn, "fosite.AccessResponder")
		if resp == nil {
			resp = paramByType(en.fn, "fosite.AuthorizeResponder")
		}
		req := reqParam(en.fn)
		ok, m := true, 0
		var w *Path
		why := ""
		for _, p := range ex.Paths {
			for _, e := range p.Events {
				if e.Kind != "store" || e.Name != "AccessTokenHash" && e.Name != "CodeHash" {
					continue
				}
				m++
				v := e.Args[1]
				if s, isC := v.StrConst(); isC && s == "" {
					continue // cleared (refresh)
				}
				good := false
				switch {
				case v.Op == "icall" && v.CallName() == ".GetAccessTokenHash":
					good = e.Name == "AccessTokenHash" && len(v.Args) >= 4 && v.Args[len(v.Args)-1].Key() == resp.Key() && v.Args[len(v.Args)-2].Key() == req.Key()
				case v.Op == "ret" && v.Args[0].Op == "icall" && v.Args[0].CallName() == ".ComputeHash":
					in := v.Args[0].Args[len(v.Args[0].Args)-1]
					want := "access_token"
					if e.Name == "CodeHash" {
						want = "code"
					}
					good = in.IsCall(".Get") && in.Args[0].Key() == call(".GetParameters", resp).Key() && in.Args[1].Key() == tStr(want).Key() && p.IsNilAt(e, ret(1, v.Args[0]))
				}
				if !good {
					ok, w = false, p
					why = fmt.Sprintf("%s is set from %s (%s)", e.Name, clip(v.Pretty(), 100), c.P.Pos(e.Instr.Pos()))
				}
			}
		}
		if m > 0 {
			n++
			c.Check(ok, rule, en.role, en.fn, "hash-inputs", "at_hash is computed from the access token of the same response and c_hash from its code (or cleared)", why, w)
		}
	}
	if n < 4 {
		c.RoleUnmatched(rule, "hash-sites", fmt.Sprintf("at least 4 OIDC handler functions setting at_hash/c_hash; found %d", n))
	}
	// GetAccessTokenHash hashes responder.GetAccessToken()
	for _, fn := range c.P.MethodsOf(pkgOpenID, "IDTokenHandleHelper") {
		if fn.Name() != "GetAccessTokenHash" {
			continue
		}
		ex := c.Explore(fn, ExploreConfig{}, "hash")
		if !c.complete(ex, rule, "hash-helper", fn) {
			continue
		}
		resp := paramByType(fn, "fosite.AccessResponder")
		ok, m := true, 0
		for _, p := range ex.Paths {
			if p.Kind != "return" {
				continue
			}
			m++
			r := p.Rets[0]
			tok := call(".GetAccessToken", resp)
			viaHelper := r.Op == "ret" && r.Args[0].Op == "icall" && r.Args[0].CallName() == ".ComputeHash" && r.Args[0].Args[len(r.Args[0].Args)-1].Key() == tok.Key()
			direct := false
			if r.IsCall(".EncodeToString") {
				for _, e := range p.Calls(".Write") {
					if e.Arg(0).Contains(tok.Key()) {
						direct = true
					}
				}
			}
			if !viaHelper && !direct {
				ok = false
			}
		}
		c.Check(ok && m > 0, rule, "hash-helper", fn, "at-hash-of-response-token", "GetAccessTokenHash hashes responder.GetAccessToken()", "another value is hashed", nil)
	}
	// refresh clears c_hash
	for _, fn := range c.IssueFns() {
		if recvTypeName(fn) != pkgOpenID+".OpenIDConnectRefreshHandler" {
			continue
		}
		ex := c.Explore(fn, ExploreConfig{Inline: oidcInline(c)}, "oidc")
		ok, m := true, 0
		for _, p := range ex.Paths {
			if len(p.Calls(".IssueExplicitIDToken", ".GenerateIDToken")) == 0 {
				continue
			}
			m++
			cleared, recomputed := false, false
			for _, e := range p.Events {
				if e.Kind == "store" && e.Name == "CodeHash" && e.Args[1].Key() == tStr("").Key() {
					cleared = true
				}
				if e.Kind == "store" && e.Name == "AccessTokenHash" && e.Args[1].Op == "icall" {
					recomputed = true
				}
			}
			if !cleared || !recomputed {
				ok = false
			}
		}
		c.Check(ok && m > 0, rule, "issue", fn, "refresh-drops-c-hash", "ID tokens minted on refresh clear c_hash and recompute at_hash before issuance", "issuance reachable without both", nil)
	}
	_ = strings.Join
}

func c14Order(c *Ctx) {
	const rule = "C14.R4"
	c.checkComposeOrder(rule, pkgOAuth2+".AuthorizeExplicitGrantHandler", pkgOpenID+".OpenIDConnectExplicitHandler", "the ID token's at_hash needs the access token issued by the OAuth2 handler")
	c.checkComposeOrder(rule, pkgOAuth2+".RefreshTokenGrantHandler", pkgOpenID+".OpenIDConnectRefreshHandler", "the ID token's at_hash needs the access token issued by the OAuth2 handler")
	c.checkComposeOrder(rule, pkgDevice+".DeviceCodeTokenEndpointHandler", pkgOpenID+".OpenIDConnectDeviceHandler", "the ID token's at_hash needs the access token issued by the device handler")
}

// GlobalFuncMap resolves a package-level map[<int>]func… initialised once in
// init with constant keys and named functions (a dispatch table), provided no
// function of the program writes it. Result: key -> short function name.
func (P *Program) GlobalFuncMap(name string) (map[int64]string, bool) {
	var mm *ssa.MakeMap
	for _, sp := range P.Subjects {
		initFn := sp.Func("init")
		if initFn == nil {
			continue
		}
		for _, b := range initFn.Blocks {
			for _, ins := range b.Instrs {
				if st, ok := ins.(*ssa.Store); ok {
					if g, ok := st.Addr.(*ssa.Global); ok && globalName(g) == name {
						if m, ok := st.Val.(*ssa.MakeMap); ok {
							mm = m
						} else {
							return nil, false
						}
					}
				}
			}
		}
	}
	if mm == nil {
		return nil, false
	}
	out := map[int64]string{}
	for _, r := range *mm.Referrers() {
		switch u := r.(type) {
		case *ssa.MapUpdate:
			k, ok := u.Key.(*ssa.Const)
			if !ok || k.Value == nil {
				return nil, false
			}
			kv, exact := constant.Int64Val(constant.ToInt(k.Value))
			if !exact {
				return nil, false
			}
			v := u.Value
			if ct, ok := v.(*ssa.ChangeType); ok {
				v = ct.X
			}
			f, ok := v.(*ssa.Function)
			if !ok {
				return nil, false
			}
			out[kv] = funcShortName(f)
		case *ssa.Store:
		default:
			return nil, false
		}
	}
	// written anywhere else?
	for _, fn := range P.AllFuncs {
		if fn.Name() == "init" || strings.HasPrefix(fn.Name(), "init#") {
			continue
		}
		for _, b := range fn.Blocks {
			for _, ins := range b.Instrs {
				switch u := ins.(type) {
				case *ssa.Store:
					if g, ok := u.Addr.(*ssa.Global); ok && globalName(g) == name {
						return nil, false
					}
				case *ssa.MapUpdate:
					if l, ok := u.Map.(*ssa.UnOp); ok {
						if g, ok := l.X.(*ssa.Global); ok && globalName(g) == name {
							return nil, false
						}
					}
				}
			}
		}
	}
	return out, len(out) > 0
}

// oidcInline: the inline policy of the OpenID Connect handler rules. Small
// helpers are always traversed; a larger helper is traversed when it (three
// levels deep) touches what these rules read — the stored-session lookup, the
// ID-token sinks, the granted-scope gate, the hash helpers — so that a handler
// whose gate and lookup were moved into one shared helper is still seen whole,
// while unrelated phases stay opaque.
func oidcInline(c *Ctx) func(f *ssa.Function) bool {
	relevant := []string{".GetOpenIDConnectSession", ".CreateOpenIDConnectSession", ".DeleteOpenIDConnectSession", ".GenerateIDToken", ".IssueExplicitIDToken", ".IssueImplicitIDToken", ".GetGrantedScopes", ".GetAccessTokenHash", ".ComputeHash"}
	return func(f *ssa.Function) bool {
		if f.Parent() != nil {
			return true
		}
		if !defaultInline(f) {
			return false
		}
		return len(f.Blocks) <= 6 || len(f.Blocks) <= 24 && c.P.RefsMethod(f, 3, relevant...)
	}
}
