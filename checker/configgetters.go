package main

import (
	"fmt"
	"sort"
	"strings"

	"golang.org/x/tools/go/ssa"
)

// Configuration getters (package fosite, type Config). Every rule that reads a
// configuration switch through a provider interface ("GetEnforcePKCE() is
// false", "the lifespan is GetAuthorizeCodeLifespan()") silently assumes that
// the default provider returns the field of that name. A copy-paste slip in
// config_default.go (the neighbouring field, a second field or-ed in, a default
// keyed on another field) changes the meaning of the switch for every handler
// and no handler rule can see it. The rule: the getter reads exactly one field
// of the receiver — the field of the same name, or the documented alias below —
// and, where the documentation names a default, an unset field yields that
// default.
var configAlias = map[string]string{
	// getter -> field, where the names differ (read off the declarations; the mapping is the documented one)
	"GetSecretsHasher":       "ClientSecretsHasher",
	"GetTokenURLs":           "TokenURL",
	"GetJWTScopeField":       "JWTScopeClaimKey",
	"GetAllowedPrompts":      "AllowedPromptValues",
	"GetAudienceStrategy":    "AudienceMatchingStrategy",
	"GetBCryptCost":          "HashCost",
	"GetJWTMaxDuration":      "GrantTypeJWTBearerMaxDuration",
	"EnforcePushedAuthorize": "IsPushedAuthorizeEnforced",
}

// documented defaults that a property depends on (config.go doc comments)
var configDefaultFn = map[string]string{
	"GetScopeStrategy":    "fosite.WildcardScopeStrategy",
	"GetAudienceStrategy": "fosite.DefaultAudienceMatchingStrategy",
}

func checkConfigGetters(c *Ctx, rule string, getters ...string) {
	const role = "config-getter"
	for _, g := range getters {
		fn := c.P.Func("(*" + pkgRoot + ".Config)." + g)
		if fn == nil {
			c.RoleUnmatched(rule, role, "(*fosite.Config)."+g)
			continue
		}
		want := configAlias[g]
		if want == "" {
			want = strings.TrimPrefix(strings.TrimPrefix(g, "Get"), "Is")
		}
		read := map[string]bool{}
		for _, b := range fn.Blocks {
			for _, ins := range b.Instrs {
				if fa, ok := ins.(*ssa.FieldAddr); ok && len(fn.Params) > 0 && fa.X == fn.Params[0] {
					read[fieldNameOf(fa.X.Type(), fa.Field)] = true
				}
			}
		}
		var got []string
		for f := range read {
			got = append(got, f)
		}
		sort.Strings(got)
		ok := len(got) == 1 && got[0] == want
		why := ""
		if !ok {
			why = fmt.Sprintf("%s reads %v; it must read exactly the field %s", g, got, want)
		}
		if def, has := configDefaultFn[g]; ok && has {
			// every returned function value is the field or the documented default
			ex := c.Explore(fn, ExploreConfig{}, "config")
			if c.complete(ex, rule, role, fn) {
				seenDefault := false
				for _, p := range ex.Paths {
					if p.Kind != "return" || len(p.Rets) != 1 {
						continue
					}
					r := p.Rets[0]
					if r.Mentions(func(t *Term) bool { return t.Op == "field" && t.Name == want }) {
						continue
					}
					if r.Mentions(func(t *Term) bool {
						return (t.Op == "fn" || t.Op == "closure") && strings.HasSuffix(def, t.Name) || t.Fn != nil && short(t.Fn.String()) == def
					}) {
						seenDefault = true
						continue
					}
					ok, why = false, fmt.Sprintf("%s returns %s for an unset field; the documented default is %s", g, clip(r.Pretty(), 80), def)
				}
				if ok && !seenDefault {
					ok, why = false, fmt.Sprintf("%s never returns the documented default %s", g, def)
				}
			}
		}
		c.Check(ok, rule, role, fn, "reads-own-field:"+g, "the default configuration provider's "+g+" reads exactly the field "+want+" (and returns the documented default when it is unset)", why, nil)
	}
}
