package main

import (
	"fmt"
	"sort"
	"strings"

	"golang.org/x/tools/go/ssa"
)

// Configuration getters (package fosite, type Config). Every rule that reads a
// configuration switch through a provider interface ("GetEnforcePKCE() is
// false", "the lifespan is GetAuthorizeCodeLifespan()") silently assumes that
// the default provider returns the field of that name. A copy-paste slip in
// config_default.go (the neighbouring field, a second field or-ed in, a default
// keyed on another field) changes the meaning of the switch for every handler
// and no handler rule can see it. The rule: the getter reads exactly one field
// of the receiver — the field of the same name, or the documented alias below —
// and, where the documentation names a default, an unset field yields that
// default.
var configAlias = map[string]string{
	// getter -> field, where the names differ (read off the declarations; the mapping is the documented one)
	"GetSecretsHasher":       "ClientSecretsHasher",
	"GetTokenURLs":           "TokenURL",
	"GetJWTScopeField":       "JWTScopeClaimKey",
	"GetAllowedPrompts":      "AllowedPromptValues",
	"GetAudienceStrategy":    "AudienceMatchingStrategy",
	"GetBCryptCost":          "HashCost",
	"GetJWTMaxDuration":      "GrantTypeJWTBearerMaxDuration",
	"EnforcePushedAuthorize": "IsPushedAuthorizeEnforced",
}

// documented defaults that a property depends on (config.go doc comments)
var configDefaultFn = map[string]string{
	"GetScopeStrategy":    "fosite.WildcardScopeStrategy",
	"GetAudienceStrategy": "fosite.DefaultAudienceMatchingStrategy",
}

func checkConfigGetters(c *Ctx, rule string, getters ...string) {
	const role = "config-getter"
	for _, g := range getters {
		fn := c.P.Func("(*" + pkgRoot + ".Config)." + g)
		if fn == nil {
			c.RoleUnmatched(rule, role, "(*fosite.Config)."+g)
			continue
		}
		want := configAlias[g]
		if want == "" {
			want = strings.TrimPrefix(strings.TrimPrefix(g, "Get"), "Is")
		}
		read := map[string]bool{}
		for _, b := range fn.Blocks {
			for _, ins := range b.Instrs {
				if fa, ok := ins.(*ssa.FieldAddr); ok && len(fn.Params) > 0 && fa.X == fn.Params[0] {
					read[fieldNameOf(fa.X.Type(), fa.Field)] = true
				}
			}
		}
		var got []string
		for f := range read {
			got = append(got, f)
		}
		sort.Strings(got)
		ok := len(got) == 1 && got[0] == want
		why := ""
		if !ok {
			why = fmt.Sprintf("%s reads %v; it must read exactly the field %s", g, got, want)
		}
		if def, has := configDefaultFn[g]; ok && has {
			// every returned function value is the field or the documented default
			ex := c.Explore(fn, ExploreConfig{}, "config")
			if c.complete(ex, rule, role, fn) {
				seenDefault := false
				for _, p := range ex.Paths {
					if p.Kind != "return" || len(p.Rets) != 1 {
						continue
					}
					r := p.Rets[0]
					if r.Mentions(func(t *Term) bool { return t.Op == "field" && t.Name == want }) {
						continue
					}
					if r.Mentions(func(t *Term) bool {
						return (t.Op == "fn" || t.Op == "closure") && strings.HasSuffix(def, t.Name) || t.Fn != nil && short(t.Fn.String()) == def
					}) {
						seenDefault = true
						continue
					}
					ok, why = false, fmt.Sprintf("%s returns %s for an unset field; the documented default is %s", g, clip(r.Pretty(), 80), def)
				}
				if ok && !seenDefault {
					ok, why = false, fmt.Sprintf("%s never returns the documented default %s", g, def)
				}
			}
		}
		if ok {
			if w2 := configDefaultShape(c, rule, role, fn, g, want); w2 != "" {
				ok, why = false, w2
			}
		}
		c.Check(ok, rule, role, fn, "reads-own-field:"+g, "the default configuration provider's "+g+" reads exactly the field "+want+" (and returns the documented default when it is unset)", why, nil)
	}
}

// documented numeric defaults (config.go / config_default.go doc comments), in the unit of the field
var configDefaultConst = map[string]string{
	"GetAuthorizeCodeLifespan":          "900000000000",     // 15 minutes
	"GetIDTokenLifespan":                "3600000000000",    // one hour
	"GetAccessTokenLifespan":            "3600000000000",    // one hour
	"GetRefreshTokenLifespan":           "2592000000000000", // 30 days
	"GetDeviceAndUserCodeLifespan":      "600000000000",     // 10 minutes
	"GetJWTMaxDuration":                 "86400000000000",   // 24 hours
	"GetPushedAuthorizeContextLifespan": "300000000000",     // 5 minutes
	"GetBCryptCost":                     "12",
	"GetTokenEntropy":                   "32",
	"GetMinParameterEntropy":            "8",
}

// getters with a documented non-numeric default (config.go doc comments)
var configMustDefault = map[string]bool{"GetRefreshTokenScopes": true, "GetSecretsHasher": true, "GetRedirectSecureChecker": true,
	"GetPushedAuthorizeRequestURIPrefix": true, "GetJWKSFetcherStrategy": true, "GetHTTPClient": true, "GetDeviceAuthTokenPollingInterval": true}

// documented list defaults
var configDefaultList = map[string][]string{"GetRefreshTokenScopes": {"offline", "offline_access"}}

// getters whose documented "unset" condition is "zero or negative"
var configUnsetNonPositive = map[string]bool{"GetPushedAuthorizeContextLifespan": true}

// configDefaultShape: a getter returns its field exactly when the field is set and a
// receiver-independent default exactly when it is unset (zero value; <= 0 where documented).
func configDefaultShape(c *Ctx, rule, role string, fn *ssa.Function, g, want string) string {
	ex := c.Explore(fn, ExploreConfig{}, "config")
	if ex.Truncated != "" || len(ex.Paths) == 0 {
		return ""
	}
	recv := paramNamed(fn, 0)
	fld := field(recv, want)
	nRet := 0
	for _, p := range ex.Paths {
		if p.Kind == "return" {
			nRet++
		}
	}
	// a documented default must exist: some exit answers with something other than the field
	if configMustDefault[g] || configDefaultConst[g] != "" || configDefaultFn[g] != "" {
		hasDefault := false
		for _, p := range ex.Paths {
			if p.Kind == "return" && len(p.Rets) == 1 && !p.Rets[0].Mentions(func(t *Term) bool { return t.Key() == fld.Key() }) {
				hasDefault = true
				if want, has := configDefaultList[g]; has {
					for _, w := range want {
						if !litHas(p.Rets[0], w) {
							return fmt.Sprintf("%s defaults to %s; the documented default contains %q", g, clip(p.Rets[0].Pretty(), 60), w)
						}
					}
					if p.Rets[0].Op == "lit" && len(p.Rets[0].Args) != len(want) {
						return fmt.Sprintf("%s defaults to %s; the documented default is %v", g, clip(p.Rets[0].Pretty(), 60), want)
					}
				}
			}
		}
		if !hasDefault {
			return fmt.Sprintf("%s never returns its documented default (an unset %s is handed out as it is)", g, want)
		}
	}
	for _, p := range ex.Paths {
		if p.Kind != "return" || len(p.Rets) != 1 {
			continue
		}
		r := p.Rets[0]
		unset := p.Holds(atomEQ(fld, tInt(0)), true) || p.IsNil(fld) || p.EmptyStr(fld) || p.Holds(atomEQ(call("len", fld), tInt(0)), true)
		set := p.Holds(atomEQ(fld, tInt(0)), false) || p.NonNil(fld) || p.NonEmptyStr(fld) || p.Holds(atomLT(tInt(0), fld), true) || p.Holds(atomLT(tInt(0), call("len", fld)), true)
		if configUnsetNonPositive[g] {
			unset = unset || p.Holds(atomLT(tInt(0), fld), false) || p.Holds(atomLT(fld, tInt(1)), true)
		}
		set = set || p.Holds(atomLT(fld, tInt(1)), false)
		if r.Key() == tTrue.Key() || r.Key() == tFalse.Key() {
			// boolean switch (split into its two exits): the answer is the field's value
			if !p.Holds(atomB(fld), r.Key() == tTrue.Key()) {
				return fmt.Sprintf("%s answers %s on a path where the field %s is not known to have that value", g, r.Name, want)
			}
			continue
		}
		isField := r.Mentions(func(t *Term) bool { return t.Key() == fld.Key() })
		if isField {
			if nRet > 1 && !set {
				return fmt.Sprintf("%s returns the field %s on a path where it is not known to be set", g, want)
			}
			continue
		}
		if !unset {
			return fmt.Sprintf("%s returns %s instead of the field on a path where %s is not known to be unset", g, clip(r.Pretty(), 60), want)
		}
		if r.Mentions(func(t *Term) bool { return t.Key() == recv.Key() }) && !r.IsCall("alloc") && r.Op != "alloc" {
			if _, isB := map[string]bool{"GetSecretsHasher": true}[g]; !isB {
				return fmt.Sprintf("%s derives its default %s from the receiver (another setting) instead of the documented constant", g, clip(r.Pretty(), 60))
			}
		}
		if k, has := configDefaultConst[g]; has && r.Op == "const" && r.Name != k {
			return fmt.Sprintf("%s defaults to %s; the documented default is %s", g, r.Name, k)
		}
	}
	return ""
}
