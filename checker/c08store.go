package main

// C08.R6 — the reference store's revoke-by-request-id contract. The handlers
// revoke "everything of the grant" through RevokeAccessToken(requestID) /
// RevokeRefreshToken(requestID); that is effective only if the store resolves
// the request id through the matching index and then acts on the session keyed
// by the signature it found:
//
//	RevokeAccessToken(id):  sig := AccessTokenRequestIDs[id]; delete AccessTokens[sig]
//	RevokeRefreshToken(id): sig := RefreshTokenRequestIDs[id]; RefreshTokens[sig] rewritten (inactive; C04.R4)
//
// A type-compatible slip (the request id used as the key, the other index
// map) deletes nothing and still returns nil; the handler mocks accept it.
func c08Store(c *Ctx) {
	const rule, role = "C08.R6", "store"
	for _, m := range []struct{ meth, index, table, sink string }{
		{"RevokeAccessToken", "AccessTokenRequestIDs", "AccessTokens", "mapdelete"},
		{"RevokeRefreshToken", "RefreshTokenRequestIDs", "RefreshTokens", "mapupdate"},
	} {
		fn := storeMethod(c, m.meth)
		if fn == nil {
			c.RoleUnmatched(rule, role, "(*MemoryStore)."+m.meth)
			continue
		}
		ex := c.Explore(fn, storeCfg(), "store")
		if !c.complete(ex, rule, role, fn) {
			continue
		}
		id := paramNamed(fn, 2)
		recv := paramNamed(fn, 0)
		idxMap := field(recv, m.index)
		want := mk("lookup", "", idxMap, id)
		ok, n := true, 0
		why := ""
		var w *Path
		for _, p := range ex.Paths {
			if p.Kind != "return" {
				continue
			}
			known, val := false, false
			for _, f := range p.Facts {
				if f.Atom.Kind == "B" && f.Atom.A.IsCall("haskey") && len(f.Atom.A.Args) == 2 && f.Atom.A.Args[0].Key() == idxMap.Key() && f.Atom.A.Args[1].Key() == id.Key() {
					known, val = true, f.Pol
				}
			}
			if !known {
				ok, w, why = false, p, "a path returns without having looked the request id up in "+m.index
				continue
			}
			if !val {
				continue // nothing recorded for this request id
			}
			// the session acted upon is the one keyed by the looked-up signature
			acted := false
			for _, e := range p.Events {
				if e.Kind == m.sink && isStoreMap(e.Args[0], m.table) {
					if e.Args[1].Key() == want.Key() {
						acted = true
						// a rewrite needs an existing entry: writing back the zero value of a missing one
						// resurrects a deleted token with a nil requester
						// ... and the rewrite is the deactivation: the value stored has active=false at the
						// moment it is stored (a flag cleared after the copy was written back is lost)
						if m.sink == "mapupdate" && len(e.Args) > 2 && activeOf(p, e.Args[2], e) != "false" {
							ok, w, why = false, p, m.table+"["+m.index+"[id]] is rewritten with a record whose active flag is not false at that moment"
						}
						if m.sink == "mapupdate" && !p.HoldsAt(e, atomB(call("haskey", field(recv, m.table), want)), true) {
							ok, w, why = false, p, m.table+"["+m.index+"[id]] is written although the entry is not known to exist (a deleted token would be resurrected as a zero record)"
						}
					} else {
						ok, w, why = false, p, m.table+" is modified under key "+clip(e.Args[1].Pretty(), 70)+", not under the signature recorded for the request id"
					}
				}
			}
			if acted {
				n++
			} else if p.Success() {
				// the only tolerated success without effect: the table no longer holds that signature
				gone := p.Holds(atomB(call("haskey", field(recv, m.table), want)), false)
				if !gone {
					ok, w, why = false, p, "success for a recorded request id without "+m.table+"["+m.index+"[id]] having been touched"
				}
			}
		}
		c.Check(ok && n > 0, rule, role, fn, "acts-on-recorded-signature", m.meth+" resolves the request id through "+m.index+" and modifies "+m.table+" under exactly the signature found there", why, w)
	}
	// delete-by-signature removes that one session; the request-id index belongs to the whole
	// family (all generations share the id) and may be touched only for an entry that is known to
	// point at the signature being deleted
	for _, m := range []struct{ meth, index, table string }{
		{"DeleteAccessTokenSession", "AccessTokenRequestIDs", "AccessTokens"},
		{"DeleteRefreshTokenSession", "RefreshTokenRequestIDs", "RefreshTokens"},
	} {
		fn := storeMethod(c, m.meth)
		if fn == nil {
			c.RoleUnmatched(rule, role, "(*MemoryStore)."+m.meth)
			continue
		}
		ex := c.Explore(fn, storeCfg(), "store")
		if !c.complete(ex, rule, role, fn) {
			continue
		}
		sig := paramNamed(fn, 2)
		ok, n := true, 0
		why := ""
		var w *Path
		for _, p := range ex.Paths {
			for _, e := range p.Events {
				if e.Kind != "mapdelete" && e.Kind != "mapupdate" {
					continue
				}
				if isStoreMap(e.Args[0], m.table) {
					n++
					if e.Args[1].Key() != sig.Key() {
						ok, w, why = false, p, m.table+" is modified under "+clip(e.Args[1].Pretty(), 60)+", not under the signature parameter"
					}
					continue
				}
				if isStoreMap(e.Args[0], m.index) {
					entry := mk("lookup", "", e.Args[0], e.Args[1])
					if !p.HoldsAt(e, atomEQ(entry, sig), true) {
						ok, w, why = false, p, m.index+"["+clip(e.Args[1].Pretty(), 40)+"] is removed/overwritten without being known to point at the deleted signature (the index entry is shared by every generation of the grant)"
					}
				}
			}
		}
		c.Check(ok && n > 0, rule, role, fn, "deletes-only-its-signature", m.meth+" removes the session keyed by its signature parameter and leaves the request-id index alone unless the entry points at that signature", why, w)
	}
}
