package main

import (
	"fmt"
	"go/types"
	"sort"
	"strings"

	"golang.org/x/tools/go/ssa"
)

// C12.R11–R16 — the bodies of the scope and audience strategies, as far as
// their documented meaning is visible in the shape of their paths.
//
// The strategies are small loops over (registered entries) x (requested
// values); unrolled to the loop bound every path is a conjunction of literals
// over the elements haystack[k] and needle / needle[j]. Whether the matching
// language is implemented exactly in every index is a question about values
// and stays undecided (DESIGN 8.2, R9; 8.9); six clauses of the documentation
// are not:
//
//	R11 comparators        a registered entry and a requested value are only ever related by string
//	                       equality, by length, by membership, or by a prefix test at a segment boundary;
//	                       no case folding; in the scope strategies no normalising of either side and no
//	                       unanchored prefix / suffix test against a constant
//	R12 covered-by-an-entry an accepting path with a non-empty request has examined an element of the
//	                       registration (an empty or nil registration covers nothing)
//	R13 exact-is-equality  ExactScopeStrategy accepts only with haystack[k] == needle and rejects only with
//	                       none; ExactAudienceMatchingStrategy accepts only with every needle[j] (j below
//	                       the length the path knows) equal to some haystack[k]
//	R14 scheme-and-host    DefaultAudienceMatchingStrategy accepts a requested URL only with one entry whose
//	                       scheme and host both equal the requested ones and whose path is related to the
//	                       requested path by a true equality or prefix literal
//	R15 wildcard-needs-a-segment  one examined entry has every "*" segment against a non-empty request segment
//	R16 entry-compared-completely one examined entry equals the request, is a delimiter-terminated prefix of
//	                       it, or has a known number of segments all compared equal (or "*") and, for the
//	                       wildcard strategy, is as long as the request or ends in "*"
//
// A function beyond the path bound, or deciding through a call that is not
// traversed, is abstained on (a discharged obligation with layer "abstained"):
// an alarm on a strategy written in an unforeseen spelling would be a false one.
type stratFn struct {
	fn       *ssa.Function
	audience bool
}

func c12StrategyFns(c *Ctx) []stratFn {
	var out []stratFn
	pkg := c.P.SSA.ImportedPackage(pkgRoot)
	if pkg == nil {
		return nil
	}
	var names []string
	for n := range pkg.Members {
		names = append(names, n)
	}
	sort.Strings(names)
	isStrs := func(t types.Type) bool {
		s, ok := t.Underlying().(*types.Slice)
		if !ok {
			return false
		}
		b, ok := s.Elem().Underlying().(*types.Basic)
		return ok && b.Kind() == types.String
	}
	for _, n := range names {
		fn, ok := pkg.Members[n].(*ssa.Function)
		if !ok || !strings.HasSuffix(n, "Strategy") || len(fn.Blocks) == 0 {
			continue
		}
		sig := fn.Signature
		if sig.Params().Len() != 2 || sig.Results().Len() != 1 || !isStrs(sig.Params().At(0).Type()) {
			continue
		}
		res := sig.Results().At(0).Type()
		p1 := sig.Params().At(1).Type()
		if b, ok := p1.Underlying().(*types.Basic); ok && b.Kind() == types.String {
			if rb, ok := res.Underlying().(*types.Basic); ok && rb.Kind() == types.Bool {
				out = append(out, stratFn{fn, false})
			}
		} else if isStrs(p1) && res.String() == "error" {
			out = append(out, stratFn{fn, true})
		}
	}
	return out
}

var stratProgram *Program

func stratCfg(visits ...int) ExploreConfig {
	c := stratCfg0()
	c.MaxPaths = 80000 // today: 6 to 1 800 paths per strategy; beyond the cap the rules abstain
	if len(visits) > 0 {
		c.MaxVisits = visits[0]
	}
	return c
}

func stratCfg0() ExploreConfig {
	std := func(fn *ssa.Function) bool { return fnPkgPath(fn) == "slices" }
	// list-valued loop helpers of the module (splitScopes(matchers)) are traversed, not summarised: the
	// rules read the entries through them
	force := func(fn *ssa.Function) bool { return std(fn) || stratProgram != nil && stratProgram.inferredPure(fn) }
	return ExploreConfig{Inline: func(fn *ssa.Function) bool { return isSubjectPkg(fnPkgPath(fn)) }, InlineStd: std, ForceInline: force}
}

var caseFolding = []string{"strings.EqualFold", "strings.ToLower", "strings.ToUpper", "strings.ToTitle", "strings.Title", "strings.ToLowerSpecial", "strings.ToUpperSpecial",
	"bytes.EqualFold", "bytes.ToLower", "bytes.ToUpper", "unicode.ToLower", "unicode.ToUpper", "unicode.SimpleFold", ".Lower", ".Upper"}

// normalisers: functions that make different scope strings equal.
var normalisers = []string{"strings.Trim", "strings.TrimLeft", "strings.TrimRight", "strings.TrimSpace", "strings.TrimFunc", "strings.TrimLeftFunc", "strings.TrimRightFunc",
	"strings.Fields", "strings.FieldsFunc", "strings.Replace", "strings.ReplaceAll", "strings.Map", "strings.ToValidUTF8", "strings.NewReplacer", "path.Clean", "url.PathUnescape", "url.QueryUnescape"}

func mentionsKey(t *Term, k string) bool {
	return t != nil && t.Mentions(func(s *Term) bool { return s.Key() == k })
}

// endsWithDelimiter: the term is a concatenation whose last operand is a
// non-empty string constant (the "." of scopes, the "/" of paths).
func endsWithDelimiter(t *Term) bool {
	for t != nil {
		if s, ok := t.StrConst(); ok {
			return s != ""
		}
		if (t.Op == "bin" && t.Name == "+" || t.Op == "concat") && len(t.Args) > 0 {
			t = t.Args[len(t.Args)-1]
			continue
		}
		return false
	}
	return false
}

// stringPredicatePkgs: packages whose functions relate two strings; a literal
// built from one of them that is not on the whitelist is a comparator the
// documentation does not describe. Calls into anything else that the engine did
// not traverse (a closure held in a variable, an interface method) are opaque:
// the rules abstain for that function instead of guessing.
var stringPredicatePkgs = map[string]bool{"strings": true, "bytes": true, "regexp": true, "path": true, "path/filepath": true, "unicode": true, "unicode/utf8": true, "net/url": true}

func callPkg(t *Term) string {
	if t.Callee != nil && t.Callee.Pkg() != nil {
		return t.Callee.Pkg().Path()
	}
	if i := strings.LastIndex(t.Name, "."); i > 0 {
		return t.Name[:i]
	}
	return ""
}

// unwrapRet: ret:i(call) -> call, i
func unwrapRet(t *Term) (*Term, string) {
	if t.Op == "ret" && len(t.Args) == 1 {
		return t.Args[0], t.Name
	}
	return t, ""
}

func c12Strategies(c *Ctx) {
	const role = "strategy"
	stratProgram = c.P
	fns := c12StrategyFns(c)
	nDoc := 0
	for _, s := range fns {
		for _, w := range []string{"Hierarchic", "Wildcard", "Exact", "Default"} {
			if strings.Contains(s.fn.Name(), w) {
				nDoc++
				break
			}
		}
	}
	if nDoc < 5 {
		c.RoleUnmatched("C12.R11", role, fmt.Sprintf("the three scope strategies and two audience strategies of the root package; found %d", len(fns)))
	}
	for _, s := range fns {
		fn := s.fn
		// the documentation describes five strategies; another function of the same type (a strategy a
		// later feature adds) has no documented meaning to be held to
		documented := false
		for _, w := range []string{"Hierarchic", "Wildcard", "Exact", "Default"} {
			if strings.Contains(fn.Name(), w) {
				documented = true
			}
		}
		if !documented {
			o := c.OK("C12.R11", role, fn, "comparators:"+fn.Name(), "abstained: not one of the documented strategies (hierarchic, wildcard, exact; default and exact audience matching)")
			o.Layer = "abstained"
			continue
		}
		// the loop bound is lowered once before giving up: a strategy that parses every entry into a
		// record first multiplies the paths of the nested loops
		var ex *Exploration
		bounds := []int{3, 2}
		if strings.HasPrefix(fn.Name(), "Exact") {
			// two nested loops over plain lists: deep enough for two entries against two requests
			bounds = []int{7, 3, 2}
		}
		for _, v := range bounds {
			ex = c.Explore(fn, stratCfg(v), fmt.Sprintf("strategy%d", v))
			if ex.Truncated == "" {
				break
			}
		}
		abstain := func(reason string) {
			for _, r := range []string{"C12.R11", "C12.R12"} {
				o := c.OK(r, role, fn, map[string]string{"C12.R11": "comparators:", "C12.R12": "covered-by-an-entry:"}[r]+fn.Name(), "abstained: "+reason)
				o.Layer = "abstained"
			}
		}
		if ex.Truncated != "" || len(ex.Paths) == 0 {
			abstain("the function is not analysable within the path bounds (" + orStr(ex.Truncated, "no complete path") + "); its body is not decided")
			continue
		}
		hay, needle := paramNamed(fn, 0), paramNamed(fn, 1)
		hk, nk := hay.Key(), needle.Key()
		isElem := func(t *Term) bool {
			return t.Op == "idx" && len(t.Args) == 2 && t.Args[0].Key() == hk
		}
		accepts := func(p *Path) bool {
			if p.Kind != "return" || len(p.Rets) != 1 {
				return false
			}
			if s.audience {
				return p.Rets[0].Op == "nil"
			}
			return p.Rets[0].Key() == tTrue.Key()
		}
		// sets built from the registration on a path: local maps all of whose updates are keyed by an element
		setOfEntries := func(p *Path, m *Term) bool {
			n := 0
			for _, e := range p.Events {
				if e.Kind == "mapupdate" && len(e.Args) >= 2 && e.Args[0].Key() == m.Key() {
					n++
					if !isElem(e.Args[1]) {
						return false
					}
				}
			}
			return n > 0 && m.Op == "make"
		}
		// a key found in a local map nothing was ever stored in: not a feasible path
		infeasible := func(p *Path) bool {
			// strings.Split with a non-empty separator yields at least one element
			splitLen := func(t *Term) bool {
				isSplit := func(x *Term) bool {
					return x.IsCall("len") && len(x.Args) == 1 && x.Args[0].IsCall("strings.Split")
				}
				if isSplit(t) {
					return true
				}
				if t.IsCall("min") && len(t.Args) > 0 {
					for _, a := range t.Args {
						if !isSplit(a) {
							return false
						}
					}
					return true
				}
				return false
			}
			for _, f := range p.Facts {
				if f.Atom.Kind == "LT" && f.Pol && splitLen(f.Atom.A) {
					if k, ok := f.Atom.B.IntConst(); ok && k <= 1 {
						return true
					}
				}
				if f.Atom.Kind == "EQ" && f.Pol {
					for _, o := range [][2]*Term{{f.Atom.A, f.Atom.B}, {f.Atom.B, f.Atom.A}} {
						if k, ok := o[0].IntConst(); ok && k <= 0 && splitLen(o[1]) {
							return true
						}
					}
				}
			}
			// a length the path pins to one value and also excludes
			for _, f := range p.Facts {
				if f.Atom.Kind != "EQ" || f.Pol {
					continue
				}
				for _, o := range [][2]*Term{{f.Atom.A, f.Atom.B}, {f.Atom.B, f.Atom.A}} {
					k, isK := o[0].IntConst()
					t := o[1]
					if !isK {
						continue
					}
					if x, kk, ok := unshift(t, o[0]); ok {
						t, k = x, kk
					}
					if _, isC := t.IntConst(); isC {
						continue
					}
					lo, hi := p.IntBounds(t)
					if lo != nil && hi != nil && *lo == *hi && *lo == k {
						return true
					}
				}
			}
			for _, f := range p.Facts {
				a := f.Atom.A
				if f.Atom.Kind == "B" && f.Pol && a.IsCall("haskey") && len(a.Args) == 2 && a.Args[0].Op == "make" {
					n := 0
					for _, e := range p.Events {
						if e.Kind == "mapupdate" && len(e.Args) >= 2 && e.Args[0].Key() == a.Args[0].Key() {
							n++
						}
					}
					if n == 0 {
						return true
					}
				}
			}
			return false
		}
		{
			var keep []*Path
			for _, p := range ex.Paths {
				if !infeasible(p) {
					keep = append(keep, p)
				}
			}
			ex = &Exploration{Paths: keep}
		}
		// ---------------------------------------------------------- opacity
		opaque := ""
		for _, p := range ex.Paths {
			for _, f := range p.Facts {
				for _, t := range []*Term{f.Atom.A, f.Atom.B} {
					if t == nil || !(mentionsKey(t, hk) || mentionsKey(t, nk)) {
						continue
					}
					t.Walk(func(x *Term) bool {
						if x.Op == "icall" || x.Op == "call" && x.Name == "apply" {
							opaque = clip(x.Pretty(), 80)
						}
						return opaque == ""
					})
				}
			}
		}
		if opaque != "" {
			abstain("a decision rests on " + opaque + ", which is not traversed; the body is not decided")
			continue
		}
		// ---------------------------------------------------------- R11 comparators
		ok, why := true, ""
		var w *Path
		for _, p := range ex.Paths {
			// remainders that the path tests for emptiness or for a leading delimiter
			tested := map[string]bool{}
			for _, f := range p.Facts {
				for _, pair := range [][2]*Term{{f.Atom.A, f.Atom.B}, {f.Atom.B, f.Atom.A}} {
					x, y := pair[0], pair[1]
					if x == nil {
						continue
					}
					switch {
					case f.Atom.Kind == "EQ" && y != nil && y.IsConst():
						// rest == "" / len(rest) == 0 / rest[0] == '/'
						if x.Op == "call" && x.Name == "len" && len(x.Args) == 1 {
							tested[x.Args[0].Key()] = true
						} else if x.Op == "idx" && len(x.Args) == 2 {
							tested[x.Args[0].Key()] = true
							tested["at:"+x.Args[1].Key()] = true
						} else {
							tested[x.Key()] = true
						}
					case f.Atom.Kind == "B" && x.IsCall("strings.HasPrefix") && len(x.Args) == 2 && x.Args[1].IsConst():
						tested[x.Args[0].Key()] = true
					}
				}
			}
			for _, f := range p.Facts {
				a, b := f.Atom.A, f.Atom.B
				h := mentionsKey(a, hk) || mentionsKey(b, hk)
				n := mentionsKey(a, nk) || mentionsKey(b, nk)
				// case folding: nowhere (the scheme of a parsed URL is lower case already)
				for _, t := range []*Term{a, b} {
					if t == nil {
						continue
					}
					t.Walk(func(x *Term) bool {
						if x.IsCall(caseFolding...) {
							sch := len(x.Args) > 0 && x.Args[0].Op == "field" && x.Args[0].Name == "Scheme"
							if !sch {
								ok, w, why = false, p, "the decision depends on "+clip(x.Pretty(), 70)+": the strategies compare case-sensitively"
							}
						}
						return true
					})
				}
				if !s.audience {
					// scope strings are compared as they stand: no trimming, field splitting or replacing
					for _, t := range []*Term{a, b} {
						if t == nil || !(mentionsKey(t, hk) || mentionsKey(t, nk)) {
							continue
						}
						t.Walk(func(x *Term) bool {
							if x.IsCall(normalisers...) && len(x.Args) > 0 && (mentionsKey(x.Args[0], hk) || mentionsKey(x.Args[0], nk)) {
								ok, w, why = false, p, "the decision depends on "+clip(x.Pretty(), 80)+": a scope is segmented and compared as it stands (empty segments count)"
							}
							return true
						})
					}
					// a prefix / suffix test of a scope (or segment) against a constant is anchored at the delimiter:
					// "ends with *" is not "the last segment is *"
					if f.Atom.Kind == "B" && (h || n) {
						cl, _ := unwrapRet(a)
						if len(cl.Args) == 2 {
							if cst, isC := cl.Args[1].StrConst(); isC && cst != "" {
								switch {
								case cl.IsCall("strings.HasSuffix", "strings.CutSuffix") && !strings.HasPrefix(cst, "."):
									ok, w, why = false, p, "suffix test "+clip(cl.Pretty(), 80)+" is not anchored at a segment boundary"
								case cl.IsCall("strings.HasPrefix", "strings.CutPrefix") && !strings.HasSuffix(cst, ".") && mentionsKey(cl.Args[0], hk) && !mentionsKey(cl.Args[0], nk):
									ok, w, why = false, p, "prefix test "+clip(cl.Pretty(), 80)+" is not anchored at a segment boundary"
								}
							}
						}
					}
				}
				if !h || !n {
					continue
				}
				if f.Atom.Kind != "B" {
					// string ordering of an entry against a request
					if f.Atom.Kind == "LT" {
						for _, t := range []*Term{a, b} {
							if isElem(t) || t.Key() == nk || t.Op == "idx" && len(t.Args) == 2 && (t.Args[0].Key() == nk || t.Args[0].IsCall("strings.Split")) {
								ok, w, why = false, p, "orders "+clip(a.Pretty(), 50)+" against "+clip(b.Pretty(), 50)+": entries and requests are compared by equality, not by order"
							}
						}
					}
					continue
				}
				cl, ri := unwrapRet(a)
				switch {
				case cl.IsCall("strings.HasPrefix") && len(cl.Args) == 2, cl.IsCall("strings.CutPrefix") && len(cl.Args) == 2 && ri == "1":
					if endsWithDelimiter(cl.Args[1]) || !f.Pol || !accepts(p) {
						break
					}
					// a bare prefix: fine when the path also looks at what follows the prefix
					rest := []string{
						ret(0, call("strings.CutPrefix", cl.Args[0], cl.Args[1])).Key(),
						call("strings.TrimPrefix", cl.Args[0], cl.Args[1]).Key(),
						"at:" + call("len", cl.Args[1]).Key(),
					}
					looked := false
					for _, r := range rest {
						if tested[r] {
							looked = true
						}
					}
					for k := range tested {
						// s[len(prefix):] in any spelling
						if strings.HasPrefix(k, "slice(") && strings.Contains(k, cl.Args[0].Key()) && strings.Contains(k, call("len", cl.Args[1]).Key()) {
							looked = true
						}
					}
					if !looked {
						ok, w, why = false, p, "accepts on the prefix test "+clip(cl.Pretty(), 90)+" without the segment delimiter and without looking at what follows the prefix: a registered entry would cover every value it is a textual prefix of"
					}
				case cl.IsCall("haskey"):
				case cl.Op == "call" && stringPredicatePkgs[callPkg(cl)]:
					ok, w, why = false, p, "a registered entry and a requested value are related by "+clip(cl.Pretty(), 90)+", which is neither string equality nor a prefix test at a segment boundary"
				}
			}
		}
		c.Check(ok, "C12.R11", role, fn, "comparators:"+fn.Name(), "every literal relating a registered entry to a requested value is string equality, a length comparison or a prefix test at a segment boundary; no case folding", why, w)

		// ---------------------------------------------------------- R12 covered by an entry
		ok, why, w = true, "", nil
		nAcc := 0
		needleEmpty := func(p *Path) bool {
			if s.audience {
				l := call("len", needle)
				return p.Holds(atomEQ(tInt(0), l), true) || p.Holds(atomLT(l, tInt(1)), true)
			}
			return false
		}
		for _, p := range ex.Paths {
			if !accepts(p) {
				continue
			}
			nAcc++
			if needleEmpty(p) {
				continue
			}
			seen := false
			for _, f := range p.Facts {
				for _, t := range []*Term{f.Atom.A, f.Atom.B} {
					if t == nil {
						continue
					}
					if t.Mentions(isElem) {
						seen = true
					}
					if f.Atom.Kind == "B" && f.Pol && t.IsCall("haskey") && len(t.Args) == 2 && setOfEntries(p, t.Args[0]) {
						seen = true
					}
				}
			}
			if !seen {
				ok, w, why = false, p, "an accepting path with a non-empty request has not examined any element of the registration"
			}
		}
		c.Check(ok && nAcc > 0, "C12.R12", role, fn, "covered-by-an-entry:"+fn.Name(), "acceptance of a non-empty request rests on an examined element of the registration (an empty registration covers nothing)", orStr(why, "no accepting path"), w)

		// ---------------------------------------------------------- R13 exact is equality
		if strings.HasPrefix(fn.Name(), "Exact") {
			ok, why, w = true, "", nil
			eqElem := func(p *Path, v *Term) bool {
				for _, f := range p.Facts {
					if !f.Pol {
						continue
					}
					a, b := f.Atom.A, f.Atom.B
					if f.Atom.Kind == "EQ" && (isElem(a) && b.Key() == v.Key() || isElem(b) && a.Key() == v.Key()) {
						return true
					}
					if f.Atom.Kind == "B" && a.IsCall("haskey") && len(a.Args) == 2 && a.Args[1].Key() == v.Key() && setOfEntries(p, a.Args[0]) {
						return true
					}
				}
				return false
			}
			for _, p := range ex.Paths {
				if p.Kind != "return" || len(p.Rets) != 1 {
					continue
				}
				acc := accepts(p)
				if !s.audience {
					if acc && !eqElem(p, needle) {
						ok, w, why = false, p, "accepts without an element of the haystack equal to the needle"
					}
					if !acc && eqElem(p, needle) {
						ok, w, why = false, p, "rejects although an element of the haystack equals the needle"
					}
					continue
				}
				if !acc || needleEmpty(p) {
					continue
				}
				// the exact length of the needle on this path
				m := int64(-1)
				for k := int64(1); k <= 8; k++ {
					if p.Holds(atomLT(call("len", needle), tInt(k+1)), true) {
						m = k
						break
					}
				}
				if m < 0 {
					ok, w, why = false, p, "accepts without having run through the whole request list"
					continue
				}
				for j := int64(0); j < m; j++ {
					if !eqElem(p, mk("idx", "", needle, tInt(j))) {
						ok, w, why = false, p, fmt.Sprintf("accepts although requested value %d equals no element of the haystack", j)
					}
				}
			}
			c.Check(ok, "C12.R13", role, fn, "exact-is-equality:"+fn.Name(), "accepts exactly when every requested value equals an element of the registration", why, w)
		}

		// ---------------------------------------------------------- R15 a wildcard needs a segment
		if !s.audience && strings.Contains(fn.Name(), "Wildcard") {
			ok, why, w = true, "", nil
			nStar := 0
			for _, p := range ex.Paths {
				if !accepts(p) {
					continue
				}
				// per entry the path mentions: is every segment known to be "*" (constant position) paired with a
				// request segment known to be non-empty? The accepted entry is one of them; entries rejected
				// earlier may have failed exactly this test.
				if requestSegmented(p, nk) == "none" {
					continue
				}
				entries := map[string]bool{}
				dirty := map[string]string{}
				for _, f := range p.Facts {
					for _, t := range []*Term{f.Atom.A, f.Atom.B} {
						if t == nil {
							continue
						}
						t.Walk(func(x *Term) bool {
							if isElem(x) {
								entries[x.Args[1].Key()] = true
							}
							return true
						})
					}
					if f.Atom.Kind != "EQ" || !f.Pol {
						continue
					}
					for _, o := range [][2]*Term{{f.Atom.A, f.Atom.B}, {f.Atom.B, f.Atom.A}} {
						cst, isC := o[0].StrConst()
						seg := o[1]
						if !isC || cst != "*" || seg.Op != "idx" || len(seg.Args) != 2 || !seg.Args[0].IsCall("strings.Split") || len(seg.Args[0].Args) != 2 || !isElem(seg.Args[0].Args[0]) {
							continue
						}
						if _, isK := seg.Args[1].IntConst(); !isK {
							continue
						}
						nStar++
						nseg := mk("idx", "", call("strings.Split", needle, seg.Args[0].Args[1]), seg.Args[1])
						nonEmpty := p.Holds(atomEQ(tStr(""), nseg), false) || p.Holds(atomEQ(tInt(0), call("len", nseg)), false) || p.Holds(atomLT(call("len", nseg), tInt(1)), false) || p.Holds(atomEQ(seg, nseg), true) || p.Holds(atomEQ(tStr("*"), nseg), true)
						if !nonEmpty {
							dirty[seg.Args[0].Args[0].Args[1].Key()] = clip(seg.Pretty(), 60)
						}
					}
				}
				clean := len(entries) == 0
				for k := range entries {
					if dirty[k] == "" {
						clean = true
					}
				}
				if !clean {
					for _, d := range dirty {
						ok, w, why = false, p, "accepts although every entry examined has a wildcard segment ("+d+") standing against a request segment not known to be non-empty"
					}
				}
			}
			if nStar == 0 {
				o := c.OK("C12.R15", role, fn, "wildcard-needs-a-segment:"+fn.Name(), "abstained: no accepting path knows a segment of an entry to be the wildcard through a literal the rule can read")
				o.Layer = "abstained"
			} else {
				c.Check(ok, "C12.R15", role, fn, "wildcard-needs-a-segment:"+fn.Name(), "on accepting paths every entry segment known to be \"*\" stands against a request segment known to be non-empty", why, w)
			}
		}

		// ---------------------------------------------------------- R16 the accepted entry was compared completely
		if !s.audience && !strings.HasPrefix(fn.Name(), "Exact") {
			wildcard := strings.Contains(fn.Name(), "Wildcard")
			ok, why, w = true, "", nil
			nJudged := 0
			exact := func(p *Path, t *Term) (int64, bool) {
				lo, hi := p.IntBounds(t)
				if lo != nil && hi != nil && *lo == *hi {
					return *lo, true
				}
				return 0, false
			}
			for _, p := range ex.Paths {
				if !accepts(p) {
					continue
				}
				// entries the path mentions, and how each is segmented
				type entry struct {
					elem   *Term
					split  *Term // strings.Split(entry, sep) as it occurs in the literals
					direct bool  // whole-string equality or a true prefix test against the request
				}
				ents := map[string]*entry{}
				get := func(x *Term) *entry {
					k := x.Args[1].Key()
					if ents[k] == nil {
						ents[k] = &entry{elem: x}
					}
					return ents[k]
				}
				for _, f := range p.Facts {
					for _, t := range []*Term{f.Atom.A, f.Atom.B} {
						if t == nil {
							continue
						}
						t.Walk(func(x *Term) bool {
							if isElem(x) {
								get(x)
							}
							if x.IsCall("strings.Split") && len(x.Args) == 2 && isElem(x.Args[0]) {
								get(x.Args[0]).split = x
							}
							return true
						})
					}
					if !f.Pol {
						continue
					}
					a, b := f.Atom.A, f.Atom.B
					if f.Atom.Kind == "EQ" {
						if isElem(a) && b.Key() == nk {
							get(a).direct = true
						}
						if isElem(b) && a.Key() == nk {
							get(b).direct = true
						}
					}
					if f.Atom.Kind == "B" {
						cl, ri := unwrapRet(a)
						if (cl.IsCall("strings.HasPrefix") || cl.IsCall("strings.CutPrefix") && ri == "1") && len(cl.Args) == 2 && mentionsKey(cl.Args[0], nk) {
							cl.Args[1].Walk(func(x *Term) bool {
								if isElem(x) {
									get(x).direct = true
								}
								return true
							})
						}
					}
				}
				if len(ents) == 0 {
					continue
				}
				good, reason := false, ""
				for _, e := range ents {
					switch {
					case e.direct:
						good = true
					case e.split == nil, requestSegmented(p, nk) == "none":
						good = true // a spelling the rule does not read: not judged
					default:
						sep := e.split.Args[1]
						nsplit := call("strings.Split", needle, sep)
						L, okL := exact(p, call("len", e.split))
						if !okL {
							// for k := 0; k < min(len(entry), len(request)); k++ … with the entry known to be the
							// shorter (or equally long) one: the entry has min(…) segments
							lh, ln := call("len", e.split), call("len", nsplit)
							for _, m := range []*Term{call("min", lh, ln), call("min", ln, lh)} {
								if K, okK := exact(p, m); okK && (p.Holds(atomLT(lh, ln), true) || p.Holds(atomEQ(lh, ln), true) || p.Holds(atomLT(ln, lh), false)) {
									L, okL = K, true
								}
							}
						}
						if !okL {
							reason = "accepts without knowing where the entry " + clip(e.elem.Pretty(), 40) + " ends (its number of segments is open on the path)"
							continue
						}
						all := true
						for i := int64(0); i < L; i++ {
							seg := mk("idx", "", e.split, tInt(i))
							nseg := mk("idx", "", nsplit, tInt(i))
							star := wildcard && p.Holds(atomEQ(tStr("*"), seg), true)
							eq := p.Holds(atomEQ(seg, nseg), true) || star && p.Holds(atomEQ(tStr("*"), nseg), true)
							if !eq && !star {
								all = false
								reason = fmt.Sprintf("accepts although segment %d of the entry %s was not compared equal to the request's", i, clip(e.elem.Pretty(), 40))
							}
						}
						if all && wildcard {
							last := mk("idx", "", e.split, tInt(L-1))
							lh, ln := call("len", e.split), call("len", nsplit)
							rel := "?" // number of segments of the entry against the request's
							M, okM := exact(p, ln)
							lo, hi := p.IntBounds(ln)
							switch {
							case okM && L == M, p.Holds(atomEQ(lh, ln), true), p.Holds(atomEQ(tInt(L), ln), true):
								rel = "="
							case okM && L < M, p.Holds(atomLT(lh, ln), true), lo != nil && *lo > L, p.Holds(atomLT(ln, lh), false) && p.Holds(atomEQ(lh, ln), false):
								rel = "<"
							case okM && L > M, p.Holds(atomLT(ln, lh), true), hi != nil && *hi < L:
								rel = ">"
							}
							switch {
							case rel == "?":
								// the path does not order the two lengths through literals the rule reads: not judged
							case rel == ">":
								all, reason = false, "accepts an entry with more segments than the request"
							case rel == "<" && !p.Holds(atomEQ(tStr("*"), last), true) && !p.Holds(atomEQ(tStr("*"), mk("idx", "", e.split, mk("bin", "-", lh, tInt(1)))), true):
								all, reason = false, fmt.Sprintf("accepts the entry %s, which has fewer segments than the request, although its last segment is not known to be the wildcard", clip(e.elem.Pretty(), 40))
							}
						}
						if all {
							good = true
						}
					}
				}
				nJudged++
				if !good {
					ok, w, why = false, p, reason
				}
			}
			if nJudged == 0 {
				o := c.OK("C12.R16", role, fn, "entry-compared-completely:"+fn.Name(), "abstained: no accepting path mentions an entry through literals the rule can read")
				o.Layer = "abstained"
			} else {
				c.Check(ok, "C12.R16", role, fn, "entry-compared-completely:"+fn.Name(), "an accepting path has one entry that equals the request, is a delimiter-terminated prefix of it, or whose every segment (up to its known number of segments) was compared equal or is the wildcard — and, for the wildcard strategy, that is as long as the request or ends in the wildcard", why, w)
			}
		}

		// ---------------------------------------------------------- R14 scheme and host
		if s.audience && !strings.HasPrefix(fn.Name(), "Exact") {
			ok, why, w = true, "", nil
			idxOf := func(t *Term, root string) (idx string, found bool) {
				t.Walk(func(x *Term) bool {
					if x.Op == "idx" && len(x.Args) == 2 && x.Args[0].Key() == root {
						idx, found = x.Args[1].Key(), true
					}
					return !found
				})
				return
			}
			mentionsField := func(t *Term, name string) bool {
				return t.Mentions(func(x *Term) bool { return x.Op == "field" && x.Name == name })
			}
			nChecked := 0
			for _, p := range ex.Paths {
				if !accepts(p) || needleEmpty(p) {
					continue
				}
				js := map[string]bool{}
				type jk struct{ j, k string }
				sch, host, pth := map[jk]bool{}, map[jk]bool{}, map[jk]bool{}
				for _, f := range p.Facts {
					for _, t := range []*Term{f.Atom.A, f.Atom.B} {
						if t == nil {
							continue
						}
						t.Walk(func(x *Term) bool {
							if x.Op == "idx" && len(x.Args) == 2 && x.Args[0].Key() == nk {
								js[x.Args[1].Key()] = true
							}
							return true
						})
					}
					if !f.Pol {
						continue
					}
					a, b := f.Atom.A, f.Atom.B
					// a literal relating the two paths: equality of path-derived strings, or a true prefix test
					if f.Atom.Kind == "B" {
						cl, ri := unwrapRet(a)
						if (cl.IsCall("strings.HasPrefix") || cl.IsCall("strings.CutPrefix") && ri == "1") && len(cl.Args) == 2 {
							k, okh := idxOf(cl.Args[1], hk)
							j, okn := idxOf(cl.Args[0], nk)
							if okh && okn && mentionsField(cl.Args[0], "Path") && mentionsField(cl.Args[1], "Path") {
								pth[jk{j, k}] = true
							}
						}
						continue
					}
					if f.Atom.Kind != "EQ" {
						continue
					}
					for _, o := range [][2]*Term{{a, b}, {b, a}} {
						if k, okh := idxOf(o[0], hk); okh {
							if j, okn := idxOf(o[1], nk); okn && mentionsField(o[0], "Path") && mentionsField(o[1], "Path") && !o[0].IsConst() && !o[1].IsConst() {
								pth[jk{j, k}] = true
							}
						}
					}
					for _, o := range [][2]*Term{{a, b}, {b, a}} {
						k, okh := idxOf(o[0], hk)
						j, okn := idxOf(o[1], nk)
						if !okh || !okn || mentionsKey(o[0], nk) || mentionsKey(o[1], hk) {
							continue
						}
						if mentionsField(o[0], "Scheme") && mentionsField(o[1], "Scheme") {
							sch[jk{j, k}] = true
						}
						if mentionsField(o[0], "Host") && mentionsField(o[1], "Host") {
							host[jk{j, k}] = true
						}
					}
				}
				for j := range js {
					nChecked++
					good := false
					for key := range sch {
						if key.j == j && host[key] {
							good = true
						}
					}
					if !good {
						ok, w, why = false, p, "accepts requested audience "+j+" without an entry whose scheme and host both equal the requested ones"
						continue
					}
					good = false
					for key := range sch {
						if key.j == j && host[key] && pth[key] {
							good = true
						}
					}
					if !good {
						ok, w, why = false, p, "accepts requested audience "+j+" without a literal relating its path to the path of the entry of equal scheme and host (equality or prefix)"
					}
				}
			}
			if nChecked == 0 {
				o := c.OK("C12.R14", role, fn, "scheme-and-host:"+fn.Name(), "abstained: no accepting path relates a requested audience to an entry through literals the rule can read")
				o.Layer = "abstained"
			} else {
				c.Check(ok, "C12.R14", role, fn, "scheme-and-host:"+fn.Name(), "a requested audience URL is accepted only with a registered URL of equal scheme and equal host", why, w)
			}
		}
	}
}

// requestSegmented: does a literal of the path segment the request with a
// function of the Split family ("same": strings.Split; "other": SplitN,
// SplitAfter, …)? "none": the request is walked in another way (strings.Cut,
// IndexByte) and the segment rules have nothing to pair an entry's segments with.
func requestSegmented(p *Path, needleKey string) string {
	res := "none"
	for _, f := range p.Facts {
		for _, t := range []*Term{f.Atom.A, f.Atom.B} {
			if t == nil {
				continue
			}
			t.Walk(func(x *Term) bool {
				if len(x.Args) > 0 && x.Args[0].Key() == needleKey {
					switch {
					case x.IsCall("strings.Split"):
						res = "same"
					case x.IsCall("strings.SplitN", "strings.SplitAfter", "strings.SplitAfterN") && res == "none":
						res = "other"
					}
				}
				return true
			})
		}
	}
	return res
}

func orStr(a, b string) string {
	if a != "" {
		return a
	}
	return b
}
