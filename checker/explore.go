package main

import (
	"fmt"
	"go/constant"
	"go/token"
	"go/types"
	"os"
	"strings"

	"golang.org/x/tools/go/ssa"
)

// ---------------------------------------------------------------------------
// PathPred: path-sensitive predicate tracking over the SSA CFG (DESIGN 2.3).
// A function is abstractly traversed along every CFG path (loops bounded by
// block visits); values are mapped to Terms, branch conditions to Facts, calls
// to Events. No concrete values are computed and no solver is consulted:
// feasibility pruning is limited to constant folding after phi resolution and
// to syntactically contradictory literals.
// ---------------------------------------------------------------------------

type ExploreConfig struct {
	// Inline decides whether a statically resolved module callee is traversed
	// in place (bounded inlining = summary by path set).
	Inline   func(fn *ssa.Function) bool
	MaxDepth int
	// NoArgInline disables argument-driven traversal of helpers (see argDriven)
	NoArgInline bool
	// Opaque names functions a rule treats as designated steps (events); they are
	// never traversed by argument-driven inlining
	Opaque    func(*ssa.Function) bool
	MaxVisits int
	MaxPaths  int
	MaxSteps  int
	// ForceInline: traverse even if the callee is in the purity table.
	ForceInline func(fn *ssa.Function) bool
	// InlineStd: functions outside the module (generic helpers of the standard library such as
	// slices.Contains / slices.ContainsFunc) that are traversed in place; combine with ForceInline
	// when they are in the purity table.
	InlineStd func(fn *ssa.Function) bool
	// KeepPure records pure calls as events too.
	KeepPure bool
	// NoFold disables pruning by literal contradiction (used by the store rules).
	FreeParams map[int]*Term // optional parameter substitution for the root
}

type Event struct {
	Kind     string // call pure store mapupdate maplookup mapdelete range defer go send
	Name     string
	Callee   *types.Func
	StaticFn *ssa.Function
	Recv     *Term
	Args     []*Term // without receiver
	Result   *Term
	Instr    ssa.Instruction
	Fn       *ssa.Function
	Depth    int
	NFacts   int
	Idx      int
	InDefer  bool
	Invoke   bool
	Ctx      *Term // raw (uncollapsed) context argument, if any
}

func (e *Event) Ret(i int) *Term {
	if e.Result == nil {
		return mk("unknown", "noresult")
	}
	return ret(i, e.Result)
}

// Arg returns the i-th non-receiver argument or an unknown term.
func (e *Event) Arg(i int) *Term {
	if i < len(e.Args) {
		return e.Args[i]
	}
	return mk("unknown", "noarg")
}

type Branch struct {
	If    *ssa.If
	Cond  *Term
	Taken bool
}

type Path struct {
	Events   []*Event
	Facts    []Fact
	idx      map[string]bool
	Rets     []*Term
	Kind     string // return | panic
	ExitPos  token.Pos
	Branches []Branch
	RootFn   *ssa.Function
}

type Exploration struct {
	Fn        *ssa.Function
	Paths     []*Path
	Truncated string // non-empty: reason the exploration is incomplete (UNDECIDED)
	Steps     int
	Dropped   int // paths cut by the loop bound
}

type deferred struct {
	common *ssa.CallCommon
	instr  ssa.Instruction
	// arguments are evaluated at defer time
	callee *Term
	args   []*Term
}

type frame struct {
	fn       *ssa.Function
	id       int
	env      map[ssa.Value]*Term
	params   []*Term
	free     []*Term
	defers   []*deferred
	block    *ssa.BasicBlock
	prev     *ssa.BasicBlock
	pc       int
	visits   map[int]int
	forks    map[int]int // undecided branches taken per block (the loop bound counts these)
	bind     ssa.Value   // call instruction in the caller that receives the result
	isDefer  bool
	depth    int
	inDefer  bool
	callName string
}

type state struct {
	stack    []*frame
	mem      map[string]*Term
	facts    []Fact
	idx      map[string]bool
	eqConst  map[string]*Term
	events   []*Event
	branches []Branch
	nFrame   int
	nOcc     map[string]int
	nNew     int
}

func (s *state) clone() *state {
	c := &state{
		mem:      make(map[string]*Term, len(s.mem)),
		facts:    append([]Fact(nil), s.facts...),
		idx:      make(map[string]bool, len(s.idx)),
		eqConst:  make(map[string]*Term, len(s.eqConst)),
		events:   append([]*Event(nil), s.events...),
		branches: append([]Branch(nil), s.branches...),
		nFrame:   s.nFrame,
		nOcc:     make(map[string]int, len(s.nOcc)),
		nNew:     s.nNew,
	}
	for k, v := range s.mem {
		c.mem[k] = v
	}
	for k, v := range s.idx {
		c.idx[k] = v
	}
	for k, v := range s.eqConst {
		c.eqConst[k] = v
	}
	for k, v := range s.nOcc {
		c.nOcc[k] = v
	}
	for _, f := range s.stack {
		nf := *f
		nf.env = make(map[ssa.Value]*Term, len(f.env))
		for k, v := range f.env {
			nf.env[k] = v
		}
		nf.visits = make(map[int]int, len(f.visits))
		for k, v := range f.visits {
			nf.visits[k] = v
		}
		nf.forks = make(map[int]int, len(f.forks))
		for k, v := range f.forks {
			nf.forks[k] = v
		}
		nf.defers = append([]*deferred(nil), f.defers...)
		c.stack = append(c.stack, &nf)
	}
	return c
}

func (s *state) top() *frame { return s.stack[len(s.stack)-1] }

// addFact returns false if the fact contradicts the path (infeasible).
func (s *state) addFact(f Fact) bool {
	k := f.Atom.Key()
	if p, ok := s.idx[k]; ok {
		return p == f.Pol
	}
	s.idx[k] = f.Pol
	s.facts = append(s.facts, f)
	if f.Atom.Kind == "EQ" && f.Pol {
		if f.Atom.A.IsConst() && !f.Atom.B.IsConst() {
			s.eqConst[f.Atom.B.Key()] = f.Atom.A
		} else if f.Atom.B.IsConst() && !f.Atom.A.IsConst() {
			s.eqConst[f.Atom.A.Key()] = f.Atom.B
		}
	}
	// x == ""  <=>  len(x) == 0  <=>  len(x) < 1
	if f.Atom.Kind == "EQ" {
		a, b := f.Atom.A, f.Atom.B
		var x *Term
		if sv, ok := a.StrConst(); ok && sv == "" && !b.IsConst() {
			x = b
		} else if sv, ok := b.StrConst(); ok && sv == "" && !a.IsConst() {
			x = a
		}
		if x != nil {
			if !s.addFact(Fact{atomEQ(call("len", x), tInt(0)), f.Pol}) {
				return false
			}
		}
		var l *Term
		if iv, ok := a.IntConst(); ok && iv == 0 && b.Op == "call" && b.Name == "len" {
			l = b
		} else if iv, ok := b.IntConst(); ok && iv == 0 && a.Op == "call" && a.Name == "len" {
			l = a
		}
		if l != nil && len(l.Args) == 1 && isStringish(l.Args[0]) {
			if !s.addFact(Fact{atomEQ(l.Args[0], tStr("")), f.Pol}) {
				return false
			}
		}
	}
	if f.Atom.Kind == "LT" && f.Atom.A.Op == "call" && f.Atom.A.Name == "len" && len(f.Atom.A.Args) == 1 {
		if iv, ok := f.Atom.B.IntConst(); ok && iv == 1 {
			if !s.addFact(Fact{atomEQ(f.Atom.A, tInt(0)), f.Pol}) {
				return false
			}
		}
	}
	// errors.As(e, &target) true implies *target != nil
	if f.Atom.Kind == "B" && f.Pol && f.Atom.A.Op == "icall" && f.Atom.A.CallName() == "errors.As" && len(f.Atom.A.Args) == 2 {
		out := &Term{Op: "out", Name: "1", Args: []*Term{f.Atom.A}}
		if !s.addFact(Fact{atomEQ(out, tNil), false}) {
			return false
		}
	}
	// errors.Is(e, X) true implies e != nil
	if f.Atom.Kind == "B" && f.Pol && f.Atom.A.IsCall("errors.Is") && len(f.Atom.A.Args) == 2 {
		return s.addFact(Fact{atomEQ(f.Atom.A.Args[0], tNil), false})
	}
	return true
}

// isStringish: terms that denote strings in this code base (form values,
// string-typed getters); used only to relate len(x)==0 with x=="".
func isStringish(t *Term) bool {
	if t.Type != nil {
		if b, ok := t.Type.Underlying().(*types.Basic); ok {
			return b.Info()&types.IsString != 0
		}
		return false
	}
	// an element of a []string / [N]string
	if (t.Op == "idx" || t.Op == "rangeval") && len(t.Args) == 2 && t.Args[0].Type != nil {
		var el types.Type
		switch u := t.Args[0].Type.Underlying().(type) {
		case *types.Slice:
			el = u.Elem()
		case *types.Array:
			el = u.Elem()
		}
		if el != nil {
			if b, ok := el.Underlying().(*types.Basic); ok {
				return b.Info()&types.IsString != 0
			}
		}
		return false
	}
	// the i-th result of a call whose signature says string
	if t.Op == "ret" && len(t.Args) == 1 && t.Args[0].Callee != nil {
		if sig, ok := t.Args[0].Callee.Type().(*types.Signature); ok {
			if i, ok := (&Term{Op: "const", Name: t.Name}).IntConst(); ok && int(i) < sig.Results().Len() {
				if b, ok := sig.Results().At(int(i)).Type().Underlying().(*types.Basic); ok {
					return b.Info()&types.IsString != 0
				}
			}
		}
		return false
	}
	if (t.Op == "call" || t.Op == "icall") && t.Callee != nil {
		if sig, ok := t.Callee.Type().(*types.Signature); ok && sig.Results().Len() == 1 {
			if b, ok := sig.Results().At(0).Type().Underlying().(*types.Basic); ok {
				return b.Info()&types.IsString != 0
			}
		}
	}
	return t.IsCall(".Get", ".FormValue", ".PostFormValue")
}

type explorer struct {
	P           *Program
	cfg         ExploreConfig
	out         *Exploration
	work        []*state
	steps       int
	curCtx      *Term
	storedCache map[*ssa.Function]map[string]bool
}

// argDriven: a narrowed inline policy (storage-reaching, small helpers, ...)
// leaves helpers opaque whose bodies are irrelevant to the rule. That is only
// harmless while the helper does not transform an effect's result: a helper
// that receives the result of an impure call (a storage error, a stored
// request) classifies or wraps it, and leaving it opaque loses the link between
// the effect and the exit. Such unexported helpers are traversed in place.
func (x *explorer) argDriven(fn *ssa.Function, args []*Term) bool {
	if x.cfg.NoArgInline || !defaultInline(fn) || x.cfg.Opaque != nil && x.cfg.Opaque(fn) {
		return false
	}
	// tiny wrappers (one or two paths) cannot multiply paths and typically build
	// the error value of an exit
	if len(fn.Blocks) <= 3 {
		return true
	}
	// predicates: an unexported helper returning one bool is a guard written as a function
	if r := fn.Signature.Results(); r.Len() == 1 && len(fn.Blocks) <= 24 {
		if b, ok := r.At(0).Type().Underlying().(*types.Basic); ok && b.Info()&types.IsBoolean != 0 {
			return true
		}
	}
	for _, a := range args {
		if a != nil && a.Mentions(func(t *Term) bool { return t.Op == "icall" }) {
			return true
		}
	}
	return false
}

func defaultInline(fn *ssa.Function) bool {
	if fn.Parent() != nil {
		return true // closures
	}
	if fn.Object() == nil {
		return true
	}
	return !fn.Object().Exported()
}

func (P *Program) Explore(fn *ssa.Function, cfg ExploreConfig) *Exploration {
	if cfg.Inline == nil {
		cfg.Inline = defaultInline
	}
	if cfg.MaxDepth == 0 {
		cfg.MaxDepth = 8
	}
	if cfg.MaxVisits == 0 {
		cfg.MaxVisits = 3
	}
	if cfg.MaxPaths == 0 {
		cfg.MaxPaths = 400000
	}
	if cfg.MaxSteps == 0 {
		cfg.MaxSteps = 80000000
	}
	x := &explorer{P: P, cfg: cfg, out: &Exploration{Fn: fn}}
	if fn == nil || len(fn.Blocks) == 0 {
		x.out.Truncated = "no body"
		return x.out
	}
	st := &state{mem: map[string]*Term{}, idx: map[string]bool{}, eqConst: map[string]*Term{}, nOcc: map[string]int{}}
	fr := x.newFrame(st, fn, nil, nil, 0)
	for i, p := range fn.Params {
		if t, ok := cfg.FreeParams[i]; ok {
			fr.params = append(fr.params, t)
			continue
		}
		fr.params = append(fr.params, paramTerm(i, p))
	}
	for i, fv := range fn.FreeVars {
		fr.free = append(fr.free, &Term{Op: "free", Name: fmt.Sprintf("%d:%s", i, fv.Name()), Type: fv.Type()})
	}
	st.stack = append(st.stack, fr)
	x.work = append(x.work, st)
	for len(x.work) > 0 {
		s := x.work[len(x.work)-1]
		x.work = x.work[:len(x.work)-1]
		x.exec(s)
		if x.out.Truncated != "" {
			break
		}
	}
	x.out.Steps = x.steps
	return x.out
}

func paramTerm(i int, p *ssa.Parameter) *Term {
	return &Term{Op: "param", Name: fmt.Sprintf("%d:%s", i, p.Name()), Type: p.Type()}
}

func isContext(t types.Type) bool {
	n, ok := t.(*types.Named)
	return ok && n.Obj().Pkg() != nil && n.Obj().Pkg().Path() == "context" && n.Obj().Name() == "Context"
}

func (x *explorer) newFrame(st *state, fn *ssa.Function, params, free []*Term, depth int) *frame {
	st.nFrame++
	return &frame{fn: fn, id: st.nFrame, env: map[ssa.Value]*Term{}, params: params, free: free,
		block: fn.Blocks[0], visits: map[int]int{0: 1}, forks: map[int]int{}, depth: depth}
}

func (x *explorer) emit(st *state, kind string, rets []*Term, pos token.Pos) {
	p := &Path{Events: st.events, Facts: st.facts, idx: st.idx, Rets: rets, Kind: kind, ExitPos: pos, Branches: st.branches, RootFn: x.out.Fn}
	x.out.Paths = append(x.out.Paths, p)
	if len(x.out.Paths) > x.cfg.MaxPaths {
		x.out.Truncated = fmt.Sprintf("path cap %d exceeded", x.cfg.MaxPaths)
	}
}

// emitSplit ends a root path. A boolean result that is not a constant on this
// path ("return a && !b" compiles to a value, not to two exits) is split into
// the exit where it is true and the exit where it is false, each with the
// corresponding facts, so that rules about "true is returned only if ..." see
// the same shape whichever way the predicate is written.
func (x *explorer) emitSplit(st *state, rets []*Term, ins *ssa.Return, from int) {
	for i := from; i < len(rets); i++ {
		r := rets[i]
		b, isBasic := ins.Results[i].Type().Underlying().(*types.Basic)
		if !isBasic || b.Info()&types.IsBoolean == 0 || r.Key() == tTrue.Key() || r.Key() == tFalse.Key() {
			continue
		}
		if v, ok := x.foldBool(st, r); ok {
			rets[i] = tFalse
			if v {
				rets[i] = tTrue
			}
			continue
		}
		for _, pol := range []bool{false, true} {
			s2 := st.clone()
			ok := true
			for _, f := range decompose(r, pol) {
				if !s2.addFact(f) {
					ok = false
					break
				}
			}
			if !ok {
				continue
			}
			r2 := append([]*Term{}, rets...)
			r2[i] = tFalse
			if pol {
				r2[i] = tTrue
			}
			x.emitSplit(s2, r2, ins, i+1)
		}
		return
	}
	x.emit(st, "return", rets, ins.Pos())
}

// exec runs one state until it ends or forks (forks are pushed on the worklist).
func (x *explorer) exec(st *state) {
	for {
		x.steps++
		if x.steps > x.cfg.MaxSteps {
			x.out.Truncated = fmt.Sprintf("step cap %d exceeded", x.cfg.MaxSteps)
			return
		}
		fr := st.top()
		if fr.pc >= len(fr.block.Instrs) {
			x.out.Truncated = "fell off block " + fr.fn.String()
			return
		}
		ins := fr.block.Instrs[fr.pc]
		switch ins := ins.(type) {
		case *ssa.If:
			cond := x.termOf(st, fr, ins.Cond)
			if v, ok := x.foldBool(st, cond); ok {
				st.branches = append(st.branches, Branch{ins, cond, v})
				tgt := fr.block.Succs[0]
				if !v {
					tgt = fr.block.Succs[1]
				}
				if !x.jump(st, fr, tgt) {
					return
				}
				continue
			}
			// fork: counts against the loop bound of this block
			fr.forks[fr.block.Index]++
			if fr.forks[fr.block.Index] > x.cfg.MaxVisits {
				x.out.Dropped++
				return
			}
			var alive []*state
			for _, pol := range []bool{false, true} {
				var s2 *state
				if pol {
					s2 = st
				} else {
					s2 = st.clone()
				}
				ok := true
				for _, f := range decompose(cond, pol) {
					if !s2.addFact(f) {
						ok = false
						break
					}
				}
				if !ok {
					continue
				}
				f2 := s2.top()
				s2.branches = append(s2.branches, Branch{ins, cond, pol})
				tgt := f2.block.Succs[0]
				if !pol {
					tgt = f2.block.Succs[1]
				}
				if !x.jump(s2, f2, tgt) {
					continue
				}
				alive = append(alive, s2)
			}
			// DFS: continue with the last alive, push the others
			if len(alive) == 0 {
				return
			}
			for _, s2 := range alive[:len(alive)-1] {
				x.work = append(x.work, s2)
			}
			st = alive[len(alive)-1]
			continue
		case *ssa.Jump:
			if !x.jump(st, fr, fr.block.Succs[0]) {
				return
			}
			continue
		case *ssa.Return:
			var rets []*Term
			for _, r := range ins.Results {
				rets = append(rets, x.rawOf(st, fr, r))
			}
			if len(st.stack) == 1 {
				x.emitSplit(st, rets, ins, 0)
				return
			}
			st.stack = st.stack[:len(st.stack)-1]
			caller := st.top()
			if fr.bind != nil {
				var rt *Term
				switch len(rets) {
				case 0:
					rt = mk("unknown", "void")
				case 1:
					rt = rets[0]
				default:
					rt = &Term{Op: "tuple", Args: rets}
				}
				caller.env[fr.bind] = rt
			}
			if !fr.isDefer {
				caller.pc++
			}
			continue
		case *ssa.Panic:
			x.emit(st, "panic", []*Term{x.termOf(st, fr, ins.X)}, ins.Pos())
			return
		case *ssa.RunDefers:
			if n := len(fr.defers); n > 0 {
				d := fr.defers[n-1]
				fr.defers = fr.defers[:n-1]
				x.doCall(st, fr, d.common, nil, d)
				continue
			}
			fr.pc++
			continue
		case *ssa.Defer:
			d := &deferred{common: &ins.Call, instr: ins}
			if !ins.Call.IsInvoke() {
				d.callee = x.termOf(st, fr, ins.Call.Value)
			} else {
				d.callee = x.termOf(st, fr, ins.Call.Value)
			}
			for _, a := range ins.Call.Args {
				d.args = append(d.args, x.rawOf(st, fr, a))
			}
			fr.defers = append(fr.defers, d)
			fr.pc++
			continue
		case *ssa.Call:
			x.doCall(st, fr, ins.Common(), ins, nil)
			continue
		case *ssa.Go:
			x.event(st, fr, &Event{Kind: "go", Name: x.calleeName(st, fr, &ins.Call), Instr: ins})
			fr.pc++
			continue
		case *ssa.Send:
			fr.pc++
			continue
		case *ssa.Store:
			addr := x.termOf(st, fr, ins.Addr)
			val := x.rawOf(st, fr, ins.Val)
			st.mem[addr.Key()] = val
			if fa, ok := ins.Addr.(*ssa.FieldAddr); ok {
				// a field with a trivial getter: the getter on the same object now returns the stored value
				if g := x.P.fieldGetters[namedKey(fa.X.Type())+"."+fieldNameOf(fa.X.Type(), fa.Field)]; g != "" {
					root := addrRoot(addr)
					st.mem["getter:"+call("."+g, root).Key()] = val
				}
			}
			if addr.Op != "cell" {
				kind := "store"
				if r := addrRoot(addr); r.Op == "cell" || r.Op == "make" {
					kind = "lstore"
				}
				x.event(st, fr, &Event{Kind: kind, Name: addr.Name, Args: []*Term{addr, val}, Instr: ins})
			}
			fr.pc++
			continue
		case *ssa.MapUpdate:
			m := x.termOf(st, fr, ins.Map)
			k := x.termOf(st, fr, ins.Key)
			v := x.termOf(st, fr, ins.Value)
			st.mem["lookup("+m.Key()+","+k.Key()+")"] = v
			x.event(st, fr, &Event{Kind: "mapupdate", Name: m.Key(), Args: []*Term{m, k, v}, Instr: ins})
			fr.pc++
			continue
		case *ssa.DebugRef:
			fr.pc++
			continue
		case ssa.Value:
			fr.env[ins] = x.eval(st, fr, ins)
			fr.pc++
			continue
		default:
			fr.pc++
			continue
		}
	}
}

// jump moves fr to block to, resolving phis for the incoming edge. Returns
// false when the loop bound cuts the path.
func (x *explorer) jump(st *state, fr *frame, to *ssa.BasicBlock) bool {
	// The loop bound (MaxVisits) counts *undecided* branches per block (see the If case): a loop
	// whose trip count is decided by constants on the path (ranging over a literal table) is
	// unrolled completely. A hard cap on plain visits stops runaway deterministic loops.
	fr.visits[to.Index]++
	if fr.visits[to.Index] > 4*x.cfg.MaxVisits+4 {
		x.out.Dropped++
		return false
	}
	from := fr.block
	// parallel phi assignment
	var phis []*ssa.Phi
	var vals []*Term
	for _, ins := range to.Instrs {
		phi, ok := ins.(*ssa.Phi)
		if !ok {
			break
		}
		idx := -1
		for i, p := range to.Preds {
			if p == from {
				idx = i
				break
			}
		}
		var v *Term
		if idx >= 0 {
			v = x.rawOf(st, fr, phi.Edges[idx])
		} else {
			v = mk("unknown", "phi")
		}
		phis = append(phis, phi)
		vals = append(vals, v)
	}
	for i, phi := range phis {
		fr.env[phi] = vals[i]
	}
	fr.prev = from
	fr.block = to
	fr.pc = len(phis)
	return true
}

// addrRoot follows addr/iaddr chains to the base object.
func addrRoot(a *Term) *Term {
	for a != nil && (a.Op == "addr" || a.Op == "iaddr" || a.Op == "field" || a.Op == "idx") && len(a.Args) > 0 {
		a = a.Args[0]
	}
	return a
}

func (x *explorer) event(st *state, fr *frame, e *Event) *Event {
	e.Fn = fr.fn
	e.Depth = fr.depth
	e.NFacts = len(st.facts)
	e.Idx = len(st.events)
	e.InDefer = fr.inDefer
	if e.Kind == "call" || e.Kind == "pure" || e.Kind == "inline" {
		e.Ctx = x.curCtx
	}
	st.events = append(st.events, e)
	return e
}

// ------------------------------------------------------------------ values

// termOf is the rule-facing abstraction of a value: every context.Context
// collapses to the single term ctx (so that pure calls taking a context keep
// one identity). rawOf keeps the context's provenance (needed to tell the
// transaction context from the request context).
func (x *explorer) termOf(st *state, fr *frame, v ssa.Value) *Term {
	if v != nil && isContext(v.Type()) {
		return tCtx
	}
	return x.rawOf(st, fr, v)
}

func (x *explorer) rawOf(st *state, fr *frame, v ssa.Value) *Term {
	if v == nil {
		return mk("unknown", "nilvalue")
	}
	switch v := v.(type) {
	case *ssa.Const:
		return constTerm(v)
	case *ssa.Parameter:
		for i, p := range fr.fn.Params {
			if p == v {
				if i < len(fr.params) {
					return fr.params[i]
				}
			}
		}
		return mk("unknown", "param")
	case *ssa.FreeVar:
		for i, p := range fr.fn.FreeVars {
			if p == v && i < len(fr.free) {
				return fr.free[i]
			}
		}
		return mk("unknown", "freevar")
	case *ssa.Global:
		return &Term{Op: "gaddr", Name: globalName(v), Type: v.Type()}
	case *ssa.Function:
		return &Term{Op: "fn", Name: short(v.String()), Fn: v}
	case *ssa.Builtin:
		return &Term{Op: "builtin", Name: v.Name()}
	}
	if t, ok := fr.env[v]; ok {
		return t
	}
	return mk("unknown", "undef:"+v.Name())
}

func globalName(g *ssa.Global) string {
	if g.Pkg != nil {
		return short(g.Pkg.Pkg.Path() + "." + g.Name())
	}
	return g.Name()
}

func constTerm(c *ssa.Const) *Term {
	if c.Value == nil {
		// zero value: nil for pointer-like, typed zero otherwise
		switch u := c.Type().Underlying().(type) {
		case *types.Basic:
			if u.Info()&types.IsString != 0 {
				return tStr("")
			}
			if u.Info()&types.IsBoolean != 0 {
				return tFalse
			}
			if u.Info()&types.IsNumeric != 0 {
				return tInt(0)
			}
			return tNil
		case *types.Struct, *types.Array:
			return &Term{Op: "const", Name: "zero:" + types.TypeString(c.Type(), func(p *types.Package) string { return p.Name() })}
		}
		return tNil
	}
	switch c.Value.Kind() {
	case constant.Bool:
		if constant.BoolVal(c.Value) {
			return tTrue
		}
		return tFalse
	case constant.String:
		return tStr(constant.StringVal(c.Value))
	case constant.Int:
		if i, ok := constant.Int64Val(c.Value); ok {
			return tInt(i)
		}
	}
	return tConst(c.Value.ExactString())
}

func zeroOf(t types.Type) *Term {
	switch u := t.Underlying().(type) {
	case *types.Basic:
		if u.Info()&types.IsString != 0 {
			return tStr("")
		}
		if u.Info()&types.IsBoolean != 0 {
			return tFalse
		}
		if u.Info()&types.IsNumeric != 0 {
			return tInt(0)
		}
	case *types.Pointer, *types.Interface, *types.Slice, *types.Map, *types.Signature, *types.Chan:
		return tNil
	}
	return nil
}

func (x *explorer) eval(st *state, fr *frame, v ssa.Value) *Term {
	switch v := v.(type) {
	case *ssa.Alloc:
		st.nNew++
		var t *Term
		if v.Heap {
			t = &Term{Op: "new", Name: fmt.Sprintf("f%d.%s", fr.id, v.Name()), Type: v.Type(), Site: v}
		} else {
			t = &Term{Op: "cell", Name: fmt.Sprintf("f%d.%s", fr.id, v.Name()), Type: v.Type(), Site: v}
		}
		// go/ssa hoists escaping locals to heap Allocs as well: both kinds are cells
		// whose content lives in the path memory.
		t.Op = "cell"
		if z := zeroOf(v.Type().(*types.Pointer).Elem()); z != nil {
			st.mem[t.Key()] = z
		} else {
			delete(st.mem, t.Key())
		}
		return t
	case *ssa.BinOp:
		a := x.termOf(st, fr, v.X)
		b := x.termOf(st, fr, v.Y)
		return foldBin(v.Op.String(), a, b)
	case *ssa.UnOp:
		a := x.termOf(st, fr, v.X)
		switch v.Op {
		case token.MUL:
			return x.load(st, a, v.Type())
		case token.NOT:
			if a.Op == "const" && a.Name == "true" {
				return tFalse
			}
			if a.Op == "const" && a.Name == "false" {
				return tTrue
			}
			if a.Op == "un" && a.Name == "!" {
				return a.Args[0]
			}
			return mk("un", "!", a)
		case token.SUB:
			if i, ok := a.IntConst(); ok {
				return tInt(-i)
			}
			return mk("un", "-", a)
		}
		return mk("un", v.Op.String(), a)
	case *ssa.ChangeType:
		return x.rawOf(st, fr, v.X)
	case *ssa.Convert:
		return x.rawOf(st, fr, v.X)
	case *ssa.MultiConvert:
		return x.rawOf(st, fr, v.X)
	case *ssa.ChangeInterface:
		return x.rawOf(st, fr, v.X)
	case *ssa.MakeInterface:
		return x.rawOf(st, fr, v.X)
	case *ssa.SliceToArrayPointer:
		return x.rawOf(st, fr, v.X)
	case *ssa.TypeAssert:
		a := x.rawOf(st, fr, v.X)
		if v.CommaOk {
			ok := call("istype:"+typeShort(v.AssertedType), a)
			return &Term{Op: "tuple", Args: []*Term{a, ok}}
		}
		return a
	case *ssa.Extract:
		return ret(v.Index, x.rawOf(st, fr, v.Tuple))
	case *ssa.Field:
		a := x.termOf(st, fr, v.X)
		return projField(a, fieldName(v.X.Type(), v.Field))
	case *ssa.FieldAddr:
		a := x.termOf(st, fr, v.X)
		return &Term{Op: "addr", Name: fieldName(v.X.Type(), v.Field), Args: []*Term{a}, Type: v.Type(), Embedded: fieldEmbedded(v.X.Type(), v.Field)}
	case *ssa.IndexAddr:
		a := x.termOf(st, fr, v.X)
		i := x.termOf(st, fr, v.Index)
		return &Term{Op: "iaddr", Args: []*Term{a, i}, Type: v.Type()}
	case *ssa.Index:
		a := x.termOf(st, fr, v.X)
		i := x.termOf(st, fr, v.Index)
		if a.Op == "lit" {
			if k, ok := i.IntConst(); ok && int(k) < len(a.Args) && k >= 0 {
				return a.Args[k]
			}
		}
		return mk("idx", "", a, i)
	case *ssa.Lookup:
		m := x.termOf(st, fr, v.X)
		k := x.termOf(st, fr, v.Index)
		var val *Term
		if _, isMap := v.X.Type().Underlying().(*types.Map); isMap {
			x.event(st, fr, &Event{Kind: "maplookup", Name: m.Key(), Args: []*Term{m, k}, Instr: v})
			key := "lookup(" + m.Key() + "," + k.Key() + ")"
			if mv, ok := st.mem[key]; ok {
				val = mv
			} else {
				val = mk("lookup", "", m, k)
			}
		} else {
			val = mk("idx", "", m, k)
		}
		if v.CommaOk {
			return &Term{Op: "tuple", Args: []*Term{val, call("haskey", m, k)}}
		}
		return val
	case *ssa.Slice:
		a := x.termOf(st, fr, v.X)
		if a.Op == "cell" && v.Low == nil && v.High == nil {
			// slice literal / variadic pack: new [n]T; stores; slice
			if pt, ok := v.X.Type().Underlying().(*types.Pointer); ok {
				if at, ok := pt.Elem().Underlying().(*types.Array); ok {
					n := int(at.Len())
					elems := make([]*Term, 0, n)
					complete := true
					for i := 0; i < n; i++ {
						k := (&Term{Op: "iaddr", Args: []*Term{a, tInt(int64(i))}}).Key()
						if e, ok := st.mem[k]; ok {
							elems = append(elems, e)
						} else {
							complete = false
							break
						}
					}
					if complete {
						return &Term{Op: "lit", Args: elems, Type: v.Type()}
					}
				}
			}
		}
		// slicing an array held in a local (digest := sha256.Sum256(b); digest[:]): the slice is of
		// the array value memory holds for that local
		if a.Op == "cell" {
			if bv, ok := x.known(st, a); ok && bv != nil && bv.Op != "const" {
				a = bv
			}
		}
		args := []*Term{a}
		for _, b := range []ssa.Value{v.Low, v.High} {
			if b == nil {
				args = append(args, tConst("_"))
			} else {
				args = append(args, x.termOf(st, fr, b))
			}
		}
		return mk("slice", "", args...)
	case *ssa.MakeSlice, *ssa.MakeMap, *ssa.MakeChan:
		st.nNew++
		mt := &Term{Op: "make", Name: fmt.Sprintf("f%d.%s", fr.id, v.Name()), Type: v.Type()}
		if ms, ok := v.(*ssa.MakeSlice); ok {
			// len(make([]T, n)) is n
			st.mem["len:"+mt.Key()] = x.termOf(st, fr, ms.Len)
		}
		return mt
	case *ssa.MakeClosure:
		fn := v.Fn.(*ssa.Function)
		var bs []*Term
		for _, b := range v.Bindings {
			bs = append(bs, x.rawOf(st, fr, b))
		}
		return &Term{Op: "closure", Name: short(fn.String()), Args: bs, Fn: fn}
	case *ssa.Range:
		a := x.termOf(st, fr, v.X)
		x.event(st, fr, &Event{Kind: "range", Name: a.Key(), Args: []*Term{a}, Instr: v})
		return mk("iter", fmt.Sprintf("f%d.%s", fr.id, v.Name()), a)
	case *ssa.Next:
		it := x.termOf(st, fr, v.Iter)
		n := st.nOcc["next:"+it.Key()]
		st.nOcc["next:"+it.Key()] = n + 1
		base := it
		if len(it.Args) > 0 {
			base = it.Args[0]
		}
		return &Term{Op: "tuple", Args: []*Term{
			call("hasnext", it, tInt(int64(n))),
			mk("rangekey", "", base, tInt(int64(n))),
			mk("rangeval", "", base, tInt(int64(n))),
		}}
	case *ssa.Select:
		return mk("unknown", "select")
	case *ssa.Phi:
		// only reached for phis not at block head (cannot happen)
		return mk("unknown", "phi")
	}
	return mk("unknown", fmt.Sprintf("%T", v))
}

func typeShort(t types.Type) string {
	return types.TypeString(t, func(p *types.Package) string { return p.Name() })
}

func fieldEmbedded(t types.Type, i int) bool {
	if p, ok := t.Underlying().(*types.Pointer); ok {
		t = p.Elem()
	}
	if s, ok := t.Underlying().(*types.Struct); ok && i < s.NumFields() {
		return s.Field(i).Embedded()
	}
	return false
}

func fieldName(t types.Type, i int) string {
	if p, ok := t.Underlying().(*types.Pointer); ok {
		t = p.Elem()
	}
	if s, ok := t.Underlying().(*types.Struct); ok && i < s.NumFields() {
		return s.Field(i).Name()
	}
	return fmt.Sprintf("f%d", i)
}

// known returns the value memory holds for an address: a direct binding, or a
// projection of a whole-struct/array store into a containing cell.
func (x *explorer) known(st *state, addr *Term) (*Term, bool) {
	if v, ok := st.mem[addr.Key()]; ok {
		return v, true
	}
	switch addr.Op {
	case "addr":
		if bv, ok := x.known(st, addr.Args[0]); ok {
			if bv.Op == "const" && strings.HasPrefix(bv.Name, "zero:") {
				return nil, false
			}
			return projField(bv, addr.Name), true
		}
	case "iaddr":
		if bv, ok := x.known(st, addr.Args[0]); ok {
			if bv.Op == "lit" {
				if k, ok := addr.Args[1].IntConst(); ok && k >= 0 && int(k) < len(bv.Args) {
					return bv.Args[k], true
				}
			}
			return mk("idx", "", bv, addr.Args[1]), true
		}
	}
	return nil, false
}

func (x *explorer) load(st *state, addr *Term, typ types.Type) *Term {
	if v, ok := x.known(st, addr); ok {
		return v
	}
	switch addr.Op {
	case "gaddr":
		// a package-level []string that is initialised once with constants and never written again
		// (a named whitelist) is its literal
		if vals, ok := x.P.constStringSlice(addr.Name); ok {
			var as []*Term
			for _, v := range vals {
				as = append(as, tStr(v))
			}
			return &Term{Op: "lit", Args: as, Type: typ}
		}
		return &Term{Op: "global", Name: addr.Name, Type: typ}
	case "addr":
		base := addr.Args[0]
		if r := addrRoot(addr); (r.Op == "cell" || r.Op == "make") && base.Op != "field" && base.Op != "idx" {
			if z := zeroOf(typ); z != nil {
				return z
			}
		}
		if r := addrRoot(addr); r.Op == "cell" || r.Op == "make" {
			if sv := x.structOf(st, addr, typ, 0); sv != nil {
				return sv
			}
		}
		return &Term{Op: "field", Name: addr.Name, Args: []*Term{base}, Type: typ}
	case "iaddr":
		a, i := addr.Args[0], addr.Args[1]
		// x[:hi][i] is x[i]
		for a.Op == "slice" && len(a.Args) == 3 && sliceFromStart(a) {
			a = a.Args[0]
		}
		if a.Op == "lit" {
			if k, ok := i.IntConst(); ok && k >= 0 && int(k) < len(a.Args) {
				return a.Args[k]
			}
		}
		if a.Op == "call" {
			if es, ok := appendElems(a); ok {
				if k, ok := i.IntConst(); ok && k >= 0 && int(k) < len(es) {
					return es[k]
				}
			}
		}
		return mk("idx", "", a, i)
	case "cell":
		if sv := x.structOf(st, addr, typ, 0); sv != nil {
			return sv
		}
		if av := x.arrayOf(st, addr, typ); av != nil {
			return av
		}
		return mk("unknown", "uninit:"+addr.Name)
	}
	return mk("deref", "", addr)
}

// structOf assembles the value of a struct-typed local cell from the values
// the path memory holds for its fields (zero for fields never written): a
// struct built field by field and then returned or passed by value keeps its
// components.
func (x *explorer) structOf(st *state, addr *Term, typ types.Type, depth int) *Term {
	if typ == nil || depth > 3 {
		return nil
	}
	s, ok := typ.Underlying().(*types.Struct)
	if !ok || s.NumFields() == 0 || s.NumFields() > 24 {
		return nil
	}
	out := &Term{Op: "struct", Name: typeShort(typ), Type: typ}
	for i := 0; i < s.NumFields(); i++ {
		f := s.Field(i)
		fa := &Term{Op: "addr", Name: f.Name(), Args: []*Term{addr}, Type: types.NewPointer(f.Type()), Embedded: f.Embedded()}
		var v *Term
		if kv, ok := x.known(st, fa); ok {
			v = kv
		} else if _, isStruct := f.Type().Underlying().(*types.Struct); isStruct {
			v = x.structOf(st, fa, f.Type(), depth+1)
		} else {
			v = zeroOf(f.Type())
		}
		if v == nil {
			v = &Term{Op: "field", Name: f.Name(), Args: []*Term{mk("unknown", "uninit:"+addr.Key())}, Type: f.Type()}
		}
		out.Args = append(out.Args, mk("fv", f.Name(), v))
	}
	return out
}

// arrayOf assembles the value of a small array-typed local cell from the
// per-element stores ([...]T{a, b} is built element by element and then ranged
// over or indexed as a value).
func (x *explorer) arrayOf(st *state, addr *Term, typ types.Type) *Term {
	if typ == nil {
		return nil
	}
	a, ok := typ.Underlying().(*types.Array)
	if !ok || a.Len() == 0 || a.Len() > 16 {
		return nil
	}
	out := &Term{Op: "lit", Type: typ}
	for i := int64(0); i < a.Len(); i++ {
		ia := &Term{Op: "iaddr", Args: []*Term{addr, tInt(i)}, Type: types.NewPointer(a.Elem())}
		v, ok := x.known(st, ia)
		if !ok {
			// elements that are structs (table rows) are assembled field by field
			if _, isStruct := a.Elem().Underlying().(*types.Struct); isStruct {
				v = x.structOf(st, ia, a.Elem(), 1)
			} else {
				v = zeroOf(a.Elem())
			}
		}
		if v == nil {
			v = mk("idx", "", mk("unknown", "uninit:"+addr.Key()), tInt(i))
		}
		out.Args = append(out.Args, v)
	}
	return out
}

// projField selects a field of a value; struct terms assembled by structOf
// (or stored whole) resolve to the component.
func projField(base *Term, name string) *Term {
	if base != nil && base.Op == "struct" {
		for _, a := range base.Args {
			if a.Op == "fv" && a.Name == name && len(a.Args) == 1 {
				return a.Args[0]
			}
		}
	}
	return field(base, name)
}

func foldBin(op string, a, b *Term) *Term {
	ai, aok := a.IntConst()
	bi, bok := b.IntConst()
	if aok && bok {
		switch op {
		case "+":
			return tInt(ai + bi)
		case "-":
			return tInt(ai - bi)
		case "*":
			return tInt(ai * bi)
		case "|":
			return tInt(ai | bi)
		case "&":
			return tInt(ai & bi)
		case "<<":
			if bi >= 0 && bi < 62 {
				return tInt(ai << uint(bi))
			}
		case "<":
			return boolT(ai < bi)
		case "<=":
			return boolT(ai <= bi)
		case ">":
			return boolT(ai > bi)
		case ">=":
			return boolT(ai >= bi)
		case "==":
			return boolT(ai == bi)
		case "!=":
			return boolT(ai != bi)
		}
	}
	as, asok := a.StrConst()
	bs, bsok := b.StrConst()
	if asok && bsok {
		switch op {
		case "+":
			return tStr(as + bs)
		case "==":
			return boolT(as == bs)
		case "!=":
			return boolT(as != bs)
		}
	}
	if (op == "==" || op == "!=") && a.Op == "const" && b.Op == "const" && (a.Name == "true" || a.Name == "false") && (b.Name == "true" || b.Name == "false") {
		return boolT((a.Name == b.Name) == (op == "=="))
	}
	if op == "==" || op == "!=" {
		if b.Op == "nil" {
			for a.Op == "call" && (a.Name == "errorsx.WithStack" || a.Name == "errors.WithStack") && len(a.Args) == 1 {
				a = a.Args[0]
			}
		}
		if a.Op == "nil" {
			for b.Op == "call" && (b.Name == "errorsx.WithStack" || b.Name == "errors.WithStack") && len(b.Args) == 1 {
				b = b.Args[0]
			}
		}
		if a.Op == "nil" && b.Op == "nil" {
			return boolT(op == "==")
		}
		if (a.Op == "nil" && nonNil(b)) || (b.Op == "nil" && nonNil(a)) {
			return boolT(op == "!=")
		}
	}
	// len(lit)
	return mk("bin", op, a, b)
}

func nonNil(t *Term) bool {
	if r := errorRoot(t); r != "" {
		// an error value built from a package-level error variable (assumed non-nil)
		return true
	}
	switch t.Op {
	case "cell", "make", "closure", "fn", "lit", "addr", "iaddr", "gaddr", "new":
		return true
	case "const":
		return true
	}
	return false
}

func boolT(b bool) *Term {
	if b {
		return tTrue
	}
	return tFalse
}

// foldBool decides a branch condition when it is constant on this path or
// already determined by the path's literals.
func (x *explorer) foldBool(st *state, c *Term) (bool, bool) {
	if c.Op == "const" {
		if c.Name == "true" {
			return true, true
		}
		if c.Name == "false" {
			return false, true
		}
	}
	fs := decompose(c, true)
	if len(fs) == 1 {
		f := fs[0]
		if p, ok := st.idx[f.Atom.Key()]; ok {
			return p == f.Pol, true
		}
		if f.Atom.Kind == "EQ" {
			a, b := f.Atom.A, f.Atom.B
			// x == c2 when the path knows x == c1
			if b.IsConst() && !a.IsConst() {
				if k, ok := st.eqConst[a.Key()]; ok && k.Key() != b.Key() {
					return !f.Pol, true
				}
			}
			if a.IsConst() && !b.IsConst() {
				if k, ok := st.eqConst[b.Key()]; ok && k.Key() != a.Key() {
					return !f.Pol, true
				}
			}
			if a.Key() == b.Key() {
				return f.Pol, true
			}
			if a.IsConst() && b.IsConst() {
				return !f.Pol, true
			}
		}
		if f.Atom.Kind == "LT" {
			// interval knowledge from earlier LT literals on the same term
			if c, ok := f.Atom.B.IntConst(); ok {
				lo, hi, has := intervalOf(st.facts, f.Atom.A)
				if has {
					if hi != nil && *hi < c {
						return f.Pol, true
					}
					if lo != nil && *lo >= c {
						return !f.Pol, true
					}
				}
			}
		}
	}
	return false, false
}

// intervalOf derives [lo,hi] of an integer term from LT/EQ literals against constants.
func intervalOf(facts []Fact, t *Term) (lo, hi *int64, has bool) {
	k := t.Key()
	if l, ok := litLen(t); ok {
		return &l, &l, true
	}
	for _, f := range facts {
		switch f.Atom.Kind {
		case "LT":
			if f.Atom.A.Key() != k {
				continue
			}
			c, ok := f.Atom.B.IntConst()
			if !ok {
				continue
			}
			if f.Pol { // t < c
				v := c - 1
				if hi == nil || v < *hi {
					hi = &v
				}
			} else { // t >= c
				v := c
				if lo == nil || v > *lo {
					lo = &v
				}
			}
			has = true
		case "EQ":
			var c int64
			var ok bool
			if f.Atom.A.Key() == k {
				c, ok = f.Atom.B.IntConst()
			} else if f.Atom.B.Key() == k {
				c, ok = f.Atom.A.IntConst()
			}
			if ok && f.Pol {
				v := c
				lo, hi, has = &v, &v, true
			}
		}
	}
	// library axioms: len(x) >= 0; strings.Split(s, sep) with a non-empty constant
	// separator has at least one element
	if t.Op == "call" && t.Name == "len" && len(t.Args) == 1 {
		min := int64(0)
		if sp := t.Args[0]; sp.IsCall("strings.Split") && len(sp.Args) == 2 {
			if sep, ok := sp.Args[1].StrConst(); ok && sep != "" {
				min = 1
			}
		}
		if lo == nil || *lo < min {
			lo = &min
			has = true
		}
	}
	// max(a, c) >= c and min(a, c) <= c for a constant operand c
	if (t.Op == "call") && (t.Name == "max" || t.Name == "min") {
		for _, a := range t.Args {
			if c, ok := a.IntConst(); ok {
				v := c
				if t.Name == "max" && (lo == nil || *lo < v) {
					lo, has = &v, true
				}
				if t.Name == "min" && (hi == nil || *hi > v) {
					hi, has = &v, true
				}
			}
		}
	}
	// t >= 0 together with t != 0 is t >= 1 (an "if len(x) == 0 { default }" guard)
	if lo != nil && *lo == 0 {
		for _, f := range facts {
			if f.Atom.Kind == "EQ" && !f.Pol {
				var c int64 = -1
				if f.Atom.A.Key() == k {
					c, _ = f.Atom.B.IntConst()
					if _, ok := f.Atom.B.IntConst(); !ok {
						c = -1
					}
				} else if f.Atom.B.Key() == k {
					c, _ = f.Atom.A.IntConst()
					if _, ok := f.Atom.A.IntConst(); !ok {
						c = -1
					}
				}
				if c == 0 {
					one := int64(1)
					lo = &one
				}
			}
		}
	}
	return
}

// appendElems: the elements of a slice built on this path by appending
// explicit elements to nil or to a literal (var out []T; out = append(out, v)
// in an unrolled loop): its length and its elements are known.
func appendElems(t *Term) ([]*Term, bool) {
	switch {
	case t.Op == "nil":
		return nil, true
	case t.Op == "lit":
		return t.Args, true
	case t.Op == "call" && t.Name == "append" && len(t.Args) == 2:
		head, ok := appendElems(t.Args[0])
		if !ok {
			return nil, false
		}
		tail, ok := appendElems(t.Args[1])
		if !ok || t.Args[1].Op == "call" {
			return nil, false
		}
		return append(append([]*Term{}, head...), tail...), true
	}
	return nil, false
}

// sliceFromStart: slice(x, _, hi) or slice(x, 0, hi)
func sliceFromStart(t *Term) bool {
	lo := t.Args[1]
	if lo.Op == "const" && lo.Name == "_" {
		return true
	}
	k, ok := lo.IntConst()
	return ok && k == 0
}

func litLen(t *Term) (int64, bool) {
	if t.Op == "call" && t.Name == "len" && len(t.Args) == 1 && t.Args[0].Op == "nil" {
		return 0, true
	}
	if t.Op == "call" && t.Name == "len" && len(t.Args) == 1 {
		if t.Args[0].Op == "lit" {
			return int64(len(t.Args[0].Args)), true
		}
		if es, ok := appendElems(t.Args[0]); ok {
			return int64(len(es)), true
		}
		if s, ok := t.Args[0].StrConst(); ok {
			return int64(len(s)), true
		}
	}
	return 0, false
}

// ------------------------------------------------------------------- calls

func (x *explorer) calleeName(st *state, fr *frame, c *ssa.CallCommon) string {
	if c.IsInvoke() {
		return "." + c.Method.Name()
	}
	switch v := c.Value.(type) {
	case *ssa.Function:
		return funcShortName(v)
	case *ssa.Builtin:
		return v.Name()
	case *ssa.MakeClosure:
		return funcShortName(v.Fn.(*ssa.Function))
	}
	return "apply"
}

func funcShortName(fn *ssa.Function) string {
	if fn.Signature.Recv() != nil {
		return "." + fn.Name()
	}
	if fn.Parent() != nil {
		return "closure:" + fn.Name()
	}
	if fn.Pkg != nil {
		return fn.Pkg.Pkg.Name() + "." + fn.Name()
	}
	if o := fn.Origin(); o != nil && o.Pkg != nil {
		return o.Pkg.Pkg.Name() + "." + o.Name()
	}
	if fn.Object() != nil && fn.Object().Pkg() != nil {
		return fn.Object().Pkg().Name() + "." + fn.Name()
	}
	return fn.Name()
}

// onStackFor is the recursion guard of inlining. A higher-order helper
// (withLock(mu, func(){ withLock(mu2, f) })) is legitimately re-entered with a
// different function argument: the nesting is bounded by the nesting of the
// closures in the source, so three live frames are allowed for functions that
// take a function-typed parameter; every other function is inlined once.
func (x *explorer) onStackFor(st *state, fn *ssa.Function) bool {
	higher := false
	for _, p := range fn.Params {
		if _, ok := p.Type().Underlying().(*types.Signature); ok {
			higher = true
		}
	}
	if !higher {
		return x.onStack(st, fn)
	}
	n := 0
	for _, f := range st.stack {
		if f.fn == fn {
			n++
		}
	}
	return n >= 3
}

func (x *explorer) onStack(st *state, fn *ssa.Function) bool {
	for _, f := range st.stack {
		if f.fn == fn {
			return true
		}
	}
	return false
}

// doCall handles a call instruction (bind != nil) or a deferred call (d != nil).
func (x *explorer) doCall(st *state, fr *frame, c *ssa.CallCommon, bind *ssa.Call, d *deferred) {
	var args []*Term
	var calleeT *Term
	if d != nil {
		args = d.args
		calleeT = d.callee
	} else {
		for _, a := range c.Args {
			args = append(args, x.rawOf(st, fr, a))
		}
		calleeT = x.rawOf(st, fr, c.Value)
	}
	// collapsed view (contexts -> ctx) for opaque terms and events; the raw
	// context argument is kept on the event
	var ctxRaw *Term
	cargs := make([]*Term, len(args))
	for i, a := range args {
		cargs[i] = a
		if i < len(c.Args) && isContext(c.Args[i].Type()) {
			if ctxRaw == nil {
				ctxRaw = a
			}
			cargs[i] = tCtx
		}
	}
	x.curCtx = ctxRaw
	finish := func(res *Term) {
		if bind != nil {
			fr.env[bind] = res
			fr.pc++
		}
		// deferred: stay on RunDefers
	}
	var instr ssa.Instruction
	if bind != nil {
		instr = bind
	} else {
		instr = d.instr
	}

	if c.IsInvoke() {
		name := "." + c.Method.Name()
		res := x.opaque(st, fr, name, c.Method, nil, calleeT, cargs, instr, true, c.Signature())
		finish(res)
		return
	}

	var static *ssa.Function
	var free []*Term
	switch v := c.Value.(type) {
	case *ssa.Function:
		static = v
	case *ssa.Builtin:
		finish(x.builtin(st, fr, v.Name(), cargs, instr))
		return
	default:
		if calleeT.Op == "closure" || calleeT.Op == "fn" {
			static = calleeT.Fn
			free = calleeT.Args
		}
	}
	if static == nil {
		// dynamic call of a function value: pure application term
		res := call("apply", append([]*Term{calleeT}, cargs...)...)
		x.event(st, fr, &Event{Kind: "pure", Name: "apply", Recv: calleeT, Args: cargs, Result: res, Instr: instr})
		finish(res)
		return
	}
	pureStatic := false
	if x.cfg.ForceInline == nil || !x.cfg.ForceInline(static) {
		var o *types.Func
		if oo, ok := static.Object().(*types.Func); ok {
			o = oo
		}
		pureStatic = isPureCall(fnPkgPath(static), funcShortName(static), o, static.Signature) || x.P.inferredPure(static)
	}
	isBound := strings.HasPrefix(static.Synthetic, "bound method wrapper") || strings.HasPrefix(static.Synthetic, "wrapper for")
	if isBound {
		pureStatic = false
	}
	if !pureStatic && len(static.Blocks) > 0 && (isBound || (isSubjectPkg(fnPkgPath(static)) && (x.cfg.Inline(static) || x.cfg.ForceInline != nil && x.cfg.ForceInline(static) || x.argDriven(static, cargs) || constantFunc(static))) || x.cfg.InlineStd != nil && x.cfg.InlineStd(static)) && fr.depth < x.cfg.MaxDepth+2 && (isBound || fr.depth < x.cfg.MaxDepth) && !x.onStackFor(st, static) {
		nf := x.newFrame(st, static, args, free, fr.depth+1)
		nf.inDefer = fr.inDefer || d != nil
		if bind != nil {
			nf.bind = bind
		} else {
			nf.isDefer = true
		}
		nf.callName = funcShortName(static)
		x.event(st, fr, &Event{Kind: "inline", Name: funcShortName(static), StaticFn: static, Args: cargs, Instr: instr})
		st.stack = append(st.stack, nf)
		return
	}
	name := funcShortName(static)
	var recv *Term
	rest := cargs
	var obj *types.Func
	if o, ok := static.Object().(*types.Func); ok {
		obj = o
	}
	if static.Signature.Recv() != nil && len(cargs) > 0 {
		recv = cargs[0]
		rest = cargs[1:]
	}
	res := x.opaque(st, fr, name, obj, static, recv, rest, instr, false, static.Signature)
	finish(res)
}

func (x *explorer) builtin(st *state, fr *frame, name string, args []*Term, instr ssa.Instruction) *Term {
	switch name {
	case "len":
		t := call("len", args...)
		if l, ok := litLen(t); ok {
			return tInt(l)
		}
		if len(args) == 1 && args[0].Op == "slice" && len(args[0].Args) == 3 && sliceFromStart(args[0]) && args[0].Args[2].Key() != "_" {
			// len(x[:hi]) is hi
			return args[0].Args[2]
		}
		if len(args) == 1 && args[0].Op == "make" {
			if n, ok := st.mem["len:"+args[0].Key()]; ok {
				return n
			}
		}
		return t
	case "cap":
		return call("cap", args...)
	case "append":
		return call("append", args...)
	case "delete":
		x.event(st, fr, &Event{Kind: "mapdelete", Name: args[0].Key(), Args: args, Instr: instr})
		delete(st.mem, "lookup("+args[0].Key()+","+args[1].Key()+")")
		return mk("unknown", "void")
	case "copy":
		x.event(st, fr, &Event{Kind: "call", Name: "copy", Args: args, Instr: instr})
		return call("copy", args...)
	case "recover":
		return tNil
	case "min", "max":
		// constants fold; otherwise the term keeps its operands so that intervalOf can bound it
		allC := true
		var best int64
		for i, a := range args {
			v, ok := a.IntConst()
			if !ok {
				allC = false
				break
			}
			if i == 0 || name == "max" && v > best || name == "min" && v < best {
				best = v
			}
		}
		if allC && len(args) > 0 {
			return tInt(best)
		}
		return call(name, args...)
	}
	x.event(st, fr, &Event{Kind: "call", Name: name, Args: args, Instr: instr})
	return mk("unknown", "builtin:"+name)
}

// opaque models a call that is not traversed: a pure call becomes a structural
// term, anything else a uniquely numbered term plus an event.
func (x *explorer) opaque(st *state, fr *frame, name string, obj *types.Func, static *ssa.Function, recv *Term, args []*Term, instr ssa.Instruction, invoke bool, sig *types.Signature) *Term {
	pkg := ""
	if obj != nil && obj.Pkg() != nil {
		pkg = obj.Pkg().Path()
	} else if static != nil {
		pkg = fnPkgPath(static)
	}
	// a method promoted from an embedded struct is called on the address of the embedded
	// field: the receiver object is the enclosing one
	for recv != nil && recv.Op == "addr" && recv.Embedded && len(recv.Args) == 1 {
		recv = recv.Args[0]
	}
	all := args
	if recv != nil {
		all = append([]*Term{recv}, args...)
	}
	if isPureCall(pkg, name, obj, sig) || static != nil && x.P.inferredPure(static) && (x.cfg.ForceInline == nil || !x.cfg.ForceInline(static)) {
		t := &Term{Op: "call", Name: name, Args: all, Callee: obj, Site: instr, Clock: len(st.events)}
		if sig != nil && sig.Results().Len() == 1 {
			t.Type = sig.Results().At(0).Type()
		}
		// getter overridden by an earlier setter on the same receiver
		if v, ok := st.mem["getter:"+t.Key()]; ok {
			return v
		}
		if x.cfg.KeepPure {
			x.event(st, fr, &Event{Kind: "pure", Name: name, Callee: obj, StaticFn: static, Recv: recv, Args: args, Result: t, Instr: instr, Invoke: invoke})
		}
		return t
	}
	n := st.nOcc[name]
	st.nOcc[name] = n + 1
	t := &Term{Op: "icall", Name: fmt.Sprintf("%s#%d", name, n), Args: all, Callee: obj, Site: instr}
	// a local passed by address to an effectful call may be overwritten by it
	if outParamCalls[name] {
		for i, a := range all {
			cells := []*Term{a}
			if a.Op == "lit" { // variadic pack
				cells = a.Args
			}
			for _, cl := range cells {
				// a field of a local struct passed by address (&verified.claims)
				if cl.Op == "addr" && addrRoot(cl).Op == "cell" {
					st.mem[cl.Key()] = &Term{Op: "out", Name: fmt.Sprintf("%d", i), Args: []*Term{t}}
					for k := range st.mem {
						if strings.HasPrefix(k, "addr:") && strings.HasSuffix(k, "("+cl.Key()+")") {
							delete(st.mem, k)
						}
					}
				}
				if cl.Op == "cell" {
					st.mem[cl.Key()] = &Term{Op: "out", Name: fmt.Sprintf("%d", i), Args: []*Term{t}}
					// forget field-level bindings of the overwritten struct
					pre := "addr:"
					for k := range st.mem {
						if strings.HasPrefix(k, pre) && strings.HasSuffix(k, "("+cl.Key()+")") {
							delete(st.mem, k)
						}
					}
				}
			}
		}
	}
	// a source function that is not traversed may rewrite fields of the objects it can reach: the
	// bindings memory holds for the fields it (or its static callees, two levels) stores to are
	// replaced by a fresh value owned by this call
	if static != nil && len(static.Blocks) > 0 {
		if fs := x.storedFields(static); len(fs) > 0 {
			for k := range st.mem {
				var rest string
				switch {
				case strings.HasPrefix(k, "addr:"):
					rest = k[len("addr:"):]
				case strings.HasPrefix(k, "getter:.Get"):
					rest = k[len("getter:.Get"):]
				default:
					continue
				}
				if i := strings.IndexByte(rest, '('); i > 0 && fs[rest[:i]] {
					st.mem[k] = &Term{Op: "out", Name: rest[:i], Args: []*Term{t}}
				}
			}
		}
	}
	x.event(st, fr, &Event{Kind: "call", Name: name, Callee: obj, StaticFn: static, Recv: recv, Args: args, Result: t, Instr: instr, Invoke: invoke})
	// Set<X>(v) on a receiver makes Get<X>() return v afterwards
	if recv != nil && strings.HasPrefix(name, ".Set") && len(name) > 4 {
		var nonCtx []*Term
		for _, a := range args {
			if a != tCtx {
				nonCtx = append(nonCtx, a)
			}
		}
		if len(nonCtx) == 1 {
			g := call(".Get"+name[4:], recv)
			st.mem["getter:"+g.Key()] = nonCtx[0]
		}
	}
	return t
}

// outParamCalls: effectful calls known to write through a pointer argument
// (every other external call is assumed not to write to the caller's locals).
var outParamCalls = map[string]bool{"errors.As": true, "json.Unmarshal": true, ".Decode": true, ".Unmarshal": true, ".UnmarshalJSON": true, ".Scan": true, ".Claims": true, ".UnsafeClaimsWithoutVerification": true}

// ------------------------------------------------------------- purity table

var purePkgs = map[string]bool{
	"strings": true, "bytes": true, "errors": true, "github.com/pkg/errors": true,
	"github.com/ory/x/errorsx": true, "fmt": true, "strconv": true, "time": true,
	"net/url": true, "crypto/subtle": true, "encoding/base64": true, "unicode": true,
	"unicode/utf8": true, "regexp": true, "path": true, "net": true, "html": true, "math": true,
	"github.com/ory/x/stringslice": true, "github.com/ory/x/stringsx": true,
	"github.com/ory/go-convenience/stringslice": true, "github.com/ory/go-convenience/stringsx": true,
	"github.com/asaskevich/govalidator": true, "reflect": true,
	"encoding/hex": true, "slices": true, "maps": true,
	"github.com/go-jose/go-jose/v3": true, "golang.org/x/text/language": true,
	"crypto/sha256": true, "crypto/sha512": true, "crypto/x509": true, "encoding/pem": true,
}

// impure exceptions inside otherwise pure packages (mutators, blocking, fresh state)
var impureIn = map[string]bool{
	"net/url..Set": true, "net/url..Add": true, "net/url..Del": true,
	"time.time.Sleep": true, "fmt.fmt.Fprintf": true, "fmt.fmt.Fprint": true, "fmt.fmt.Fprintln": true,
	"fmt.fmt.Printf": true, "fmt.fmt.Println": true,
	"crypto/sha256.sha256.New": true, "crypto/sha512.sha512.New": true, "crypto/sha512.sha512.New384": true,
	"bytes..Write": true, "bytes..WriteString": true, "strings..WriteString": true, "strings..Write": true,
	"errors.errors.As": true, "github.com/pkg/errors.errors.As": true,
	"reflect..Set": true,
}

var pureExtra = map[string]bool{
	"crypto/hmac.hmac.Equal": true, "net/http.Header.Get": true, "net/http.http.StatusText": true,
	"net/http.Request.BasicAuth": true, "net/http.Request.Context": true, "net/http.ResponseWriter.Header": true,
}

var pureModulePrefixes = []string{".Get", ".Is", ".Has", ".Matches", ".ExactOne", ".With", ".To", ".String", ".Error", ".Unwrap", ".Cause", ".Public"}
var pureModuleNames = map[string]bool{
	".Sanitize": true, ".Clone": true, ".Valid": true, ".Signature": true,
	".StatusCode": true, ".Reason": true, ".Debug": true, ".IDTokenClaims": true, ".IDTokenHeaders": true,
	".Exact": true, ".Copy": true,
	"fosite.GetEffectiveLifespan": true, "fosite.IsLocalhost": true, "fosite.IsLookbackAddress": true,
	"fosite.StringInSlice": true, "fosite.RemoveEmpty": true, "fosite.EscapeJSONString": true,
	"fosite.ErrorToRFC6749Error": true, "fosite.AccessTokenFromRequest": true,
	"fosite.IsRedirectURISecure": true, "fosite.IsRedirectURISecureStrict": true, "fosite.IsValidRedirectURI": true,
	"fosite.MatchRedirectURIWithClientRedirectURIs": true, "fosite.GetRedirectURIFromRequestValues": true,
	"fosite.ExactScopeStrategy": true, "fosite.HierarchicScopeStrategy": true, "fosite.WildcardScopeStrategy": true,
	"fosite.DefaultAudienceMatchingStrategy": true, "fosite.ExactAudienceMatchingStrategy": true,
	"fosite.GetAudiences": true, "fosite.GetPostFormHTMLTemplate": true,
	"jwt.ToString": true, "jwt.ToTime": true, "jwt.StringSliceFromMap": true, "jwt.Copy": true, "jwt.Filter": true,
	"jwt.NewHeaders": true, "fosite.NewContext": true,
	"i18n.GetLangFromRequester": true, "i18n.GetMessage": true, "i18n.GetMessageOrDefault": true,
	"fosite.AddLocalizerToErr": true, "fosite.AddLocalizerToErrWithLang": true,
}

func sigHasCtxAndMore(sig *types.Signature) bool {
	ps := sig.Params()
	hasCtx := false
	other := 0
	for i := 0; i < ps.Len(); i++ {
		if isContext(ps.At(i).Type()) {
			hasCtx = true
		} else {
			other++
		}
	}
	return hasCtx && other > 0
}

func recvNamed(obj *types.Func) string {
	if obj == nil {
		return ""
	}
	sig, _ := obj.Type().(*types.Signature)
	if sig == nil || sig.Recv() == nil {
		return ""
	}
	t := sig.Recv().Type()
	if p, ok := t.(*types.Pointer); ok {
		t = p.Elem()
	}
	if n, ok := t.(*types.Named); ok {
		return n.Obj().Name()
	}
	return ""
}

func isPureCall(pkg, name string, obj *types.Func, sig *types.Signature) bool {
	full := pkg + "." + name
	if rn := recvNamed(obj); rn != "" {
		if v, ok := pureExtra[pkg+"."+rn+name]; ok {
			return v
		}
	}
	if v, ok := pureExtra[full]; ok {
		return v
	}
	if impureIn[full] {
		return false
	}
	if purePkgs[pkg] {
		return true
	}
	if pkg == modPath || strings.HasPrefix(pkg, modPath+"/") {
		if pureModuleNames[name] {
			return true
		}
		if strings.HasSuffix(name, "Signature") && strings.HasPrefix(name, ".") {
			return true
		}
		for _, p := range pureModulePrefixes {
			if strings.HasPrefix(name, p) {
				// storage-style lookups take a context plus a key: those are effects
				if sig != nil && sigHasCtxAndMore(sig) {
					return false
				}
				return true
			}
		}
		return false
	}
	// methods of external interfaces/types that are plain observers
	switch name {
	case ".Error", ".String", ".Unwrap", ".Public":
		return true
	}
	return false
}

// storedFields: names of struct fields the function stores to through a pointer
// that is not a fresh local allocation (its own or, two levels deep, its static callees').
func (x *explorer) storedFields(fn *ssa.Function) map[string]bool {
	if x.storedCache == nil {
		x.storedCache = map[*ssa.Function]map[string]bool{}
	}
	if v, ok := x.storedCache[fn]; ok {
		return v
	}
	out := map[string]bool{}
	x.storedCache[fn] = out
	var rec func(f *ssa.Function, depth int)
	seen := map[*ssa.Function]bool{}
	rec = func(f *ssa.Function, depth int) {
		if seen[f] {
			return
		}
		seen[f] = true
		for _, b := range f.Blocks {
			for _, ins := range b.Instrs {
				switch v := ins.(type) {
				case *ssa.Store:
					if fa, ok := v.Addr.(*ssa.FieldAddr); ok {
						if _, fresh := fa.X.(*ssa.Alloc); !fresh {
							out[fieldNameOf(fa.X.Type(), fa.Field)] = true
						}
					}
				case ssa.CallInstruction:
					if cal := v.Common().StaticCallee(); cal != nil && depth < 2 && len(cal.Blocks) > 0 {
						rec(cal, depth+1)
					}
				}
			}
		}
		for _, an := range f.AnonFuncs {
			rec(an, depth)
		}
	}
	rec(fn, 0)
	return out
}

// inferredPure: a data-transforming loop helper of the module — it returns
// slices only (no bool, error, scalar or function result, so no decision is
// hidden in it), contains a loop, and has no effect: it stores only into its own fresh
// allocations, updates only maps it made itself, and calls only builtins and
// pure functions. Such a helper (appendUnique, uniqueArguments, mergeScopes …)
// is modelled as a structural term of its arguments instead of being unrolled
// at every call site, which is what keeps a function with five sequential
// "for … { x = appendUnique(x, v) }" loops within the path bound.
func (P *Program) inferredPure(fn *ssa.Function) bool {
	if os.Getenv("FL_NOINFER") != "" {
		return false
	}
	if P.purityCache == nil {
		P.purityCache = map[*ssa.Function]int{}
	}
	switch P.purityCache[fn] {
	case 1:
		return true
	case 2, 3:
		return false // impure, or in progress (recursion)
	}
	P.purityCache[fn] = 3
	ok := P.inferPure(fn)
	if ok {
		P.purityCache[fn] = 1
	} else {
		P.purityCache[fn] = 2
	}
	return ok
}

func (P *Program) inferPure(fn *ssa.Function) bool {
	if len(fn.Blocks) == 0 || !isSubjectPkg(fnPkgPath(fn)) || fn.Signature.Results().Len() == 0 || len(fn.AnonFuncs) > 0 {
		return false
	}
	// only list-valued helpers: a slice result is data; a scalar (enum, string, duration) may encode a
	// decision some rule needs to see being taken
	for i := 0; i < fn.Signature.Results().Len(); i++ {
		if _, isSlice := fn.Signature.Results().At(i).Type().Underlying().(*types.Slice); !isSlice {
			return false
		}
	}
	// a helper that reads through a pointer (a method of the store listing the expired keys of one of its
	// tables) answers from mutable state, not from its arguments: it is traversed like any other callee
	for _, p := range fn.Params {
		switch p.Type().Underlying().(type) {
		case *types.Pointer, *types.Map, *types.Interface:
			return false
		}
	}
	loop := false
	for _, b := range fn.Blocks {
		for _, s := range b.Succs {
			if s.Index <= b.Index {
				loop = true
			}
		}
	}
	if !loop {
		return false
	}
	local := func(v ssa.Value) bool {
		for i := 0; i < 8; i++ {
			switch x := v.(type) {
			case *ssa.Alloc, *ssa.MakeMap, *ssa.MakeSlice:
				return true
			case *ssa.FieldAddr:
				v = x.X
			case *ssa.IndexAddr:
				v = x.X
			case *ssa.Slice:
				v = x.X
			case *ssa.Phi:
				return false
			default:
				return false
			}
		}
		return false
	}
	for _, b := range fn.Blocks {
		for _, ins := range b.Instrs {
			switch x := ins.(type) {
			case *ssa.Store:
				if !local(x.Addr) {
					return false
				}
			case *ssa.MapUpdate:
				if !local(x.Map) {
					return false
				}
			case *ssa.Go, *ssa.Defer, *ssa.Send, *ssa.Panic, *ssa.RunDefers, *ssa.Select:
				return false
			case ssa.CallInstruction:
				cc := x.Common()
				if cc.IsInvoke() {
					if !isPureCall(cc.Method.Pkg().Path(), "."+cc.Method.Name(), cc.Method, cc.Signature()) {
						return false
					}
					continue
				}
				switch v := cc.Value.(type) {
				case *ssa.Builtin:
					if v.Name() == "copy" || v.Name() == "delete" || v.Name() == "close" || v.Name() == "panic" || v.Name() == "print" || v.Name() == "println" {
						return false
					}
				case *ssa.Function:
					var o *types.Func
					if oo, ok := v.Object().(*types.Func); ok {
						o = oo
					}
					if !isPureCall(fnPkgPath(v), funcShortName(v), o, v.Signature) && !P.inferredPure(v) {
						return false
					}
				default:
					return false
				}
			}
		}
	}
	return true
}

// constStringSlice: the elements of a package-level []string variable of the
// module whose only store is its initialisation with string constants and whose
// elements are never assigned (no store through an index of a load of it, no
// append result stored back). Cached per program.
func (P *Program) constStringSlice(name string) ([]string, bool) {
	if P.constSlices == nil {
		P.constSlices = map[string][]string{}
		P.constSliceNo = map[string]bool{}
		// writers outside init
		for _, fn := range P.AllFuncs {
			isInit := fn.Name() == "init" || strings.HasPrefix(fn.Name(), "init#")
			for _, b := range fn.Blocks {
				for _, ins := range b.Instrs {
					st, ok := ins.(*ssa.Store)
					if !ok {
						continue
					}
					if g, ok := st.Addr.(*ssa.Global); ok && !isInit {
						P.constSliceNo[globalName(g)] = true
					}
					if ia, ok := st.Addr.(*ssa.IndexAddr); ok {
						if u, ok := ia.X.(*ssa.UnOp); ok {
							if g, ok := u.X.(*ssa.Global); ok {
								P.constSliceNo[globalName(g)] = true
							}
						}
					}
				}
			}
		}
	}
	if P.constSliceNo[name] {
		return nil, false
	}
	if v, ok := P.constSlices[name]; ok {
		return v, v != nil
	}
	v, ok := P.GlobalStringSlice(name)
	if !ok || len(v) == 0 {
		P.constSlices[name] = nil
		return nil, false
	}
	P.constSlices[name] = v
	return v, true
}

// constantFunc: a parameterless, straight-line module function (a named literal:
// func oidcSessionParameters() []string { return []string{…} }) is traversed
// under every inline policy — it is the function spelling of a constant.
func constantFunc(fn *ssa.Function) bool {
	if fn.Signature.Recv() != nil || len(fn.Params) != 0 || len(fn.FreeVars) != 0 || len(fn.Blocks) != 1 || fn.Signature.Results().Len() != 1 {
		return false
	}
	// constants only: a list or a scalar (constructors returning objects keep their identity as calls)
	switch fn.Signature.Results().At(0).Type().Underlying().(type) {
	case *types.Slice, *types.Basic:
		return true
	}
	return false
}
