package main

import (
	"go/types"
	"sort"
	"strings"

	"golang.org/x/tools/go/ssa"
)

// Term is the canonical, structural abstraction of an SSA value (DESIGN 2.2).
// Two values denote the same thing for a rule iff their Key()s are equal.
type Term struct {
	Op   string // const nil param free global fn call icall ret field index len bin un slice new cell addr closure tuple lit unknown
	Name string
	Args []*Term
	key  string

	Fn     *ssa.Function // closure / fn
	Callee *types.Func   // call / icall
	Type   types.Type    // static type of the value where known
	Site   ssa.Instruction
	// Embedded: addr term of an embedded (anonymous) struct field
	Embedded bool
	// Clock: for a pure call evaluated on a path, the number of events that
	// preceded the evaluation (orders a read against later effects; not part of the key)
	Clock int
}

func (t *Term) Key() string {
	if t == nil {
		return "<nil-term>"
	}
	if t.key != "" {
		return t.key
	}
	var b strings.Builder
	switch t.Op {
	case "const":
		b.WriteString(t.Name)
	case "nil":
		b.WriteString("nil")
	case "icall":
		// impure call: identity is the site occurrence, arguments are informative only
		b.WriteString("@" + t.Name)
	default:
		if t.Op != "call" {
			b.WriteString(t.Op)
			if t.Name != "" {
				b.WriteString(":")
			}
		}
		b.WriteString(t.Name)
		if len(t.Args) > 0 {
			b.WriteString("(")
			for i, a := range t.Args {
				if i > 0 {
					b.WriteString(",")
				}
				b.WriteString(a.Key())
			}
			b.WriteString(")")
		}
	}
	t.key = b.String()
	return t.key
}

func (t *Term) String() string { return t.Key() }

// Pretty is Key with impure-call arguments spelled out one level (for diagnostics).
func (t *Term) Pretty() string {
	if t == nil {
		return "?"
	}
	if t.Op == "icall" {
		var as []string
		for _, a := range t.Args {
			as = append(as, a.Key())
		}
		return "@" + t.Name + "(" + strings.Join(as, ",") + ")"
	}
	return t.Key()
}

func mk(op, name string, args ...*Term) *Term { return &Term{Op: op, Name: name, Args: args} }

func tConst(s string) *Term { return &Term{Op: "const", Name: s} }
func tStr(s string) *Term   { return &Term{Op: "const", Name: `"` + s + `"`} }
func tInt(i int64) *Term    { return &Term{Op: "const", Name: itoa(i)} }

var tNil = &Term{Op: "nil"}
var tTrue = tConst("true")
var tFalse = tConst("false")
var tCtx = &Term{Op: "const", Name: "ctx"}

func itoa(i int64) string {
	neg := i < 0
	if neg {
		i = -i
	}
	if i == 0 {
		return "0"
	}
	var d []byte
	for i > 0 {
		d = append([]byte{byte('0' + i%10)}, d...)
		i /= 10
	}
	if neg {
		return "-" + string(d)
	}
	return string(d)
}

func (t *Term) IsConst() bool { return t != nil && (t.Op == "const" || t.Op == "nil") }

func (t *Term) IntConst() (int64, bool) {
	if t == nil || t.Op != "const" || t.Name == "" {
		return 0, false
	}
	s := t.Name
	neg := false
	if s[0] == '-' {
		neg = true
		s = s[1:]
	}
	if s == "" {
		return 0, false
	}
	var v int64
	for _, c := range s {
		if c < '0' || c > '9' {
			return 0, false
		}
		v = v*10 + int64(c-'0')
	}
	if neg {
		v = -v
	}
	return v, true
}

func (t *Term) StrConst() (string, bool) {
	if t == nil || t.Op != "const" || len(t.Name) < 2 || t.Name[0] != '"' {
		return "", false
	}
	return t.Name[1 : len(t.Name)-1], true
}

// call builds a pure call term by (short) callee name.
func call(name string, args ...*Term) *Term { return &Term{Op: "call", Name: name, Args: args} }

func ret(i int, t *Term) *Term {
	if t.Op == "tuple" && i < len(t.Args) {
		return t.Args[i]
	}
	return &Term{Op: "ret", Name: itoa(int64(i)), Args: []*Term{t}}
}

func field(x *Term, f string) *Term { return &Term{Op: "field", Name: f, Args: []*Term{x}} }

// Walk visits t and all sub-terms (including impure call arguments).
func (t *Term) Walk(f func(*Term) bool) {
	if t == nil {
		return
	}
	if !f(t) {
		return
	}
	for _, a := range t.Args {
		a.Walk(f)
	}
}

// Contains reports whether some sub-term has the given key.
func (t *Term) Contains(key string) bool {
	found := false
	t.Walk(func(s *Term) bool {
		if found {
			return false
		}
		if s.Key() == key {
			found = true
			return false
		}
		return true
	})
	return found
}

// Mentions reports whether some sub-term satisfies p.
func (t *Term) Mentions(p func(*Term) bool) bool {
	found := false
	t.Walk(func(s *Term) bool {
		if found {
			return false
		}
		if p(s) {
			found = true
			return false
		}
		return true
	})
	return found
}

// IsCall reports whether t is a (pure or impure) call of the named callee.
func (t *Term) IsCall(names ...string) bool {
	if t == nil || (t.Op != "call" && t.Op != "icall") {
		return false
	}
	n := t.Name
	if t.Op == "icall" {
		if i := strings.LastIndex(n, "#"); i >= 0 {
			n = n[:i]
		}
	}
	for _, x := range names {
		if n == x {
			return true
		}
	}
	return false
}

// CallName returns the callee name without the occurrence suffix.
func (t *Term) CallName() string {
	if t == nil || (t.Op != "call" && t.Op != "icall") {
		return ""
	}
	n := t.Name
	if t.Op == "icall" {
		if i := strings.LastIndex(n, "#"); i >= 0 {
			n = n[:i]
		}
	}
	return n
}

// ---------------------------------------------------------------- atoms

// Atom is a canonical atomic predicate over terms. Kinds: EQ(a,b) with ordered
// operands, LT(a,b), B(t) for a boolean-valued term.
type Atom struct {
	Kind string
	A, B *Term
	key  string
}

func (a *Atom) Key() string {
	if a.key == "" {
		switch a.Kind {
		case "B":
			a.key = "B[" + a.A.Key() + "]"
		default:
			a.key = a.Kind + "[" + a.A.Key() + " , " + a.B.Key() + "]"
		}
	}
	return a.key
}

func atomEQ(a, b *Term) *Atom {
	if a.Key() > b.Key() {
		a, b = b, a
	}
	return &Atom{Kind: "EQ", A: a, B: b}
}
func atomLT(a, b *Term) *Atom { return &Atom{Kind: "LT", A: a, B: b} }
func atomB(t *Term) *Atom     { return &Atom{Kind: "B", A: t} }

type Fact struct {
	Atom *Atom
	Pol  bool
}

func (f Fact) String() string {
	if f.Pol {
		return f.Atom.Key()
	}
	return "!" + f.Atom.Key()
}

// decompose turns a boolean term observed with polarity pol into canonical facts.
// Only conjunctive consequences are produced (a negated conjunction yields nothing
// but the literal itself) — DESIGN 2.3.
func decompose(t *Term, pol bool) []Fact {
	switch t.Op {
	case "un":
		if t.Name == "!" {
			return decompose(t.Args[0], !pol)
		}
	case "bin":
		a, b := t.Args[0], t.Args[1]
		switch t.Name {
		case "==":
			return eqFacts(a, b, pol)
		case "!=":
			return eqFacts(a, b, !pol)
		case "<":
			return ltFacts(a, b, pol)
		case ">":
			return ltFacts(b, a, pol)
		case "<=":
			return ltFacts(b, a, !pol)
		case ">=":
			return ltFacts(a, b, !pol)
		}
	case "call":
		switch t.Name {
		case "bytes.Equal", "hmac.Equal":
			return eqFacts(t.Args[0], t.Args[1], pol)
		case ".Equal":
			// symmetric (time.Time.Equal and friends): canonical operand order
			if len(t.Args) == 2 && t.Args[0].Key() > t.Args[1].Key() {
				return []Fact{{atomB(&Term{Op: "call", Name: ".Equal", Args: []*Term{t.Args[1], t.Args[0]}, Callee: t.Callee, Type: t.Type}), pol}}
			}
		case ".After":
			// time.Time: a.After(b) is b.Before(a)
			// (terms built by rules carry no callee)
			if len(t.Args) == 2 && (t.Callee == nil || t.Callee.Pkg() != nil && t.Callee.Pkg().Path() == "time") {
				return []Fact{{atomB(&Term{Op: "call", Name: ".Before", Args: []*Term{t.Args[1], t.Args[0]}, Callee: t.Callee, Type: t.Type}), pol}}
			}
		}
	case "const":
		return nil
	}
	return []Fact{{atomB(t), pol}}
}

func eqFacts(a, b *Term, pol bool) []Fact {
	// errorsx.WithStack(x) == nil  <=>  x == nil
	if b.Op == "nil" {
		for a.Op == "call" && (a.Name == "errorsx.WithStack" || a.Name == "errors.WithStack") && len(a.Args) == 1 {
			a = a.Args[0]
		}
	}
	if a.Op == "nil" {
		for b.Op == "call" && (b.Name == "errorsx.WithStack" || b.Name == "errors.WithStack") && len(b.Args) == 1 {
			b = b.Args[0]
		}
	}
	// subtle.ConstantTimeCompare(x,y) == 1
	if a.Op == "call" && a.Name == "subtle.ConstantTimeCompare" {
		if v, ok := b.IntConst(); ok && v == 1 {
			return eqFacts(a.Args[0], a.Args[1], pol)
		}
		if v, ok := b.IntConst(); ok && v == 0 {
			return eqFacts(a.Args[0], a.Args[1], !pol)
		}
	}
	if b.Op == "call" && b.Name == "subtle.ConstantTimeCompare" {
		return eqFacts(b, a, pol)
	}
	// boolean compared with constant
	if b.Op == "const" && (b.Name == "true" || b.Name == "false") {
		return decompose(a, pol == (b.Name == "true"))
	}
	if a.Op == "const" && (a.Name == "true" || a.Name == "false") {
		return decompose(b, pol == (a.Name == "true"))
	}
	// (X - c) == k  <=>  X == k+c
	if x, k, ok := unshift(a, b); ok {
		return []Fact{{atomEQ(x, tInt(k)), pol}}
	}
	if x, k, ok := unshift(b, a); ok {
		return []Fact{{atomEQ(x, tInt(k)), pol}}
	}
	// integer equality with a constant also refines the interval
	return []Fact{{atomEQ(a, b), pol}}
}

// unshift: a is X+c or X-c with an integer constant c and b an integer
// constant k: returns X and the constant X is compared with.
func unshift(a, b *Term) (*Term, int64, bool) {
	k, ok := b.IntConst()
	if !ok || a.Op != "bin" || len(a.Args) != 2 || (a.Name != "-" && a.Name != "+") {
		return nil, 0, false
	}
	c, ok := a.Args[1].IntConst()
	if !ok {
		return nil, 0, false
	}
	if _, isC := a.Args[0].IntConst(); isC {
		return nil, 0, false
	}
	if a.Name == "-" {
		return a.Args[0], k + c, true
	}
	return a.Args[0], k - c, true
}

// ltFacts: a < b with polarity pol. Comparisons against integer constants are
// normalised to LT(x, C) so that x < 43 and x <= 42 are the same fact.
func ltFacts(a, b *Term, pol bool) []Fact {
	// (X - c) < k  <=>  X < k+c ;  k < (X - c)  <=>  k+c < X
	if x, k, ok := unshift(a, b); ok {
		return ltFacts(x, tInt(k), pol)
	}
	if x, k, ok := unshift(b, a); ok {
		return ltFacts(tInt(k), x, pol)
	}
	if c, ok := a.IntConst(); ok {
		if _, ok2 := b.IntConst(); !ok2 {
			// c < b  ==  !(b < c+1)
			return []Fact{{atomLT(b, tInt(c+1)), !pol}}
		}
	}
	return []Fact{{atomLT(a, b), pol}}
}

// sortedKeys is a small helper for deterministic output.
func sortedKeys[M ~map[string]V, V any](m M) []string {
	ks := make([]string, 0, len(m))
	for k := range m {
		ks = append(ks, k)
	}
	sort.Strings(ks)
	return ks
}
