package main

import (
	"fmt"
	"os"
	"strings"
	"time"
)

func usage() {
	fmt.Fprintln(os.Stderr, `usage:
  fositelint check <property-id> <quick|thorough>
  fositelint dump <ssa function string> [inline-exported]
  fositelint funcs <substring>`)
	os.Exit(2)
}

func main() {
	if len(os.Args) < 2 {
		usage()
	}
	defer func() {
		if r := recover(); r != nil {
			fmt.Fprintf(os.Stderr, "fositelint: internal error (no verdict): %v\n", r)
			panic(r)
		}
	}()
	switch os.Args[1] {
	case "check":
		if len(os.Args) < 4 {
			usage()
		}
		os.Exit(runCheck(os.Args[2], os.Args[3], os.Args[4:]))
	case "overlay-run":
		// internal: fositelint overlay-run <mutant.json> <property-id>
		if len(os.Args) < 4 {
			usage()
		}
		os.Exit(runOverlay(os.Args[2], os.Args[3]))
	case "dump":
		t0 := time.Now()
		P, err := loadProgram(repoDir(), nil)
		if err != nil {
			fmt.Fprintln(os.Stderr, err)
			os.Exit(2)
		}
		fmt.Fprintf(os.Stderr, "loaded in %v\n", time.Since(t0))
		fn := P.Func(os.Args[2])
		if fn == nil {
			for _, f := range P.AllFuncs {
				if strings.Contains(f.String(), os.Args[2]) {
					fmt.Println(f.String())
				}
			}
			os.Exit(1)
		}
		cfg := ExploreConfig{}
		if len(os.Args) > 3 {
			switch os.Args[3] {
			case "all":
				cfg.Inline = func(f *ssaFunction) bool { return true }
			case "none":
				cfg.Inline = func(f *ssaFunction) bool { return f.Parent() != nil }
			case "strategy":
				stratProgram = P
				cfg = stratCfg()
			case "strategy7":
				stratProgram = P
				cfg = stratCfg(7)
			case "strategy2":
				stratProgram = P
				cfg = stratCfg(2)
			case "authn":
				cfg.Inline = authnInline(P)
				cfg.ForceInline = func(f *ssaFunction) bool { return f.String() == pkgJWT+".ParseWithClaims" }
			}
		}
		ex := P.Explore(fn, cfg)
		fmt.Printf("paths=%d dropped=%d steps=%d truncated=%q\n", len(ex.Paths), ex.Dropped, ex.Steps, ex.Truncated)
		for i, p := range ex.Paths {
			fmt.Printf("--- path %d kind=%s class=%d exit=%s\n", i, p.Kind, p.Classify(), P.Pos(p.ExitPos))
			for _, r := range p.Rets {
				fmt.Printf("   ret %s\n", clip(r.Pretty(), 300))
			}
			for _, f := range p.Facts {
				fmt.Printf("   fact %s\n", clip(f.String(), 300))
			}
			for _, e := range p.Events {
				if e.Kind == "pure" || e.Kind == "lstore" {
					continue
				}
				var as []string
				for _, a := range e.Args {
					as = append(as, clip(a.Key(), 120))
				}
				r := ""
				if e.Recv != nil {
					r = clip(e.Recv.Key(), 80)
				}
				fmt.Printf("   ev[%d] %s %s recv=%s args=%s @%s nf=%d\n", e.Idx, e.Kind, e.Name, r, strings.Join(as, " | "), P.Pos(e.Instr.Pos()), e.NFacts)
			}
		}
	case "purelist":
		P, err := loadProgram(repoDir(), nil)
		if err != nil {
			fmt.Fprintln(os.Stderr, err)
			os.Exit(2)
		}
		for _, f := range P.AllFuncs {
			if P.inferredPure(f) {
				fmt.Println(f.String())
			}
		}
	case "funcs":
		P, err := loadProgram(repoDir(), nil)
		if err != nil {
			fmt.Fprintln(os.Stderr, err)
			os.Exit(2)
		}
		for _, f := range P.AllFuncs {
			if len(os.Args) < 3 || strings.Contains(f.String(), os.Args[2]) {
				fmt.Println(f.String())
			}
		}
	default:
		usage()
	}
}
