package main

import (
	"fmt"
	"strings"

	"golang.org/x/tools/go/ssa"
)

func init() {
	register(&propInfo{
		ID:          "C01",
		Run:         runC01,
		MinObl:      21,
		Explanation: "Decided (structural necessary conditions of single-use + replay revocation): R1 in the code-redeem function the code is invalidated before any token session is created, the invalidate error is tested, both lie inside one open transaction and use the transaction context, and the invalidate key is the looked-up signature; R2 in the code-validate function the invalidated-code branch calls RevokeAccessToken and RevokeRefreshToken with the stored request's id and exits with an ErrInvalidGrant-derived error, and no success exit is reachable without the invalidated-code test having been evaluated false; R3 request-id continuity (SetID(GetID(stored)) on every success path of code-validate and refresh-validate; the requester persisted by the refresh-issue function carries GetID(request)); R4 the validate phase mutates storage only in the replay branch; R5 reference-store contract of MemoryStore (active flag written true only on create, invalidate stores active=false, lookup returns request+ErrInvalidatedAuthorizeCode exactly on !active, create writes table and request-id index, revoke resolves through the index). NOT decided: that every descendant token is inactive in every history (needs the store's dynamic state), other stores, concurrency of two redemptions (C19).",
	})
}

// codeValidateFns: validate-phase functions that look the authorization code up.
func (c *Ctx) codeValidateFns() []*ssa.Function {
	var out []*ssa.Function
	for _, f := range c.Calling(c.ValidateFns(), ".GetAuthorizeCodeSession") {
		// the PKCE and OIDC handlers do not look codes up in the code store; role = caller of the lookup
		out = append(out, f)
	}
	return out
}

func (c *Ctx) codeRedeemFns() []*ssa.Function {
	return c.Calling(c.IssueFns(), ".InvalidateAuthorizeCodeSession")
}

func runC01(c *Ctx) {
	defer checkFactoriesWireCollaborators(c, "C01.R7")
	defer checkCanHandleExact(c, "C01.R6")
	defer checkStoreKeyed(c, "C01.R5", storeRow{meth: "CreateAuthorizeCodeSession", table: "AuthorizeCodes", op: "create", key: 2}, storeRow{meth: "GetAuthorizeCodeSession", table: "AuthorizeCodes", op: "get", key: 2}, storeRow{meth: "InvalidateAuthorizeCodeSession", table: "AuthorizeCodes", op: "invalidate", key: 2})
	c01R1(c)
	c01R2(c)
	c01R3(c)
	c01R4(c)
	c01R5(c)
}

// txState computes for event e the transaction typestate on path p:
// "none" (no begin yet or begin failed), "open", "committed", "rolledback".
func txStateAt(p *Path, e *Event) (state string, begin *Event) {
	state = "none"
	for _, ev := range p.Events {
		if e != nil && ev.Idx >= e.Idx {
			break
		}
		if ev.Kind != "call" {
			continue
		}
		switch ev.Name {
		case "storage.MaybeBeginTx":
			state = "open"
			begin = ev
		case "storage.MaybeCommitTx":
			if state == "open" {
				state = "committed"
			}
		case "storage.MaybeRollbackTx":
			if state == "open" || state == "committed" {
				state = "rolledback"
			}
		}
	}
	return
}

func c01R1(c *Ctx) {
	const rule, role = "C01.R1", "code-redeem"
	fns := c.codeRedeemFns()
	if len(fns) == 0 {
		c.RoleUnmatched(rule, role, "issue-phase function calling InvalidateAuthorizeCodeSession")
		return
	}
	for _, fn := range fns {
		ex := c.Explore(fn, handlerCfg(), "handler")
		if !c.complete(ex, rule, role, fn) {
			continue
		}
		req := reqParam(fn)
		checkRedeemOrder(c, rule, role, fn, ex, ".InvalidateAuthorizeCodeSession", ".GetAuthorizeCodeSession",
			call(".AuthorizeCodeSignature", nil), form(req, "code"))
	}
}

// checkRedeemOrder is shared by the code flow (C01.R1) and the device flow (C16.R3).
func checkRedeemOrder(c *Ctx, rule, role string, fn *ssa.Function, ex *Exploration, invalidate, lookup string, _ *Term, rawCode *Term) {
	nCreate := 0
	okOrder, okErr, okTx, okCtx, okKey := true, true, true, true, true
	var wOrder, wErr, wTx, wCtx, wKey *Path
	var whyKey string
	for _, p := range ex.Paths {
		creates := p.Calls(".CreateAccessTokenSession", ".CreateRefreshTokenSession")
		invs := p.Calls(invalidate)
		for _, cr := range creates {
			nCreate++
			var inv *Event
			for _, i := range invs {
				if i.Idx < cr.Idx {
					inv = i
				}
			}
			if inv == nil {
				okOrder, wOrder = false, p
				continue
			}
			if !p.IsNilAt(cr, inv.Result) {
				okErr, wErr = false, p
			}
			st, begin := txStateAt(p, cr)
			sti, _ := txStateAt(p, inv)
			if st != "open" || sti != "open" || begin == nil || !p.IsNilAt(inv, begin.Ret(1)) {
				okTx, wTx = false, p
			} else {
				want := begin.Ret(0).Key()
				if cr.Ctx == nil || inv.Ctx == nil || cr.Ctx.Key() != want || inv.Ctx.Key() != want {
					okCtx, wCtx = false, p
				}
			}
		}
		for _, inv := range invs {
			lk := p.First(lookup)
			if lk != nil {
				if inv.Arg(1).Key() != lk.Arg(1).Key() {
					okKey, wKey = false, p
					whyKey = fmt.Sprintf("invalidate key %s differs from lookup key %s", inv.Arg(1).Pretty(), lk.Arg(1).Pretty())
				}
			} else if rawCode != nil {
				k := inv.Arg(1)
				if r, ok := sigRaw(k); !ok || r.Key() != rawCode.Key() {
					okKey, wKey = false, p
					whyKey = fmt.Sprintf("invalidate key %s is not the signature of the presented credential %s", k.Pretty(), rawCode.Pretty())
				}
			}
		}
	}
	if nCreate == 0 {
		c.Bad(rule, role, fn, "creates", "the redeem function creates token sessions", "no Create{Access,Refresh}TokenSession call on any path", nil)
		return
	}
	c.Check(okOrder, rule, role, fn, "invalidate-precedes-create", "every Create{Access,Refresh}TokenSession is preceded by "+invalidate+" on its path", "a token session is created on a path that has not invalidated the credential", wOrder)
	c.Check(okErr, rule, role, fn, "invalidate-error-tested", "no token session is created after a failed "+invalidate, "a create executes without the invalidate error being known nil", wErr)
	c.Check(okTx, rule, role, fn, "inside-transaction", invalidate+" and the creates execute in transaction state Open (after a successful MaybeBeginTx, before commit/rollback)", "invalidate or create outside the open transaction", wTx)
	c.Check(okCtx, rule, role, fn, "transaction-context", "invalidate and creates receive the context returned by MaybeBeginTx", "a storage write of the issuing transaction uses a different context than the one MaybeBeginTx returned", wCtx)
	c.Check(okKey, rule, role, fn, "invalidate-key", "the invalidate key is term-equal to the key used for the lookup of the same credential", whyKey, wKey)
}

func c01R2(c *Ctx) {
	const rule, role = "C01.R2", "code-validate"
	fns := c.codeValidateFns()
	if len(fns) == 0 {
		c.RoleUnmatched(rule, role, "validate-phase function calling GetAuthorizeCodeSession")
		return
	}
	for _, fn := range fns {
		ex := c.Explore(fn, handlerCfg(), "handler")
		if !c.complete(ex, rule, role, fn) {
			continue
		}
		checkReplayBranch(c, rule, role, fn, ex, ".GetAuthorizeCodeSession", []string{"fosite.ErrInvalidatedAuthorizeCode"}, false)
	}
}

// checkReplayBranch: shared by C01.R2 (code) and C16.R4 (device).
// On every path where errors.Is(lookupErr, <invalidated>) holds and the stored
// request is non-nil: both revokes run with GetID(stored) and the exit is an
// ErrInvalidGrant-derived failure. On success paths the invalidated test was
// evaluated (false) for every listed error.
func checkReplayBranch(c *Ctx, rule, role string, fn *ssa.Function, ex *Exploration, lookup string, invalidated []string, requireAllTested bool) {
	nReplay := 0
	okAT, okRT, okID, okExit, okTested, okClass := true, true, true, true, true, true
	var wAT, wRT, wID, wExit, wTested, wClass *Path
	var whyID, whyExit string
	for _, p := range ex.Paths {
		lk := p.First(lookup)
		if lk == nil {
			continue
		}
		stored, lerr := lk.Ret(0), lk.Ret(1)
		isReplay := false
		classified := p.IsNil(lerr)
		for _, g := range invalidated {
			a := atomB(call("errors.Is", lerr, &Term{Op: "global", Name: g}))
			if p.Holds(a, true) {
				isReplay = true
			}
			if _, known := p.idx[a.Key()]; known {
				classified = true
			}
		}
		// no exit may be taken after the lookup before its error was classified: a replayed
		// credential comes back with the stored request AND the invalidated error, so any
		// check that runs first (client, redirect_uri, ...) could refuse the replay without revoking
		if p.Kind == "return" && !classified {
			okClass, wClass = false, p
		}
		if isReplay && p.Holds(atomEQ(stored, tNil), false) {
			nReplay++
			at := p.First(".RevokeAccessToken")
			rt := p.First(".RevokeRefreshToken")
			if at == nil {
				okAT, wAT = false, p
			}
			if rt == nil {
				okRT, wRT = false, p
			}
			want := getID(stored).Key()
			for _, e := range []*Event{at, rt} {
				if e != nil && e.Arg(1).Key() != want {
					okID, wID = false, p
					whyID = fmt.Sprintf("%s is called with %s, not with the stored request's id %s", e.Name, e.Arg(1).Pretty(), want)
				}
			}
			if p.Classify() != ExitFail || errorRoot(p.ErrRet()) != "fosite.ErrInvalidGrant" {
				okExit, wExit = false, p
				whyExit = fmt.Sprintf("replay branch exits with %s (class %d)", p.ErrRet().Pretty(), p.Classify())
			}
		}
		if p.Success() && p.Kind == "return" {
			// success requires: lookup error nil and (if required) each invalidated test evaluated false
			if !p.IsNil(lerr) {
				okTested, wTested = false, p
			}
			if requireAllTested {
				for _, g := range invalidated {
					if !p.Holds(atomB(call("errors.Is", lerr, &Term{Op: "global", Name: g})), false) {
						okTested, wTested = false, p
					}
				}
			}
		}
	}
	if nReplay == 0 {
		c.Bad(rule, role, fn, "replay-branch", "a branch guarded by errors.Is(lookup error, invalidated) with a non-nil stored request exists", "no path carries the invalidated-credential literal: replay is not detected", nil)
		return
	}
	c.Check(okAT, rule, role, fn, "replay-revokes-access", "the replay branch calls RevokeAccessToken", "a replay path does not call RevokeAccessToken", wAT)
	c.Check(okRT, rule, role, fn, "replay-revokes-refresh", "the replay branch calls RevokeRefreshToken", "a replay path does not call RevokeRefreshToken", wRT)
	c.Check(okID, rule, role, fn, "replay-revoke-id", "both revokes take GetID of the stored request", whyID, wID)
	c.Check(okExit, rule, role, fn, "replay-exit", "the replay branch is a fail exit derived from ErrInvalidGrant", whyExit, wExit)
	c.Check(okClass, rule, role, fn, "replay-classified-first", "every exit after the lookup is taken only once the lookup error was classified (nil, or tested against the invalidated error): no other check can pre-empt replay detection", "an exit is reachable after the lookup without its error having been tested against the invalidated-credential error", wClass)
	c.Check(okTested, rule, role, fn, "success-needs-clean-lookup", "success exits require a nil lookup error with the invalidated test evaluated false", "a success exit is reachable without the lookup error having been classified", wTested)
}

func c01R3(c *Ctx) {
	const rule = "C01.R3"
	type rl struct {
		role, lookup string
		fns          []*ssa.Function
	}
	roles := []rl{
		{"code-validate", ".GetAuthorizeCodeSession", c.codeValidateFns()},
		{"refresh-validate", ".GetRefreshTokenSession", c.Calling(c.ValidateFns(), ".GetRefreshTokenSession")},
	}
	for _, r := range roles {
		checkSetID(c, rule, r.role, r.lookup, r.fns)
	}
	// refresh-issue: the persisted requester carries GetID(request)
	fns := c.Calling(c.IssueFns(), ".RotateRefreshToken")
	if len(fns) == 0 {
		c.RoleUnmatched(rule, "refresh-issue", "issue-phase function calling RotateRefreshToken")
	}
	for _, fn := range fns {
		ex := c.Explore(fn, handlerCfg(), "handler")
		if !c.complete(ex, rule, "refresh-issue", fn) {
			continue
		}
		req := reqParam(fn)
		ok := true
		var w *Path
		var why string
		for _, p := range ex.Paths {
			for _, e := range p.Calls(".CreateAccessTokenSession", ".CreateRefreshTokenSession") {
				st := e.Arg(len(e.Args) - 1)
				if !carriesIDOf(p, e, st, req) {
					ok, w = false, p
					why = fmt.Sprintf("%s persists %s which does not carry the id of the request", e.Name, st.Pretty())
				}
			}
		}
		c.Check(ok, rule, "refresh-issue", fn, "stored-id", "sessions created on refresh are stored under the id of the refreshed grant (Sanitize copies it, or SetID(GetID(request)))", why, w)
	}
}

// carriesIDOf: stored is Sanitize(req, ·) (Request.Sanitize copies the id) and no
// later SetID changed it to something else, or SetID(stored, GetID(req)) ran before e.
func carriesIDOf(p *Path, at *Event, stored, req *Term) bool {
	base := stored.IsCall(".Sanitize") && len(stored.Args) > 0 && stored.Args[0].Key() == req.Key() || stored.Key() == req.Key()
	okv := base
	for _, e := range p.Calls(".SetID") {
		if e.Idx > at.Idx {
			break
		}
		if e.Recv != nil && e.Recv.Key() == stored.Key() {
			okv = e.Arg(0).Key() == getID(req).Key()
		}
	}
	return okv
}

func c01R4(c *Ctx) { codeValidateReadOnly(c, "C01.R4") }

func codeValidateReadOnly(c *Ctx, rule string) {
	const role = "code-validate"
	for _, fn := range c.codeValidateFns() {
		ex := c.Explore(fn, handlerCfg(), "handler")
		if !c.complete(ex, rule, role, fn) {
			continue
		}
		ok := true
		var w *Path
		var why string
		for _, p := range ex.Paths {
			lk := p.First(".GetAuthorizeCodeSession")
			for _, e := range p.Events {
				if e.Kind != "call" || !storageMutators[e.Name] {
					continue
				}
				inReplay := false
				if lk != nil && (e.Name == ".RevokeAccessToken" || e.Name == ".RevokeRefreshToken") {
					inReplay = p.HoldsAt(e, atomB(call("errors.Is", lk.Ret(1), &Term{Op: "global", Name: "fosite.ErrInvalidatedAuthorizeCode"})), true)
				}
				if !inReplay {
					ok, w = false, p
					why = fmt.Sprintf("%s is called in the validate phase outside the replay branch (%s)", e.Name, c.P.Pos(e.Instr.Pos()))
				}
			}
		}
		c.Check(ok, rule, role, fn, "validate-read-only", "the validate phase mutates storage only by revoking in the invalidated-code branch (a failed presentation must not consume the code)", why, w)
	}
}

// ---------------------------------------------------------------- store contract

func storeMethod(c *Ctx, name string) *ssa.Function {
	return c.P.Func("(*" + pkgStorage + ".MemoryStore)." + name)
}

func storeCfg() ExploreConfig {
	return ExploreConfig{Inline: func(fn *ssa.Function) bool {
		return defaultInline(fn) || fnPkgPath(fn) == pkgStorage
	}}
}

func c01R5(c *Ctx) {
	const rule, role = "C01.R5", "store"
	// who may write active=true in StoreAuthorizeCode / StoreRefreshToken
	checkActiveWriters(c, rule, "AuthorizeCodes", "CreateAuthorizeCodeSession")
	// Invalidate stores active=false
	if fn := storeMethod(c, "InvalidateAuthorizeCodeSession"); fn != nil {
		ex := c.Explore(fn, storeCfg(), "store")
		ok := false
		bad := false
		for _, p := range ex.Paths {
			if !p.Success() {
				continue
			}
			wrote := false
			for _, e := range p.Events {
				// the record keeps everything but the flag: the replay branch revokes by the stored
				// request's id, so the invalidated entry must still be the request that was stored
				if e.Kind == "lstore" && e.Name != "active" && len(e.Args) == 2 && typeShortOfAddr(e.Args[0]) == "StoreAuthorizeCode" {
					bad = true
				}
				if e.Kind == "mapupdate" && isStoreMap(e.Args[0], "AuthorizeCodes") {
					if activeOf(p, e.Args[2], e) == "false" {
						wrote = true
					} else {
						bad = true
					}
				}
			}
			if wrote {
				ok = true
			} else {
				bad = true
			}
		}
		c.Check(ok && !bad, rule, role, fn, "invalidate-deactivates", "every success path of InvalidateAuthorizeCodeSession stores the record it found with active=false and nothing else changed", "a success path does not store active=false, or rewrites another field of the record", nil)
	} else {
		c.RoleUnmatched(rule, "store.InvalidateAuthorizeCodeSession", "MemoryStore method")
	}
	// Get returns (request, ErrInvalidatedAuthorizeCode) exactly on !active
	if fn := storeMethod(c, "GetAuthorizeCodeSession"); fn != nil {
		ex := c.Explore(fn, storeCfg(), "store")
		checkInactiveLookup(c, rule, fn, ex, "fosite.ErrInvalidatedAuthorizeCode")
	} else {
		c.RoleUnmatched(rule, "store.GetAuthorizeCodeSession", "MemoryStore method")
	}
	// Create{Access,Refresh}TokenSession write table and index
	for _, m := range []struct{ meth, table, index string }{
		{"CreateAccessTokenSession", "AccessTokens", "AccessTokenRequestIDs"},
		{"CreateRefreshTokenSession", "RefreshTokens", "RefreshTokenRequestIDs"},
	} {
		fn := storeMethod(c, m.meth)
		if fn == nil {
			c.RoleUnmatched(rule, "store."+m.meth, "MemoryStore method")
			continue
		}
		ex := c.Explore(fn, storeCfg(), "store")
		ok := len(ex.Paths) > 0
		why := ""
		for _, p := range ex.Paths {
			if !p.Success() {
				continue
			}
			var tbl, idx *Event
			for _, e := range p.Events {
				if e.Kind == "mapupdate" && isStoreMap(e.Args[0], m.table) {
					tbl = e
				}
				if e.Kind == "mapupdate" && isStoreMap(e.Args[0], m.index) {
					idx = e
				}
			}
			if tbl == nil || idx == nil {
				ok = false
				why = "a success path does not write both " + m.table + " and " + m.index
				continue
			}
			sig := paramNamed(fn, 2) // signature is the first string parameter after ctx
			reqT := lastParam(fn)
			if tbl.Args[1].Key() != sig.Key() {
				ok = false
				why = "table key is " + tbl.Args[1].Pretty() + ", not the signature parameter"
			}
			if idx.Args[1].Key() != getID(reqT).Key() || idx.Args[2].Key() != sig.Key() {
				ok = false
				why = "index entry is " + idx.Args[1].Pretty() + " -> " + idx.Args[2].Pretty() + ", expected req.GetID() -> signature"
			}
		}
		c.Check(ok, rule, role, fn, "create-writes-table-and-index", m.meth+" stores the session under the signature and records request-id -> signature", why, nil)
	}
	// Revoke resolves the id through the index
	for _, m := range []struct{ meth, index string }{
		{"RevokeAccessToken", "AccessTokenRequestIDs"},
		{"RevokeRefreshToken", "RefreshTokenRequestIDs"},
	} {
		fn := storeMethod(c, m.meth)
		if fn == nil {
			c.RoleUnmatched(rule, "store."+m.meth, "MemoryStore method")
			continue
		}
		ex := c.Explore(fn, storeCfg(), "store")
		ok := false
		for _, p := range ex.Paths {
			for _, e := range p.Events {
				if e.Kind == "maplookup" && isStoreMap(e.Args[0], m.index) && e.Args[1].Key() == paramNamed(fn, 2).Key() {
					ok = true
				}
			}
		}
		c.Check(ok, rule, role, fn, "revoke-uses-index", m.meth+" resolves its requestID argument through "+m.index, "the request-id index is not consulted with the requestID parameter", nil)
	}
}

// paramNamed returns the i-th parameter term (receiver is 0).
func paramNamed(fn *ssa.Function, i int) *Term {
	if i < len(fn.Params) {
		return paramTerm(i, fn.Params[i])
	}
	return mk("unknown", "noparam")
}

func lastParam(fn *ssa.Function) *Term { return paramNamed(fn, len(fn.Params)-1) }

// isStoreMap: term denotes field <name> of the receiver (param 0).
func isStoreMap(t *Term, name string) bool {
	return t != nil && t.Op == "field" && t.Name == name && len(t.Args) == 1 && t.Args[0].Op == "param"
}

// activeOf extracts the value of field "active" of a struct value term built on
// the path: either a local cell whose field was stored, or a literal.
// activeOf: the value of field active of the struct value v as of event `at` (stores after the
// map update do not reach the stored copy).
func activeOf(p *Path, v *Term, at ...*Event) string {
	// struct values are loaded from a cell: find the last lstore to addr:active(<cell>) — the
	// explorer records them as lstore events.
	var root *Term
	v.Walk(func(t *Term) bool {
		if t.Op == "cell" && root == nil {
			root = t
		}
		return true
	})
	res := "unknown"
	for _, e := range p.Events {
		if len(at) > 0 && at[0] != nil && e.Idx > at[0].Idx {
			break
		}
		if e.Kind != "lstore" || e.Name != "active" {
			continue
		}
		if root == nil || addrRoot(e.Args[0]).Key() == root.Key() {
			if e.Args[1].Op == "const" {
				res = e.Args[1].Name
			} else {
				res = "unknown"
			}
		}
	}
	return res
}

func checkActiveWriters(c *Ctx, rule, table, allowed string) {
	// every store of constant true into a field named "active" must be in the allowed method
	n := 0
	for _, fn := range c.P.MethodsOf(pkgStorage, "MemoryStore") {
		for _, b := range fn.Blocks {
			for _, ins := range b.Instrs {
				st, ok := ins.(*ssa.Store)
				if !ok {
					continue
				}
				fa, ok := st.Addr.(*ssa.FieldAddr)
				if !ok || fieldName(fa.X.Type(), fa.Field) != "active" {
					continue
				}
				owner := typeShort(fa.X.Type())
				want := map[string]string{"AuthorizeCodes": "*storage.StoreAuthorizeCode", "RefreshTokens": "*storage.StoreRefreshToken"}[table]
				if owner != want {
					continue
				}
				isTrue := false
				if k, ok := st.Val.(*ssa.Const); ok && k.Value != nil && k.Value.String() == "true" {
					isTrue = true
				}
				_, isConst := st.Val.(*ssa.Const)
				if isTrue || !isConst {
					n++
					if fn.Name() != allowed {
						c.BadAt(rule, "store", fn, "active-writer:"+table, "only "+allowed+" may mark a "+table+" record active", "writes active with a non-false value", c.P.Pos(st.Pos()), nil)
					} else {
						c.OK(rule, "store", fn, "active-writer:"+table, "only "+allowed+" may mark a "+table+" record active")
					}
				}
			}
		}
	}
	if n == 0 {
		c.RoleUnmatched(rule, "store.active-writer:"+table, "a MemoryStore method that stores active=true into "+table)
	}
}

// checkInactiveLookup: the lookup returns (non-nil request, errName) exactly on
// the !active path, (nil, ErrNotFound) when missing, and nil error otherwise.
func checkInactiveLookup(c *Ctx, rule string, fn *ssa.Function, ex *Exploration, errName string) {
	sawInactive := false
	ok := true
	why := ""
	for _, p := range ex.Paths {
		if p.Kind != "return" || len(p.Rets) != 2 {
			continue
		}
		root := errorRoot(p.Rets[1])
		// the literal on 'active'
		var activeTrue, activeFalse bool
		for _, f := range p.Facts {
			if f.Atom.Kind == "B" && f.Atom.A.Op == "field" && f.Atom.A.Name == "active" {
				if f.Pol {
					activeTrue = true
				} else {
					activeFalse = true
				}
			}
		}
		switch {
		case root == errName:
			sawInactive = true
			if !activeFalse {
				ok = false
				why = errName + " is returned on a path that did not test active==false"
			}
			if p.Rets[0].Op == "nil" {
				ok = false
				why = errName + " is returned without the stored request"
			}
		case p.Rets[1].Op == "nil":
			if !activeTrue {
				ok = false
				why = "a nil error is returned without active having been tested true"
			}
		}
	}
	if !sawInactive {
		ok = false
		why = "no path returns " + errName
	}
	c.Check(ok, rule, "store", fn, "lookup-reports-inactive", "the lookup returns the stored request together with "+errName+" exactly when the record is inactive", why, nil)
}

// checkSetID: on every success path through the lookup, request.SetID(GetID(stored)) ran.
func checkSetID(c *Ctx, rule, role, lookup string, fns []*ssa.Function) {
	if len(fns) == 0 {
		c.RoleUnmatched(rule, role, "validate-phase function calling "+lookup)
		return
	}
	for _, fn := range fns {
		ex := c.Explore(fn, handlerCfg(), "handler")
		if !c.complete(ex, rule, role, fn) {
			continue
		}
		req := reqParam(fn)
		ok := true
		var w *Path
		n := 0
		for _, p := range ex.Paths {
			if !p.Success() || p.Kind != "return" {
				continue
			}
			lk := p.First(lookup)
			if lk == nil {
				continue
			}
			n++
			found := false
			for _, e := range p.Calls(".SetID") {
				if e.Recv != nil && e.Recv.Key() == req.Key() && e.Arg(0).Key() == getID(lk.Ret(0)).Key() {
					found = true
				}
			}
			if !found {
				ok, w = false, p
			}
		}
		if n == 0 {
			c.Bad(rule, role, fn, "setid", "success paths through the lookup exist", "no success path after the lookup", nil)
			continue
		}
		c.Check(ok, rule, role, fn, "setid", "on every success path the request id is set to GetID of the stored request (tokens are indexed under the grant's id)", "a success path does not execute request.SetID(stored.GetID())", w)
	}
}

// typeShortOfAddr: the name of the struct type a field address belongs to ("" if unknown).
func typeShortOfAddr(a *Term) string {
	if a == nil || a.Op != "addr" || len(a.Args) != 1 || a.Args[0].Type == nil {
		return ""
	}
	t := a.Args[0].Type.String()
	t = strings.TrimPrefix(t, "*")
	if i := strings.LastIndex(t, "."); i >= 0 {
		t = t[i+1:]
	}
	return t
}
