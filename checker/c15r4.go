package main

import (
	"fmt"
	"sort"
	"strings"

	"golang.org/x/tools/go/ssa"
)

// C15.R4 — a jti is remembered for as long as the assertion that carried it is
// still acceptable. The property "a given jti is accepted at most once" depends
// on two comparisons of the same exp with the current time made in different
// places: the acceptance test (jwt.verifyExp for client assertions, the expiry
// test of the JWT-bearer handler) and the reference store's retention tests
// (ClientAssertionJWTValid reports a jti as known, SetClientAssertionJWT purges
// entries). Both touch the instants only through comparisons, so the behaviour
// is decided on a finite set of orderings of "now" against exp (an integral
// number of seconds E):
//
//	r1: now < E     r2: now == E     r3: E < now < E+1s     r4: now >= E+1s
//
// A comparison of int64 seconds sees floor(now) (r2 and r3 both read "equal"),
// a comparison of time.Time values sees the instant. The rule computes, from
// the path facts of each function, the regions in which an assertion is
// accepted (A), the regions in which a recorded jti is still reported as known
// (K) and the regions in which the store purges the record (P), and requires
// A ⊆ K and A ∩ P = ∅ for every acceptor.
type region int

var regionNames = []string{"now<exp", "now==exp", "exp<now<exp+1s", "now>=exp+1s"}

// relation of the compared "now" to exp in a region: -1 less, 0 equal, +1 greater
func regionRel(seconds bool, r region) int {
	switch r {
	case 0:
		return -1
	case 1:
		return 0
	case 2:
		if seconds {
			return 0
		}
		return 1
	}
	return 1
}

// tri-state truth of a literal in a region
const (
	triF = iota
	triT
	triM
)

// shifted splits t into a base and a constant offset in nanoseconds through
// time.Time.Add (known=false: the offset is not a constant).
func shifted(t *Term) (base *Term, off int64, known bool) {
	base, known = t, true
	for base.IsCall(".Add") && len(base.Args) == 2 {
		c, ok := base.Args[1].IntConst()
		if !ok {
			known = false
		}
		off += c
		base = base.Args[0]
	}
	// conversions that do not move the instant
	for base.IsCall(".UTC", ".Local", ".Round", ".Truncate") && len(base.Args) >= 1 {
		if !base.IsCall(".UTC", ".Local") {
			known = false
		}
		base = base.Args[0]
	}
	return
}

// timeFactEval gives the truth of the atom of f (before polarity) when the
// compared now stands in relation rel to exp. Atoms that do not compare now
// with exp are irrelevant. A constant shift of either side (now.Add(d),
// exp.Add(d)) is folded into d = shift(exp) - shift(now); a non-constant shift
// makes the atom undetermined.
func timeFactEval(f Fact, isNow, isExp func(*Term) bool, seconds bool, r region) (relevant bool, val int) {
	var a, b *Term
	kind := ""
	switch f.Atom.Kind {
	case "LT":
		a, b, kind = f.Atom.A, f.Atom.B, "lt"
	case "EQ":
		a, b, kind = f.Atom.A, f.Atom.B, "eq"
	case "B":
		t := f.Atom.A
		if t.IsCall(".Before") && len(t.Args) == 2 {
			a, b, kind = t.Args[0], t.Args[1], "lt"
		} else if t.IsCall(".Equal") && len(t.Args) == 2 {
			a, b, kind = t.Args[0], t.Args[1], "eq"
		} else {
			return false, triM
		}
	default:
		return false, triM
	}
	ab, ao, ak := shifted(a)
	bb, bo, bk := shifted(b)
	var d int64 // exp is effectively exp+d
	nowLeft := false
	switch {
	case isNow(ab) && isExp(bb):
		nowLeft, d = true, bo-ao
	case isExp(ab) && isNow(bb):
		d = ao - bo
	default:
		return false, triM
	}
	if !ak || !bk {
		return true, triM
	}
	const sec = int64(1000000000)
	tri := func(b bool) int {
		if b {
			return triT
		}
		return triF
	}
	if d == 0 {
		rel := regionRel(seconds, r)
		switch {
		case kind == "eq":
			return true, tri(rel == 0)
		case nowLeft:
			return true, tri(rel < 0)
		default:
			return true, tri(rel > 0)
		}
	}
	if kind == "eq" {
		return true, triM
	}
	// now < exp+d  (nowLeft)   /   exp+d < now
	var lt int // truth of now < exp+d
	switch {
	case d > 0:
		switch r {
		case 0, 1:
			lt = triT
		case 2:
			lt = triM
			if d >= sec {
				lt = triT
			}
		default:
			lt = triM
		}
	default: // d < 0
		if r == 0 {
			lt = triM
		} else {
			lt = triF
		}
	}
	if nowLeft {
		return true, lt
	}
	// exp+d < now: the negation of now <= exp+d; at the resolution of the regions the
	// boundary instant is undetermined unless the strict form already decides it
	switch lt {
	case triT:
		return true, triF
	case triF:
		return true, triT
	}
	return true, triM
}

// regionsOf: the regions in which the path's time literals surely hold (sure)
// and possibly hold (maybe).
func regionsOf(p *Path, isNow, isExp func(*Term) bool, seconds bool) (sure, maybe [4]bool, relevant bool) {
	for r := region(0); r < 4; r++ {
		s, m := true, true
		for _, f := range p.Facts {
			rel, v := timeFactEval(f, isNow, isExp, seconds, r)
			if !rel {
				continue
			}
			relevant = true
			want := triF
			if f.Pol {
				want = triT
			}
			if v == triM {
				s = false
			} else if v != want {
				s, m = false, false
			}
		}
		sure[r], maybe[r] = s, m
	}
	return
}

func regionList(s [4]bool) string {
	var out []string
	for i, v := range s {
		if v {
			out = append(out, regionNames[i])
		}
	}
	if len(out) == 0 {
		return "∅"
	}
	return strings.Join(out, ", ")
}

func c15R4(c *Ctx) {
	const rule = "C15.R4"
	// ---- retention side (reference store)
	var K, P [4]bool
	haveK, haveP := false, false
	var storeFns []*ssa.Function
	if fn := storeMethod(c, "ClientAssertionJWTValid"); fn != nil {
		storeFns = append(storeFns, fn)
		ex := c.Explore(fn, storeCfg(), "store")
		if c.complete(ex, rule, "store", fn) {
			isNow := mentionsNow
			isExp := func(t *Term) bool {
				return !mentionsNow(t) && t.Mentions(func(s *Term) bool { return s.Op == "lookup" })
			}
			for _, p := range ex.Paths {
				if p.Kind != "return" || len(p.Rets) != 1 || errorRoot(p.Rets[0]) != "fosite.ErrJTIKnown" {
					continue
				}
				s, _, rel := regionsOf(p, isNow, isExp, false)
				if !rel {
					// known without a time test: remembered for ever
					s = [4]bool{true, true, true, true}
				}
				haveK = true
				for i := range K {
					K[i] = K[i] || s[i]
				}
			}
		}
	} else {
		c.RoleUnmatched(rule, "store", "(*MemoryStore).ClientAssertionJWTValid")
	}
	if fn := storeMethod(c, "SetClientAssertionJWT"); fn != nil {
		storeFns = append(storeFns, fn)
		ex := c.Explore(fn, storeCfg(), "store")
		if c.complete(ex, rule, "store", fn) {
			haveP = true
			for _, p := range ex.Paths {
				for _, e := range p.Events {
					if e.Kind != "mapdelete" || !isStoreMap(e.Args[0], "BlacklistedJTIs") {
						continue
					}
					// the facts that guard this delete compare the entry's expiry with now
					sub := &Path{Facts: p.Facts[:e.NFacts]}
					// only the literal about the deleted entry counts: rangeval with the same index as the key
					key := e.Args[1]
					isExp := func(t *Term) bool {
						return !mentionsNow(t) && t.Op == "rangeval" && key.Op == "rangekey" && len(t.Args) == 2 && len(key.Args) == 2 && t.Args[1].Key() == key.Args[1].Key()
					}
					_, s, rel := regionsOf(sub, mentionsNow, isExp, false)
					if !rel {
						s = [4]bool{true, true, true, true}
					}
					for i := range P {
						P[i] = P[i] || s[i]
					}
				}
			}
		}
	} else {
		c.RoleUnmatched(rule, "store", "(*MemoryStore).SetClientAssertionJWT")
	}
	if !haveK || !haveP {
		c.RoleUnmatched(rule, "store", "known-jti exit of ClientAssertionJWTValid and purge loop of SetClientAssertionJWT")
		return
	}
	// ---- acceptance side
	type acceptor struct {
		fn   *ssa.Function
		what string
		A    [4]bool
		n    int
	}
	var accs []*acceptor
	// (a) client assertions and every MapClaims JWT: jwt.verifyExp on int64 seconds
	if fn := c.P.Func(pkgJWT + ".verifyExp"); fn != nil {
		ex := c.Explore(fn, ExploreConfig{}, "jwt")
		if c.complete(ex, rule, "acceptor", fn) {
			x, now := paramNamed(fn, 0), paramNamed(fn, 1)
			a := &acceptor{fn: fn, what: "jwt.verifyExp (client assertions; whole seconds)"}
			for _, p := range ex.Paths {
				if p.Kind != "return" || len(p.Rets) != 1 || p.Rets[0].Key() != tTrue.Key() || p.Eq(x, tInt(0)) {
					continue
				}
				_, s, rel := regionsOf(p, func(t *Term) bool { return t.Key() == now.Key() }, func(t *Term) bool { return t.Key() == x.Key() }, true)
				if !rel {
					s = [4]bool{true, true, true, true}
				}
				a.n++
				for i := range s {
					a.A[i] = a.A[i] || s[i]
				}
			}
			accs = append(accs, a)
		}
	} else {
		c.RoleUnmatched(rule, "acceptor", pkgJWT+".verifyExp")
	}
	// (b) JWT-bearer grant: the handler's own expiry test on time.Time
	for _, f := range c.ValidateFns() {
		if recvTypeName(f) != pkgJWTB+".Handler" {
			continue
		}
		ex := c.Explore(f, handlerCfg(), "handler")
		if !c.complete(ex, rule, "acceptor", f) {
			continue
		}
		a := &acceptor{fn: f, what: "JWT-bearer expiry test (time.Time)"}
		isExp := func(t *Term) bool {
			return !mentionsNow(t) && t.Mentions(func(s *Term) bool { return s.Op == "field" && s.Name == "Expiry" }) && !t.Mentions(func(s *Term) bool { return s.Op == "field" && s.Name == "IssuedAt" || s.IsCall(".GetJWTMaxDuration") })
		}
		for _, p := range ex.Paths {
			if p.Kind != "return" || !p.Success() || p.First(".MarkJWTUsedForTime") == nil {
				continue
			}
			_, s, rel := regionsOf(p, mentionsNow, isExp, false)
			if !rel {
				s = [4]bool{true, true, true, true}
			}
			a.n++
			for i := range s {
				a.A[i] = a.A[i] || s[i]
			}
		}
		accs = append(accs, a)
	}
	if len(accs) < 2 {
		c.RoleUnmatched(rule, "acceptor", fmt.Sprintf("jwt.verifyExp and the JWT-bearer validate function; found %d", len(accs)))
	}
	sort.Slice(accs, func(i, j int) bool { return accs[i].fn.String() < accs[j].fn.String() })
	for _, a := range accs {
		if a.n == 0 {
			c.Bad(rule, "acceptor", a.fn, "retained-while-acceptable", "the acceptor has an accepting path", "none found", nil)
			continue
		}
		var bad []string
		for r := 0; r < 4; r++ {
			if a.A[r] && !K[r] {
				bad = append(bad, regionNames[r]+": still accepted but the store no longer reports the jti as known")
			}
			if a.A[r] && P[r] {
				bad = append(bad, regionNames[r]+": still accepted but the store already purges the jti")
			}
		}
		desc := fmt.Sprintf("a recorded jti stays known for as long as its assertion is accepted: accepted(%s) ⊆ known(%s) and disjoint from purged(%s) — %s", regionList(a.A), regionList(K), regionList(P), a.what)
		c.Check(len(bad) == 0, rule, "acceptor", a.fn, "retained-while-acceptable", desc, strings.Join(bad, "; "), nil)
	}
	_ = storeFns
}
