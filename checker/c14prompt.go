package main

import (
	"fmt"
	"go/constant"
	"strings"

	"golang.org/x/tools/go/ssa"
)

// C14.R5 — the authorize-endpoint validator (ValidatePrompt). GenerateIDToken
// repeats these tests (R2), but not all of them for every input: its prompt
// switch matches the single values "none"/"login" only, so for a multi-valued
// prompt ("login consent") the validator is the only place where
// re-authentication is verified, and it is what keeps a code from being issued
// for a request the session does not satisfy. Success exits require:
//
//	subject non-empty
//	Has(prompt,"login")  =>  ¬Before(auth_time, rat)
//	Has(prompt,"none")   =>  ¬IsZero(auth_time) ∧ (Equal(auth_time, rat) ∨ ¬After(auth_time, rat))
//	max_age > 0          =>  ¬IsZero(auth_time) ∧ ¬Before(auth_time + max_age, rat)
//	id_token_hint ≠ ""   =>  sub(hint) == subject   (sub read from the decoded hint)
func c14Prompt(c *Ctx) {
	const rule, role = "C14.R5", "prompt-validator"
	var fns []*ssaFunction
	for _, fn := range c.P.AllFuncs {
		if fn.Name() == "ValidatePrompt" && fn.Parent() == nil && fnPkgPath(fn) == pkgOpenID && fn.Signature.Recv() != nil {
			fns = append(fns, fn)
		}
	}
	if len(fns) == 0 {
		c.RoleUnmatched(rule, role, "ValidatePrompt method in handler/openid")
		return
	}
	for _, fn := range fns {
		ex := c.Explore(fn, ExploreConfig{}, "prompt")
		if !c.complete(ex, rule, role, fn) {
			continue
		}
		req := paramNamed(fn, 2)
		prompt := call("fosite.RemoveEmpty", call("strings.Split", form(req, "prompt"), tStr(" ")))
		names := []string{"subject", "prompt-login", "prompt-none", "max-age", "id-token-hint"}
		type chk struct {
			ok  bool
			w   *Path
			why string
		}
		cs := map[string]*chk{}
		for _, n := range names {
			cs[n] = &chk{ok: true}
		}
		fail := func(k string, p *Path, why string) { cs[k].ok, cs[k].w, cs[k].why = false, p, why }
		nS := 0
		for _, p := range ex.Paths {
			if p.Kind != "return" || !p.Success() {
				continue
			}
			nS++
			var claims *Term
			for _, f := range p.Facts {
				for _, t := range []*Term{f.Atom.A, f.Atom.B} {
					if t != nil && t.Op == "field" && t.Name == "Subject" {
						claims = t.Args[0]
					}
				}
			}
			if claims == nil || !p.Ne(field(claims, "Subject"), tStr("")) {
				fail("subject", p, "the request validates without the session subject known non-empty")
				continue
			}
			at, ra := field(claims, "AuthTime"), field(claims, "RequestedAt")
			hasP := func(v string) (bool, bool) {
				return p.BoolCall("stringslice.Has", func(t *Term) bool {
					return len(t.Args) == 2 && t.Args[0].Key() == prompt.Key() && t.Args[1].Key() == tStr(v).Key()
				})
			}
			// when the membership test was not evaluated the prompt list is known empty on this path
			// or the path does not depend on it; only an evaluated-false or empty list exempts
			emptyPrompt := p.Eq(call("len", prompt), tInt(0))
			if v, k := hasP("login"); !(k && !v) && !emptyPrompt {
				if !p.False(call(".Before", at, ra)) {
					fail("prompt-login", p, "a prompt containing login (or not known to lack it) validates without auth_time known not to be before the request time")
				}
			}
			if v, k := hasP("none"); !(k && !v) && !emptyPrompt {
				if !p.False(call(".IsZero", at)) || !(p.True(call(".Equal", at, ra)) || p.False(call(".After", at, ra))) {
					fail("prompt-none", p, "prompt=none validates although auth_time may be missing or after the request time")
				}
			}
			// max_age
			maxAgePos := false
			for _, f := range p.Facts {
				if f.Atom.Kind == "LT" && f.Atom.B.Key() == tInt(1).Key() && !f.Pol && f.Atom.A.Mentions(func(s *Term) bool { return s.IsCall("strconv.ParseInt") }) {
					maxAgePos = true
				}
			}
			if maxAgePos {
				ok := false
				for _, g := range p.Facts {
					if g.Atom.Kind == "B" && !g.Pol && g.Atom.A.IsCall(".Before") && g.Atom.A.Args[1].Key() == ra.Key() && g.Atom.A.Args[0].IsCall(".Add") && g.Atom.A.Args[0].Args[0].Key() == at.Key() &&
						g.Atom.A.Args[0].Args[1].Mentions(func(s *Term) bool { return s.IsCall("strconv.ParseInt") }) {
						ok = true
					}
				}
				if !ok || !p.False(call(".IsZero", at)) {
					fail("max-age", p, "max_age > 0 validates without auth_time present and auth_time + max_age not before the request time")
				}
			}
			// id_token_hint
			hint := form(req, "id_token_hint")
			if !p.EmptyStr(hint) {
				okH := false
				for _, f := range p.Facts {
					if f.Atom.Kind == "EQ" && f.Pol {
						for _, pr := range [][2]*Term{{f.Atom.A, f.Atom.B}, {f.Atom.B, f.Atom.A}} {
							if pr[0].Key() == field(claims, "Subject").Key() && pr[1].Mentions(func(s *Term) bool {
								return s.Op == "lookup" && len(s.Args) == 2 && s.Args[1].Key() == tStr("sub").Key()
							}) {
								okH = true
							}
						}
					}
				}
				if !okH {
					fail("id-token-hint", p, "a request with an id_token_hint validates without the hint's sub being equal to the session subject")
				}
			}
		}
		if nS == 0 {
			c.Bad(rule, role, fn, "success-path", "ValidatePrompt has a success path", "none", nil)
			continue
		}
		desc := map[string]string{
			"subject":       "the session subject is non-empty",
			"prompt-login":  "a prompt containing login requires auth_time not before the request time",
			"prompt-none":   "prompt=none requires auth_time present and not after the request time",
			"max-age":       "max_age > 0 requires auth_time present and auth_time + max_age not before the request time",
			"id-token-hint": "an id_token_hint requires its sub to equal the session subject",
		}
		for _, n := range names {
			c.Check(cs[n].ok, rule, role, fn, n, fmt.Sprintf("the authorize-endpoint validator succeeds only if %s", desc[n]), cs[n].why, cs[n].w)
		}
	}
}

// C14.R6 — an ID Token minted at the token endpoint is generated from the
// stored OpenID Connect request. The openid-scope and subject tests, the nonce
// and the at_hash assignment are all made on the request returned by
// GetOpenIDConnectSession; handing the incoming token request to
// IssueExplicitIDToken instead signs a session that was not checked and reads
// nonce / max_age / id_token_hint from the token request's own form.
func c14IssueFromStored(c *Ctx) {
	const rule = "C14.R6"
	n := 0
	for _, en := range c.allEntries() {
		if en.role == "endpoint" || fnPkgPath(en.fn) != pkgOpenID || !c.P.CallsNamed(en.fn, ".GetOpenIDConnectSession", 3) {
			continue
		}
		ex := c.Explore(en.fn, ExploreConfig{Inline: oidcInline(c)}, "oidc")
		if !c.complete(ex, rule, en.role, en.fn) {
			continue
		}
		ok, m := true, 0
		var w *Path
		why := ""
		for _, p := range ex.Paths {
			lk := p.First(".GetOpenIDConnectSession")
			if lk == nil {
				continue
			}
			for _, e := range p.Calls(".IssueExplicitIDToken", ".GenerateIDToken") {
				// (ctx, lifespan, requester[, responder])
				reqArg := e.Arg(2)
				m++
				if reqArg == nil || reqArg.Key() != lk.Ret(0).Key() {
					ok, w = false, p
					got := "?"
					if reqArg != nil {
						got = reqArg.Pretty()
					}
					why = e.Name + " receives " + clip(got, 60) + ", not the request GetOpenIDConnectSession returned"
				}
			}
		}
		if m > 0 {
			n++
			c.Check(ok, rule, en.role, en.fn, "id-token-from-stored-request", "after GetOpenIDConnectSession the ID Token is generated from the stored OpenID Connect request", why, w)
		}
	}
	if n < 2 {
		c.RoleUnmatched(rule, "oidc-token-handlers", "explicit and device OIDC token handlers issuing from a stored session")
	}
}

// C14.R11 — the stored OpenID Connect request keeps every parameter the
// ID-token strategy later reads from it. The authorize-endpoint handlers store
// the request through Sanitize(whitelist); at the token endpoint
// GenerateIDToken is handed that stored request and reads nonce, max_age,
// prompt, acr_values and id_token_hint from its form. A key missing from the
// whitelist silently disables the corresponding clause for every store that
// serialises the request (no nonce echo, no max_age / prompt / hint check).
// Reader table: the constant keys GenerateIDToken passes to Form.Get; writer
// table: the whitelist literal at each CreateOpenIDConnectSession site plus the
// keys Sanitize always keeps.
func c14StoredFormKeys(c *Ctx) {
	const rule, role = "C14.R11", "oidc-session-writer"
	// readers
	need := map[string]bool{}
	for _, g := range c.Impls(pkgOpenID, "OpenIDConnectTokenStrategy", "GenerateIDToken") {
		var walk func(f *ssa.Function, d int)
		seen := map[*ssa.Function]bool{}
		walk = func(f *ssa.Function, d int) {
			if seen[f] {
				return
			}
			seen[f] = true
			for _, b := range f.Blocks {
				for _, ins := range b.Instrs {
					call, ok := ins.(ssa.CallInstruction)
					if !ok {
						continue
					}
					cal := call.Common().StaticCallee()
					if cal == nil {
						continue
					}
					if cal.Name() == "Get" && cal.Signature.Recv() != nil && typeShort(cal.Signature.Recv().Type()) == "url.Values" && len(call.Common().Args) == 2 {
						if k, ok := call.Common().Args[1].(*ssa.Const); ok && k.Value != nil && k.Value.Kind() == constant.String {
							need[constant.StringVal(k.Value)] = true
						}
					} else if d < 2 && isSubjectPkg(fnPkgPath(cal)) && fnPkgPath(cal) == fnPkgPath(g) {
						walk(cal, d+1)
					}
				}
			}
		}
		walk(g, 0)
	}
	if len(need) < 3 {
		c.RoleUnmatched(rule, "oidc-session-reader", fmt.Sprintf("at least 3 form keys read by GenerateIDToken (found %d)", len(need)))
		return
	}
	always, _ := c.P.GlobalStringSlice("fosite.defaultAllowedParameters")
	n := 0
	for _, en := range c.allEntries() {
		if !c.P.RefsMethod(en.fn, 2, ".CreateOpenIDConnectSession") {
			continue
		}
		ex := c.Explore(en.fn, ExploreConfig{NoArgInline: true, Inline: func(f *ssaFunction) bool {
			return f.Parent() != nil || c.P.RefsMethod(f, 3, ".CreateOpenIDConnectSession")
		}}, "oidc-store")
		if !c.complete(ex, rule, role, en.fn) {
			continue
		}
		ok, m := true, 0
		why := ""
		var w *Path
		for _, p := range ex.Paths {
			for _, e := range p.Calls(".CreateOpenIDConnectSession") {
				m++
				st := e.Arg(2)
				if !st.IsCall(".Sanitize") || len(st.Args) != 2 || st.Args[1].Op != "lit" {
					ok, w, why = false, p, "the stored request is "+clip(st.Pretty(), 80)+", not Sanitize(request, <literal whitelist>)"
					continue
				}
				for k := range need {
					if !litHas(st.Args[1], k) && !hasStr(always, k) {
						ok, w, why = false, p, fmt.Sprintf("the whitelist at %s drops %q, which GenerateIDToken reads from the stored request", c.P.Pos(e.Instr.Pos()), k)
					}
				}
			}
		}
		if m > 0 {
			n++
			c.Check(ok, rule, role, en.fn, "whitelist-covers-reader", "the whitelist the OpenID Connect session is stored with keeps every form key GenerateIDToken reads", why, w)
		}
	}
	if n < 2 {
		c.RoleUnmatched(rule, role, fmt.Sprintf("at least 2 handler functions storing an OpenID Connect session (found %d)", n))
	}
}

// C14.R13 — an ID token minted on refresh gets a fresh expiry. GenerateIDToken
// keeps an expiry the session already carries ("the session pre-sets an
// expiry"); the refresh handler works on a clone of the stored session, which
// still holds the expiry (and jti, at_hash, c_hash) written when the previous ID
// token was generated. The OIDC refresh validate phase therefore clears them
// before the issue phase runs: every success path resets ExpiresAt to the zero
// time and clears jti / at_hash / c_hash of the session's ID-token claims.
func c14RefreshResets(c *Ctx) {
	const rule, role = "C14.R13", "oidc-refresh"
	n := 0
	for _, fn := range c.ValidateFns() {
		if fnPkgPath(fn) != pkgOpenID || !strings.Contains(recvTypeName(fn), "Refresh") {
			continue
		}
		ex := c.Explore(fn, ExploreConfig{Inline: oidcInline(c)}, "oidc")
		if !c.complete(ex, rule, role, fn) {
			continue
		}
		n++
		ok, m := true, 0
		why := ""
		var w *Path
		for _, p := range ex.Paths {
			if p.Kind != "return" || p.Classify() != ExitSuccess {
				continue
			}
			m++
			got := map[string]bool{}
			for _, e := range p.Events {
				if e.Kind != "store" || len(e.Args) != 2 || !e.Args[0].Mentions(func(s *Term) bool { return s.IsCall(".IDTokenClaims") }) {
					continue
				}
				v := e.Args[1]
				switch e.Name {
				case "ExpiresAt":
					if v.Op == "const" && strings.HasPrefix(v.Name, "zero:") {
						got["ExpiresAt"] = true
					}
				case "JTI", "AccessTokenHash", "CodeHash":
					if s, isC := v.StrConst(); isC && s == "" {
						got[e.Name] = true
					}
				}
			}
			for _, f := range []string{"ExpiresAt", "JTI", "AccessTokenHash", "CodeHash"} {
				if !got[f] {
					ok, w, why = false, p, "a success path leaves the previous ID token's "+f+" in the session"
				}
			}
		}
		c.Check(ok && m > 0, rule, role, fn, "previous-token-claims-cleared", "the OIDC refresh validate phase clears expiry, jti, at_hash and c_hash of the previous ID token before a new one is minted", why, w)
	}
	if n == 0 {
		c.RoleUnmatched(rule, role, "OpenID Connect refresh handler's HandleTokenEndpointRequest")
	}
}
