package main

import "fmt"

// C14.R5 — the authorize-endpoint validator (ValidatePrompt). GenerateIDToken
// repeats these tests (R2), but not all of them for every input: its prompt
// switch matches the single values "none"/"login" only, so for a multi-valued
// prompt ("login consent") the validator is the only place where
// re-authentication is verified, and it is what keeps a code from being issued
// for a request the session does not satisfy. Success exits require:
//
//	subject non-empty
//	Has(prompt,"login")  =>  ¬Before(auth_time, rat)
//	Has(prompt,"none")   =>  ¬IsZero(auth_time) ∧ (Equal(auth_time, rat) ∨ ¬After(auth_time, rat))
//	max_age > 0          =>  ¬IsZero(auth_time) ∧ ¬Before(auth_time + max_age, rat)
//	id_token_hint ≠ ""   =>  sub(hint) == subject   (sub read from the decoded hint)
func c14Prompt(c *Ctx) {
	const rule, role = "C14.R5", "prompt-validator"
	var fns []*ssaFunction
	for _, fn := range c.P.AllFuncs {
		if fn.Name() == "ValidatePrompt" && fn.Parent() == nil && fnPkgPath(fn) == pkgOpenID && fn.Signature.Recv() != nil {
			fns = append(fns, fn)
		}
	}
	if len(fns) == 0 {
		c.RoleUnmatched(rule, role, "ValidatePrompt method in handler/openid")
		return
	}
	for _, fn := range fns {
		ex := c.Explore(fn, ExploreConfig{}, "prompt")
		if !c.complete(ex, rule, role, fn) {
			continue
		}
		req := paramNamed(fn, 2)
		prompt := call("fosite.RemoveEmpty", call("strings.Split", form(req, "prompt"), tStr(" ")))
		names := []string{"subject", "prompt-login", "prompt-none", "max-age", "id-token-hint"}
		type chk struct {
			ok  bool
			w   *Path
			why string
		}
		cs := map[string]*chk{}
		for _, n := range names {
			cs[n] = &chk{ok: true}
		}
		fail := func(k string, p *Path, why string) { cs[k].ok, cs[k].w, cs[k].why = false, p, why }
		nS := 0
		for _, p := range ex.Paths {
			if p.Kind != "return" || !p.Success() {
				continue
			}
			nS++
			var claims *Term
			for _, f := range p.Facts {
				for _, t := range []*Term{f.Atom.A, f.Atom.B} {
					if t != nil && t.Op == "field" && t.Name == "Subject" {
						claims = t.Args[0]
					}
				}
			}
			if claims == nil || !p.Ne(field(claims, "Subject"), tStr("")) {
				fail("subject", p, "the request validates without the session subject known non-empty")
				continue
			}
			at, ra := field(claims, "AuthTime"), field(claims, "RequestedAt")
			hasP := func(v string) (bool, bool) {
				return p.BoolCall("stringslice.Has", func(t *Term) bool {
					return len(t.Args) == 2 && t.Args[0].Key() == prompt.Key() && t.Args[1].Key() == tStr(v).Key()
				})
			}
			// when the membership test was not evaluated the prompt list is known empty on this path
			// or the path does not depend on it; only an evaluated-false or empty list exempts
			emptyPrompt := p.Eq(call("len", prompt), tInt(0))
			if v, k := hasP("login"); !(k && !v) && !emptyPrompt {
				if !p.False(call(".Before", at, ra)) {
					fail("prompt-login", p, "a prompt containing login (or not known to lack it) validates without auth_time known not to be before the request time")
				}
			}
			if v, k := hasP("none"); !(k && !v) && !emptyPrompt {
				if !p.False(call(".IsZero", at)) || !(p.True(call(".Equal", at, ra)) || p.False(call(".After", at, ra))) {
					fail("prompt-none", p, "prompt=none validates although auth_time may be missing or after the request time")
				}
			}
			// max_age
			maxAgePos := false
			for _, f := range p.Facts {
				if f.Atom.Kind == "LT" && f.Atom.B.Key() == tInt(1).Key() && !f.Pol && f.Atom.A.Mentions(func(s *Term) bool { return s.IsCall("strconv.ParseInt") }) {
					maxAgePos = true
				}
			}
			if maxAgePos {
				ok := false
				for _, g := range p.Facts {
					if g.Atom.Kind == "B" && !g.Pol && g.Atom.A.IsCall(".Before") && g.Atom.A.Args[1].Key() == ra.Key() && g.Atom.A.Args[0].IsCall(".Add") && g.Atom.A.Args[0].Args[0].Key() == at.Key() &&
						g.Atom.A.Args[0].Args[1].Mentions(func(s *Term) bool { return s.IsCall("strconv.ParseInt") }) {
						ok = true
					}
				}
				if !ok || !p.False(call(".IsZero", at)) {
					fail("max-age", p, "max_age > 0 validates without auth_time present and auth_time + max_age not before the request time")
				}
			}
			// id_token_hint
			hint := form(req, "id_token_hint")
			if !p.EmptyStr(hint) {
				okH := false
				for _, f := range p.Facts {
					if f.Atom.Kind == "EQ" && f.Pol {
						for _, pr := range [][2]*Term{{f.Atom.A, f.Atom.B}, {f.Atom.B, f.Atom.A}} {
							if pr[0].Key() == field(claims, "Subject").Key() && pr[1].Mentions(func(s *Term) bool {
								return s.Op == "lookup" && len(s.Args) == 2 && s.Args[1].Key() == tStr("sub").Key()
							}) {
								okH = true
							}
						}
					}
				}
				if !okH {
					fail("id-token-hint", p, "a request with an id_token_hint validates without the hint's sub being equal to the session subject")
				}
			}
		}
		if nS == 0 {
			c.Bad(rule, role, fn, "success-path", "ValidatePrompt has a success path", "none", nil)
			continue
		}
		desc := map[string]string{
			"subject":       "the session subject is non-empty",
			"prompt-login":  "a prompt containing login requires auth_time not before the request time",
			"prompt-none":   "prompt=none requires auth_time present and not after the request time",
			"max-age":       "max_age > 0 requires auth_time present and auth_time + max_age not before the request time",
			"id-token-hint": "an id_token_hint requires its sub to equal the session subject",
		}
		for _, n := range names {
			c.Check(cs[n].ok, rule, role, fn, n, fmt.Sprintf("the authorize-endpoint validator succeeds only if %s", desc[n]), cs[n].why, cs[n].w)
		}
	}
}

// C14.R6 — an ID Token minted at the token endpoint is generated from the
// stored OpenID Connect request. The openid-scope and subject tests, the nonce
// and the at_hash assignment are all made on the request returned by
// GetOpenIDConnectSession; handing the incoming token request to
// IssueExplicitIDToken instead signs a session that was not checked and reads
// nonce / max_age / id_token_hint from the token request's own form.
func c14IssueFromStored(c *Ctx) {
	const rule = "C14.R6"
	n := 0
	for _, en := range c.allEntries() {
		if en.role == "endpoint" || fnPkgPath(en.fn) != pkgOpenID || !c.P.CallsNamed(en.fn, ".GetOpenIDConnectSession", 3) {
			continue
		}
		ex := c.Explore(en.fn, ExploreConfig{Inline: func(f *ssaFunction) bool { return f.Parent() != nil || defaultInline(f) && len(f.Blocks) <= 6 }}, "oidc")
		if !c.complete(ex, rule, en.role, en.fn) {
			continue
		}
		ok, m := true, 0
		var w *Path
		why := ""
		for _, p := range ex.Paths {
			lk := p.First(".GetOpenIDConnectSession")
			if lk == nil {
				continue
			}
			for _, e := range p.Calls(".IssueExplicitIDToken", ".GenerateIDToken") {
				// (ctx, lifespan, requester[, responder])
				reqArg := e.Arg(2)
				m++
				if reqArg == nil || reqArg.Key() != lk.Ret(0).Key() {
					ok, w = false, p
					got := "?"
					if reqArg != nil {
						got = reqArg.Pretty()
					}
					why = e.Name + " receives " + clip(got, 60) + ", not the request GetOpenIDConnectSession returned"
				}
			}
		}
		if m > 0 {
			n++
			c.Check(ok, rule, en.role, en.fn, "id-token-from-stored-request", "after GetOpenIDConnectSession the ID Token is generated from the stored OpenID Connect request", why, w)
		}
	}
	if n < 2 {
		c.RoleUnmatched(rule, "oidc-token-handlers", "explicit and device OIDC token handlers issuing from a stored session")
	}
}
