package main

import (
	"fmt"
	"go/ast"
	"go/constant"
	"go/types"
	"sort"
	"strings"
)

// C20.R6 — RFC error codes. "Well-formed ... with the RFC error code" starts
// with the package's error values carrying the code the RFCs define for them.
// The table below is the specification (RFC 6749 §4.1.2.1/§5.2, RFC 8628 §3.5,
// OpenID Connect Core §3.1.2.6, RFC 9101 §6.2), not a copy of the code: a value
// whose ErrorField is another string (a look-alike constant, say) is reported.
var rfcErrorCodes = map[string]string{
	"ErrInvalidRequest":           "invalid_request",
	"ErrUnauthorizedClient":       "unauthorized_client",
	"ErrAccessDenied":             "access_denied",
	"ErrUnsupportedResponseType":  "unsupported_response_type",
	"ErrInvalidScope":             "invalid_scope",
	"ErrServerError":              "server_error",
	"ErrTemporarilyUnavailable":   "temporarily_unavailable",
	"ErrUnsupportedGrantType":     "unsupported_grant_type",
	"ErrInvalidGrant":             "invalid_grant",
	"ErrInvalidClient":            "invalid_client",
	"ErrLoginRequired":            "login_required",
	"ErrInteractionRequired":      "interaction_required",
	"ErrConsentRequired":          "consent_required",
	"ErrRequestNotSupported":      "request_not_supported",
	"ErrRequestURINotSupported":   "request_uri_not_supported",
	"ErrRegistrationNotSupported": "registration_not_supported",
	"ErrInvalidRequestURI":        "invalid_request_uri",
	"ErrInvalidRequestObject":     "invalid_request_object",
	"ErrAuthorizationPending":     "authorization_pending",
	"ErrSlowDown":                 "slow_down",
	"ErrDeviceExpiredToken":       "expired_token",
}

func c20Codes(c *Ctx) {
	const rule, role = "C20.R6", "error-table"
	pk := c.P.ByPath[pkgRoot]
	if pk == nil {
		c.RoleUnmatched(rule, role, "package fosite")
		return
	}
	got := map[string]string{}
	pos := map[string]string{}
	for _, f := range pk.Syntax {
		ast.Inspect(f, func(n ast.Node) bool {
			vs, ok := n.(*ast.ValueSpec)
			if !ok || len(vs.Names) != len(vs.Values) {
				return true
			}
			for i, nm := range vs.Names {
				if _, want := rfcErrorCodes[nm.Name]; !want {
					continue
				}
				ue, ok := vs.Values[i].(*ast.UnaryExpr)
				if !ok {
					continue
				}
				cl, ok := ue.X.(*ast.CompositeLit)
				if !ok {
					continue
				}
				for _, el := range cl.Elts {
					kv, ok := el.(*ast.KeyValueExpr)
					if !ok {
						continue
					}
					if id, ok := kv.Key.(*ast.Ident); ok && id.Name == "ErrorField" {
						if tv, ok := pk.TypesInfo.Types[kv.Value]; ok && tv.Value != nil && tv.Value.Kind() == constant.String {
							got[nm.Name] = constant.StringVal(tv.Value)
							pos[nm.Name] = c.P.Pos(kv.Pos())
						}
					}
				}
			}
			return true
		})
	}
	var bad []string
	for _, nm := range sortedKeys(rfcErrorCodes) {
		want := rfcErrorCodes[nm]
		g, ok := got[nm]
		switch {
		case !ok:
			bad = append(bad, nm+": no constant ErrorField found")
		case g != want:
			bad = append(bad, fmt.Sprintf("%s carries %q (%s), the RFC code is %q", nm, g, pos[nm], want))
		}
	}
	sort.Strings(bad)
	c.Check(len(bad) == 0, rule, role, nil, "rfc-codes", fmt.Sprintf("the %d error values defined by the RFCs carry exactly the RFC error code in ErrorField", len(rfcErrorCodes)), strings.Join(bad, "; "), nil)
	if len(got) < len(rfcErrorCodes)-2 {
		c.RoleUnmatched(rule, role, fmt.Sprintf("error value declarations with a constant ErrorField; found %d of %d", len(got), len(rfcErrorCodes)))
	}
}

// C20.R7 — the error description is sanitised as its last step: whatever was
// concatenated (description, hint, and — when enabled — debug text) passes
// through the quote replacement before it is returned, so no part of the
// description can carry a raw double quote (RFC 6749 §5.2 excludes it from
// error_description).
func c20Description(c *Ctx) {
	const rule, role = "C20.R7", "error-description"
	fn := c.P.Func("(*" + pkgRoot + ".RFC6749Error).GetDescription")
	if fn == nil {
		c.RoleUnmatched(rule, role, "(*RFC6749Error).GetDescription")
		return
	}
	ex := c.Explore(fn, ExploreConfig{}, "errors")
	if !c.complete(ex, rule, role, fn) {
		return
	}
	ok, n := true, 0
	var w *Path
	for _, p := range ex.Paths {
		if p.Kind != "return" || len(p.Rets) != 1 {
			continue
		}
		n++
		r := p.Rets[0]
		if v, isC := r.StrConst(); isC && !strings.Contains(v, `"`) {
			continue
		}
		if !(r.IsCall("strings.ReplaceAll") && len(r.Args) == 3 && r.Args[1].Key() == tStr(`"`).Key()) {
			ok, w = false, p
		}
	}
	c.Check(ok && n > 0, rule, role, fn, "sanitised-last", "GetDescription returns the result of the quote replacement applied to the complete text (nothing is appended afterwards)", "a path returns text that did not pass through the replacement", w)
}

// C20.R9 / C10.R9 — the revocation writer answers with the error it matched.
// WriteRevocationResponse is the one writer that does not go through
// ErrorToRFC6749Error: it classifies err with errors.Is against ErrInvalidRequest
// and ErrInvalidClient and then marshals the package value itself. Body and
// status must both come from the value that was matched (a copy/paste slip gives
// 401 {"error":"invalid_request"}), and both classes must be refusals.
func checkRevocationWriter(c *Ctx, rule string) {
	const role = "writer"
	fn := c.P.Func("(*" + pkgRoot + ".Fosite).WriteRevocationResponse")
	if fn == nil {
		c.RoleUnmatched(rule, role, "(*Fosite).WriteRevocationResponse")
		return
	}
	ex := c.Explore(fn, rootCfg(), "root")
	if !c.complete(ex, rule, role, fn) {
		return
	}
	errP := paramByType(fn, "error")
	if errP == nil {
		c.RoleUnmatched(rule, role, "error parameter of WriteRevocationResponse")
		return
	}
	ok := true
	why := ""
	var w *Path
	seen := map[string]bool{}
	for _, p := range ex.Paths {
		var x *Term
		for _, f := range p.Facts {
			a := f.Atom.A
			if f.Atom.Kind == "B" && f.Pol && a.IsCall("errors.Is") && len(a.Args) == 2 && a.Args[0].Key() == errP.Key() && a.Args[1].Op == "global" {
				x = a.Args[1]
			}
		}
		if x == nil {
			continue
		}
		wrote := false
		for _, e := range p.Events {
			if e.Kind != "call" || len(e.Args) == 0 {
				continue
			}
			var a *Term
			switch e.Name {
			case "json.Marshal":
				a = e.Args[0]
			case ".WriteHeader":
				a = e.Args[0]
				wrote = true
			case "http.Error":
				wrote = true
				continue
			default:
				continue
			}
			if !mentionsTerm(a, x) {
				ok, w, why = false, p, fmt.Sprintf("%s at %s uses %s although the error matched %s", strings.TrimPrefix(e.Name, "."), c.P.Pos(e.Instr.Pos()), clip(a.Pretty(), 60), x.Name)
			} else if e.Name == ".WriteHeader" {
				seen[x.Name] = true
			}
		}
		if !wrote {
			ok, w, why = false, p, "nothing is written for an error that matched "+x.Name
		}
	}
	for _, need := range []string{"fosite.ErrInvalidClient", "fosite.ErrInvalidRequest"} {
		if !seen[need] && ok {
			ok, why = false, "no path answers an error matching "+need+" with that error's status and body"
		}
	}
	c.Check(ok, rule, role, fn, "revocation-error-consistent", "WriteRevocationResponse refuses errors matching ErrInvalidClient / ErrInvalidRequest, with body and status taken from the matched value", why, w)
}

// C20.R10 — the text of an unrecognised error is debug detail. For an error that
// is not an RFC6749Error (a driver / store / library error) ErrorToRFC6749Error
// builds a generic server_error; the original text may only go into the debug
// field (emitted only when the operator enabled it) or the unexported cause.
// Every client-visible field of that value (name, description, hint) is a
// constant.
func c20UnknownErrorText(c *Ctx) {
	const rule, role = "C20.R10", "error-conversion"
	fn := c.P.Func(pkgRoot + ".ErrorToRFC6749Error")
	if fn == nil {
		c.RoleUnmatched(rule, role, "fosite.ErrorToRFC6749Error")
		return
	}
	ex := c.Explore(fn, ExploreConfig{}, "errors")
	if !c.complete(ex, rule, role, fn) {
		return
	}
	ok, n := true, 0
	why := ""
	var w *Path
	for _, p := range ex.Paths {
		for _, e := range p.Events {
			if e.Kind != "lstore" || len(e.Args) < 2 {
				continue
			}
			switch e.Name {
			case "ErrorField", "DescriptionField", "HintField":
				n++
				if e.Args[1].Op != "const" {
					ok, w, why = false, p, fmt.Sprintf("%s of the generic error is set to %s", e.Name, clip(e.Args[1].Pretty(), 60))
				}
			}
		}
	}
	c.Check(ok && n > 0, rule, role, fn, "unknown-error-text-in-debug-only", "the generic error built for an unrecognised error has constant name, description and hint; the original text goes to the debug field only", why, w)
}

// C20.R12 — a storage failure's text is debug detail. Handlers answer storage
// failures with a fixed error and put the store's message into the debug field
// (WithDebug / WithWrap), which the writers emit only when the operator enabled
// it. The hint and the description are always emitted: in every error a handler
// or endpoint returns, no WithHint / WithHintf / WithDescription argument is
// built from the error a storage call returned (its Error() text or the value
// itself under a %s / %v verb).
func c20StorageTextInHints(c *Ctx) {
	const rule = "C20.R12"
	isStorageCallTerm := func(r *Term) bool {
		if r.Op != "icall" {
			return false
		}
		n := r.Name
		if i := strings.IndexByte(n, '#'); i >= 0 {
			n = n[:i]
		}
		return storageMutators[n] || storageLookups[n] || n == "storage.MaybeBeginTx" || n == "storage.MaybeCommitTx" || n == "storage.MaybeRollbackTx"
	}
	// the error result of a storage call: the call itself when it returns only an error, its last
	// result otherwise (by the callee's signature)
	storageErrText := func(t *Term) bool {
		found := false
		var rec func(s *Term, underRet bool)
		rec = func(s *Term, underRet bool) {
			if found {
				return
			}
			if s.Op == "ret" && len(s.Args) == 1 && isStorageCallTerm(s.Args[0]) {
				if cal := s.Args[0].Callee; cal != nil {
					if sig, ok := cal.Type().(*types.Signature); ok && s.Name == fmt.Sprint(sig.Results().Len()-1) {
						found = true
					}
				}
				return
			}
			if isStorageCallTerm(s) && !underRet {
				if cal := s.Callee; cal != nil {
					if sig, ok := cal.Type().(*types.Signature); ok && sig.Results().Len() == 1 {
						found = true
					}
				}
			}
			for _, a := range s.Args {
				rec(a, s.Op == "ret")
			}
		}
		rec(t, false)
		return found
	}
	n := 0
	for _, en := range c.allEntries() {
		if !c.P.CallsNamedAny(en.fn, 4, storageMutators, storageLookups) {
			continue
		}
		cfg := en.cfg
		base := cfg.Inline
		if base == nil {
			base = defaultInline
		}
		cfg.Inline = c.storageReaching(base)
		ex := c.Explore(en.fn, cfg, en.tag+"-storage")
		if !c.complete(ex, rule, en.role, en.fn) {
			continue
		}
		n++
		ok := true
		why := ""
		var w *Path
		for _, p := range ex.Paths {
			er := p.ErrRet()
			if er == nil {
				continue
			}
			er.Walk(func(s *Term) bool {
				if (s.IsCall(".WithHint") || s.IsCall(".WithHintf") || s.IsCall(".WithDescription") || s.IsCall(".WithHintIDOrDefaultf")) && len(s.Args) > 1 {
					for _, a := range s.Args[1:] {
						if storageErrText(a) {
							ok, w = false, p
							why = "the text of a storage error is placed in " + strings.TrimPrefix(s.Name, ".") + " (" + clip(a.Pretty(), 70) + ")"
						}
					}
				}
				return true
			})
		}
		c.Check(ok, rule, en.role, en.fn, "storage-text-in-debug-only", "no hint or description of a returned error is built from the error a storage call returned", why, w)
	}
	if n < 10 {
		c.RoleUnmatched(rule, "storage-callers", fmt.Sprintf("at least 10 handler/endpoint functions calling storage; found %d", n))
	}
}
