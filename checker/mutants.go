package main

import (
	"bytes"
	"encoding/json"
	"fmt"
	"os"
	"os/exec"
	"path/filepath"
	"runtime/debug"
	"sort"
	"strings"
	"sync"
)

// Self-test corpus (DESIGN 6, Appendix B): source rewrites applied through
// go/packages' Overlay (nothing is written to /repo). Outcomes are evidence
// about the checker, never part of the verdict on /repo.

type Mutant struct {
	Name    string `json:"name"`
	Kind    string `json:"kind"` // positive | negative
	File    string `json:"file"`
	Find    string `json:"find"`
	Replace string `json:"replace"`
	// more edits in the same mutant (two cooperating sites)
	More   []MutEdit `json:"more,omitempty"`
	Expect string    `json:"expect,omitempty"` // rule id (prefix) that must report; positive only
	Note   string    `json:"note,omitempty"`
	// Diff: a unified diff (path relative to the verification directory) applied instead of
	// find/replace edits; used for the mutation-campaign corpus written by sub-agents
	Diff string `json:"diff,omitempty"`
}

type MutEdit struct {
	File    string `json:"file"`
	Find    string `json:"find"`
	Replace string `json:"replace"`
}

type MutantResult struct {
	Name    string   `json:"name"`
	Kind    string   `json:"kind"`
	Applied bool     `json:"applied"`
	OK      bool     `json:"ok"`
	Note    string   `json:"note,omitempty"`
	New     []string `json:"new_violations,omitempty"`
}

type mutantSummary struct {
	Applied, Killed, Skipped, NegApplied, NegSilent int
	Broken                                          bool
	Results                                         []MutantResult
}

func loadMutants(prop string) ([]Mutant, error) {
	var ms []Mutant
	b, err := os.ReadFile(filepath.Join(verifDir(), "mutants", prop+".json"))
	if err != nil && !os.IsNotExist(err) {
		return nil, err
	}
	if err == nil {
		if err := json.Unmarshal(b, &ms); err != nil {
			return nil, fmt.Errorf("mutants/%s.json: %w", prop, err)
		}
	}
	// campaign corpus: every candidate whose expected rule belongs to this property
	cb, err := os.ReadFile(filepath.Join(verifDir(), "campaign", "EXPECT.json"))
	if err == nil {
		var exp map[string]struct {
			Expect string `json:"expect"`
			Note   string `json:"note"`
		}
		if err := json.Unmarshal(cb, &exp); err != nil {
			return nil, fmt.Errorf("campaign/EXPECT.json: %w", err)
		}
		var names []string
		for n := range exp {
			names = append(names, n)
		}
		sort.Strings(names)
		for _, n := range names {
			e := exp[n]
			if strings.HasPrefix(e.Expect, prop+".") {
				ms = append(ms, Mutant{Name: "campaign/" + n, Kind: "positive", Expect: e.Expect, Diff: filepath.Join("campaign", n+".diff"), Note: e.Note})
			}
		}
	}
	return ms, nil
}

// applyUnifiedDiff applies a git-style unified diff to the files under dir and
// returns the resulting contents as an overlay (nil + reason if a hunk does not
// apply exactly).
func applyUnifiedDiff(dir, diff string) (map[string][]byte, string) {
	ov := map[string][]byte{}
	lines := strings.Split(diff, "\n")
	i := 0
	for i < len(lines) {
		if !strings.HasPrefix(lines[i], "+++ ") {
			i++
			continue
		}
		name := strings.TrimPrefix(strings.TrimPrefix(lines[i], "+++ "), "b/")
		isNew := i > 0 && strings.HasPrefix(lines[i-1], "--- /dev/null")
		i++
		path := filepath.Join(dir, name)
		var src []string
		if !isNew {
			b, err := os.ReadFile(path)
			if err != nil {
				return nil, "file missing: " + name
			}
			src = strings.Split(string(b), "\n")
		}
		var out []string
		pos := 0 // next unread line of src
		for i < len(lines) && strings.HasPrefix(lines[i], "@@") {
			var oldStart, oldLen, newStart, newLen int
			oldLen, newLen = 1, 1
			hdr := lines[i]
			if n, _ := fmt.Sscanf(hdr, "@@ -%d,%d +%d,%d @@", &oldStart, &oldLen, &newStart, &newLen); n < 4 {
				if n2, _ := fmt.Sscanf(hdr, "@@ -%d +%d,%d @@", &oldStart, &newStart, &newLen); n2 < 3 {
					fmt.Sscanf(hdr, "@@ -%d,%d +%d @@", &oldStart, &oldLen, &newStart)
				}
			}
			i++
			if isNew || oldStart == 0 {
				oldStart = 1 // "@@ -0,0 +1,n @@": a file that did not exist
			}
			if oldStart-1 < pos || oldStart-1 > len(src) {
				return nil, "hunk out of order in " + name
			}
			out = append(out, src[pos:oldStart-1]...)
			pos = oldStart - 1
			for i < len(lines) && !strings.HasPrefix(lines[i], "@@") && !strings.HasPrefix(lines[i], "diff --git") {
				l := lines[i]
				if l == "" && i == len(lines)-1 {
					i++
					break
				}
				switch {
				case strings.HasPrefix(l, "+"):
					out = append(out, l[1:])
				case strings.HasPrefix(l, "-"):
					if pos >= len(src) || src[pos] != l[1:] {
						return nil, fmt.Sprintf("hunk does not apply in %s at line %d", name, pos+1)
					}
					pos++
				case strings.HasPrefix(l, " ") || l == "":
					want := ""
					if l != "" {
						want = l[1:]
					}
					if pos >= len(src) || src[pos] != want {
						return nil, fmt.Sprintf("context mismatch in %s at line %d", name, pos+1)
					}
					out = append(out, src[pos])
					pos++
				case strings.HasPrefix(l, "\\"):
					// "\ No newline at end of file"
				default:
					return nil, "unrecognised diff line in " + name
				}
				i++
			}
		}
		out = append(out, src[pos:]...)
		ov[path] = []byte(strings.Join(out, "\n"))
	}
	if len(ov) == 0 {
		return nil, "empty diff"
	}
	return ov, ""
}

func (m *Mutant) edits() []MutEdit {
	return append([]MutEdit{{m.File, m.Find, m.Replace}}, m.More...)
}

// overlayFor applies the edits to the current tree's files; ok=false if an
// anchor text no longer exists (mutant skipped).
func (m *Mutant) overlayFor(dir string) (map[string][]byte, bool, string) {
	ov := map[string][]byte{}
	if m.Diff != "" {
		b, err := os.ReadFile(filepath.Join(verifDir(), m.Diff))
		if err != nil {
			return nil, false, "diff missing: " + m.Diff
		}
		ov, why := applyUnifiedDiff(dir, string(b))
		if ov == nil {
			return nil, false, why
		}
		return ov, true, ""
	}
	for _, e := range m.edits() {
		p := filepath.Join(dir, e.File)
		src, ok := ov[p]
		if !ok {
			b, err := os.ReadFile(p)
			if err != nil {
				return nil, false, "file missing: " + e.File
			}
			src = b
		}
		if n := bytes.Count(src, []byte(e.Find)); n != 1 {
			return nil, false, fmt.Sprintf("anchor text occurs %d times in %s", n, e.File)
		}
		ov[p] = bytes.Replace(src, []byte(e.Find), []byte(e.Replace), 1)
	}
	return ov, true, ""
}

// runOverlay is the subprocess entry: analyse the tree with one mutant applied
// and print the non-discharged obligation keys as JSON.
func runOverlay(mutFile, prop string) int {
	b, err := os.ReadFile(mutFile)
	if err != nil {
		fmt.Fprintln(os.Stderr, err)
		return 2
	}
	var m Mutant
	if err := json.Unmarshal(b, &m); err != nil {
		fmt.Fprintln(os.Stderr, err)
		return 2
	}
	ov, ok, why := m.overlayFor(repoDir())
	if !ok {
		fmt.Println(`{"skipped":` + fmt.Sprintf("%q", why) + `}`)
		return 0
	}
	P, err := loadProgram(repoDir(), ov)
	if err != nil {
		fmt.Println(`{"loaderror":` + fmt.Sprintf("%q", err.Error()) + `}`)
		return 0
	}
	c := newCtx(P, prop, "quick")
	registry[prop].Run(c)
	var keys []string
	for _, o := range c.Obls {
		if o.Status != "discharged" {
			keys = append(keys, o.Key())
		}
	}
	sort.Strings(keys)
	out, _ := json.Marshal(map[string]any{"violations": keys})
	fmt.Println(string(out))
	return 0
}

func runMutants(prop string) *mutantSummary {
	sum := &mutantSummary{}
	ms, err := loadMutants(prop)
	if err != nil {
		sum.Broken = true
		sum.Results = append(sum.Results, MutantResult{Name: "load", Note: err.Error()})
		return sum
	}
	if len(ms) == 0 {
		return sum
	}
	// baseline through the same path (overlay-run with an empty mutant would be
	// skipped, so compute it here)
	self, _ := os.Executable()
	baseKeys := map[string]bool{}
	{
		P, err := loadProgram(repoDir(), nil)
		if err == nil {
			c := newCtx(P, prop, "quick")
			registry[prop].Run(c)
			for _, o := range c.Obls {
				if o.Status != "discharged" {
					baseKeys[o.Key()] = true
				}
			}
		}
	}
	// the baseline program is garbage now: give its memory back before the workers (each a process of
	// its own holding a whole program) start
	debug.FreeOSMemory()
	results := make([]MutantResult, len(ms))
	sem := make(chan struct{}, 6)
	var wg sync.WaitGroup
	tmp, _ := os.MkdirTemp("", "fositelint-mut")
	defer os.RemoveAll(tmp)
	for i := range ms {
		wg.Add(1)
		go func(i int) {
			defer wg.Done()
			sem <- struct{}{}
			defer func() { <-sem }()
			m := ms[i]
			r := MutantResult{Name: m.Name, Kind: m.Kind}
			mf := filepath.Join(tmp, fmt.Sprintf("m%d.json", i))
			b, _ := json.Marshal(m)
			os.WriteFile(mf, b, 0o644)
			cmd := exec.Command(self, "overlay-run", mf, prop)
			cmd.Env = os.Environ()
			var so, se bytes.Buffer
			cmd.Stdout, cmd.Stderr = &so, &se
			if err := cmd.Run(); err != nil {
				r.Note = "subprocess failed: " + err.Error() + " " + clip(se.String(), 300)
				results[i] = r
				return
			}
			var res struct {
				Skipped    string   `json:"skipped"`
				LoadError  string   `json:"loaderror"`
				Violations []string `json:"violations"`
			}
			line := strings.TrimSpace(so.String())
			if idx := strings.LastIndex(line, "\n"); idx >= 0 {
				line = line[idx+1:]
			}
			if err := json.Unmarshal([]byte(line), &res); err != nil {
				r.Note = "bad subprocess output: " + clip(so.String(), 200)
				results[i] = r
				return
			}
			if res.Skipped != "" {
				r.Note = "skipped: " + res.Skipped
				r.OK = true
				results[i] = r
				return
			}
			if res.LoadError != "" {
				r.Note = "mutant does not compile: " + clip(res.LoadError, 300)
				results[i] = r
				return
			}
			r.Applied = true
			for _, k := range res.Violations {
				if !baseKeys[k] {
					r.New = append(r.New, k)
				}
			}
			if m.Kind == "negative" {
				r.OK = len(r.New) == 0
				if !r.OK {
					r.Note = "behaviour-preserving edit raised: " + strings.Join(r.New, " ; ")
				}
			} else {
				for _, k := range r.New {
					if m.Expect == "" || strings.HasPrefix(k, m.Expect) {
						r.OK = true
					}
				}
				if !r.OK {
					r.Note = fmt.Sprintf("not reported by %s (new violations: %v)", m.Expect, r.New)
				}
			}
			results[i] = r
		}(i)
	}
	wg.Wait()
	for _, r := range results {
		sum.Results = append(sum.Results, r)
		if !r.Applied {
			if r.OK {
				sum.Skipped++
			} else {
				sum.Broken = true
			}
			continue
		}
		if r.Kind == "negative" {
			sum.NegApplied++
			if r.OK {
				sum.NegSilent++
			} else {
				sum.Broken = true
			}
		} else {
			sum.Applied++
			if r.OK {
				sum.Killed++
			} else {
				sum.Broken = true
			}
		}
	}
	return sum
}
