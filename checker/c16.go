package main

import (
	"fmt"
	"go/constant"
	"go/types"

	"golang.org/x/tools/go/ssa"
)

func init() {
	register(&propInfo{
		ID:          "C16",
		Run:         runC16,
		MinObl:      19,
		Explanation: "Decided: R1 every success exit of the device-validate function knows user-code state ∉ {unused, rejected}; the unused exit derives from ErrAuthorizationPending, the rejected exit from ErrAccessDenied; R2 success requires client-id(stored)==client-id(request) (mismatch → ErrInvalidGrant), ValidateDeviceCode nil for the string whose signature was looked up, and SetID(GetID(stored)); R3 in the device-redeem function InvalidateDeviceCodeSession precedes the session creates, error tested, inside the open transaction with its context, keyed by the looked-up signature; R4 under ErrInvalidated{DeviceCode,AuthorizeCode} with a non-nil stored request both revokes run with GetID(stored) and the exit derives from ErrInvalidGrant; R5 the device authorization endpoint succeeds only after client authentication, client_id match and the device_code grant gate; R6 device and user codes reach CreateDeviceAuthSession only as the signature results of Generate{Device,User}Code while the response carries the code results. R6 reference-store contract: every success path of InvalidateDeviceCodeSession removes or rewrites DeviceAuths[signature]. NOT decided: unguessability/distinctness of generated codes, expiry arithmetic (C07), histories.",
	})
}

func (c *Ctx) deviceValidateFns() []*ssa.Function {
	var out []*ssa.Function
	for _, f := range c.Calling(c.ValidateFns(), ".GetDeviceCodeSession") {
		if fnPkgPath(f) == pkgOpenID {
			continue
		}
		out = append(out, f)
	}
	return out
}

func (c *Ctx) deviceRedeemFns() []*ssa.Function {
	return c.Calling(c.IssueFns(), ".InvalidateDeviceCodeSession")
}

func (c *Ctx) constTerm(pkg, name string) *Term {
	p := c.P.ByPath[pkg]
	if p == nil {
		return nil
	}
	k, ok := p.Types.Scope().Lookup(name).(*types.Const)
	if !ok {
		return nil
	}
	switch k.Val().Kind() {
	case constant.Int:
		v, _ := constant.Int64Val(k.Val())
		return tInt(v)
	case constant.String:
		return tStr(constant.StringVal(k.Val()))
	}
	return nil
}

func runC16(c *Ctx) {
	defer checkStoreKeyed(c, "C16.R6", storeRow{meth: "CreateDeviceAuthSession", table: "DeviceAuths", op: "create", key: 2, key2: 3, also: []string{"DeviceCodesRequestIDs"}}, storeRow{meth: "GetDeviceCodeSession", table: "DeviceAuths", op: "get", key: 2})
	defer checkConfigGetters(c, "C16.R7", "GetDeviceAndUserCodeLifespan", "GetTokenEntropy", "GetDeviceAuthTokenPollingInterval")
	defer c16Store(c)
	const role = "device-validate"
	fns := c.deviceValidateFns()
	if len(fns) == 0 {
		c.RoleUnmatched("C16.R1", role, "validate-phase function reaching GetDeviceCodeSession")
	}
	unused, rejected := c.constTerm(pkgRoot, "UserCodeUnused"), c.constTerm(pkgRoot, "UserCodeRejected")
	if unused == nil || rejected == nil {
		c.RoleUnmatched("C16.R1", "state-constants", "fosite.UserCodeUnused / fosite.UserCodeRejected")
	}
	for _, fn := range fns {
		ex := c.Explore(fn, handlerCfg(), "handler")
		if !c.complete(ex, "C16.R1", role, fn) {
			continue
		}
		req := reqParam(fn)
		if unused != nil && rejected != nil {
			okS, okU, okR := true, true, true
			var wS, wU, wR *Path
			nU, nR := 0, 0
			for _, p := range ex.Paths {
				lk := p.First(".GetDeviceCodeSession")
				if lk == nil || p.Kind != "return" {
					continue
				}
				st := call(".GetUserCodeState", lk.Ret(0))
				if p.Success() {
					if !p.Ne(st, unused) || !p.Ne(st, rejected) {
						okS, wS = false, p
					}
				}
				if p.Eq(st, unused) && st.Key() != unused.Key() {
					nU++
					if p.Classify() != ExitFail || errorRoot(p.ErrRet()) != "fosite.ErrAuthorizationPending" {
						okU, wU = false, p
					}
				}
				if p.Eq(st, rejected) {
					nR++
					if p.Classify() != ExitFail || errorRoot(p.ErrRet()) != "fosite.ErrAccessDenied" {
						okR, wR = false, p
					}
				}
			}
			c.Check(okS, "C16.R1", role, fn, "approved-only", "every success exit knows the user-code state is neither unused nor rejected", "a success exit is reachable without both state tests", wS)
			c.Check(okU && nU > 0, "C16.R1", role, fn, "pending", "the undecided state exits with an ErrAuthorizationPending-derived error", "undecided state path missing or answering differently", wU)
			c.Check(okR && nR > 0, "C16.R1", role, fn, "denied", "the rejected state exits with an ErrAccessDenied-derived error", "rejected state path missing or answering differently", wR)
		}
		checkClientBinding(c, "C16.R2", role, fn, ex, ".GetDeviceCodeSession", req, "fosite.ErrInvalidGrant")
		checkReplayBranch(c, "C16.R4", role, fn, ex, ".GetDeviceCodeSession", []string{"fosite.ErrInvalidatedDeviceCode", "fosite.ErrInvalidatedAuthorizeCode"}, false)
		checkOverwriteFromStored(c, "C16.R2", role, fn, ex, ".GetDeviceCodeSession", req, false)
	}
	checkSetID(c, "C16.R2", role, ".GetDeviceCodeSession", fns)
	checkCredentialValidated(c, "C16.R2", "device", fns, c.deviceRedeemFns(), ".GetDeviceCodeSession", ".ValidateDeviceCode", 2)

	// R3
	rf := c.deviceRedeemFns()
	if len(rf) == 0 {
		c.RoleUnmatched("C16.R3", "device-redeem", "issue-phase function calling InvalidateDeviceCodeSession")
	}
	for _, fn := range rf {
		ex := c.Explore(fn, handlerCfg(), "handler")
		if !c.complete(ex, "C16.R3", "device-redeem", fn) {
			continue
		}
		checkRedeemOrder(c, "C16.R3", "device-redeem", fn, ex, ".InvalidateDeviceCodeSession", ".GetDeviceCodeSession", nil, form(reqParam(fn), "device_code"))
		checkGrantsFromStored(c, "C16.R3", "device-redeem", fn, ex, ".GetDeviceCodeSession")
	}
	c16R5(c)
	c16R6(c)
}

func c16R5(c *Ctx) {
	const rule, role = "C16.R5", "device-entry"
	fn := c.P.Func("(*" + pkgRoot + ".Fosite).NewDeviceRequest")
	if fn == nil {
		c.RoleUnmatched(rule, role, "(*Fosite).NewDeviceRequest")
		return
	}
	ex := c.Explore(fn, rootCfg(), "root")
	if !c.complete(ex, rule, role, fn) {
		return
	}
	okA, okC, okG := true, true, true
	var wA, wC, wG *Path
	n := 0
	for _, p := range ex.Paths {
		if !p.Success() || p.Kind != "return" {
			continue
		}
		n++
		auth := p.First(".AuthenticateClient")
		if auth == nil || !p.IsNil(auth.Ret(1)) {
			okA, wA = false, p
			continue
		}
		cl := auth.Ret(0)
		// client_id match: EQ(GetID(client), Get(<form>, "client_id"))
		found := false
		for _, f := range p.Facts {
			if f.Atom.Kind == "EQ" && f.Pol {
				for _, pr := range [][2]*Term{{f.Atom.A, f.Atom.B}, {f.Atom.B, f.Atom.A}} {
					if pr[0].Key() == getID(cl).Key() && pr[1].IsCall(".Get") && len(pr[1].Args) == 2 && pr[1].Args[1].Key() == tStr("client_id").Key() {
						found = true
					}
				}
			}
		}
		if !found {
			okC, wC = false, p
		}
		gt := c.constTerm(pkgRoot, "GrantTypeDeviceCode")
		s := ""
		if gt != nil {
			s, _ = gt.StrConst()
		}
		if !hasGrantType(p, nil, cl, s) {
			okG, wG = false, p
		}
	}
	if n == 0 {
		c.Bad(rule, role, fn, "success-path", "the endpoint has a success path", "none found", nil)
		return
	}
	c.Check(okA, rule, role, fn, "client-authenticated", "success requires AuthenticateClient to have returned a nil error", "a success exit without authentication", wA)
	c.Check(okC, rule, role, fn, "client-id-match", "success requires the authenticated client's id to equal the client_id form value", "a success exit without the client_id comparison", wC)
	c.Check(okG, rule, role, fn, "grant-gate", "success requires the client to be registered for the device_code grant", "a success exit without the grant-type literal", wG)
}

func c16R6(c *Ctx) {
	const rule, role = "C16.R6", "device-authorize"
	fns := c.Calling(c.DeviceFns(), ".CreateDeviceAuthSession")
	if len(fns) == 0 {
		c.RoleUnmatched(rule, role, "device-endpoint handler calling CreateDeviceAuthSession")
		return
	}
	for _, fn := range fns {
		ex := c.Explore(fn, handlerCfg(), "handler")
		if !c.complete(ex, rule, role, fn) {
			continue
		}
		ok := true
		var w *Path
		why := ""
		n := 0
		for _, p := range ex.Paths {
			for _, e := range p.Calls(".CreateDeviceAuthSession") {
				n++
				for i, gen := range []string{".GenerateDeviceCode", ".GenerateUserCode"} {
					a := e.Arg(1 + i)
					if !(a.Op == "ret" && a.Name == "1" && a.Args[0].IsCall(gen)) {
						ok, w = false, p
						why = fmt.Sprintf("CreateDeviceAuthSession argument %d is %s, expected the signature result of %s", i+1, a.Pretty(), gen[1:])
					}
				}
			}
			if p.Success() && p.Kind == "return" {
				for _, s := range []struct{ set, gen string }{{".SetDeviceCode", ".GenerateDeviceCode"}, {".SetUserCode", ".GenerateUserCode"}} {
					e := p.Last(s.set)
					if e == nil || !(e.Arg(0).Op == "ret" && e.Arg(0).Name == "0" && e.Arg(0).Args[0].IsCall(s.gen)) {
						ok, w = false, p
						why = "response " + s.set[1:] + " does not receive the code result of " + s.gen[1:]
					} else if cr := p.Last(".CreateDeviceAuthSession"); cr == nil || !p.IsNil(cr.Result) {
						ok, w = false, p
						why = "success although CreateDeviceAuthSession's error is not known nil"
					} else if i := map[string]int{".SetDeviceCode": 1, ".SetUserCode": 2}[s.set]; cr.Arg(i).Args[0].Key() != e.Arg(0).Args[0].Key() {
						ok, w = false, p
						why = "the code returned to the device is not the one whose signature was stored"
					}
				}
			}
		}
		c.Check(ok && n > 0, rule, role, fn, "codes-stored-as-signatures", "device/user codes are persisted only as signatures; the response carries the matching codes", why, w)
	}
}
