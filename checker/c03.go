package main

import (
	"fmt"
	"go/constant"
	"regexp"
	"strings"

	"golang.org/x/tools/go/ssa"
)

func init() {
	register(&propInfo{
		ID:          "C03",
		Run:         runC03,
		MinObl:      15,
		Explanation: "Decided: R1 the PKCE binding is never consumed by a failed attempt — after every DeletePKCERequestSession call site each reachable exit is a success exit or returns that call's own error; R2 every success exit of the PKCE verify function is one of (a) found ∧ len(verifier)∈[43,128] ∧ format regex rejects nothing ∧ challenge non-empty ∧ (method==S256 ∧ b64url(sha256(verifier))==challenge ∨ method≠S256 ∧ verifier==challenge), (b) found ∧ ¬EnforcePKCE ∧ empty challenge ∧ empty verifier, (c) not-found ∧ empty verifier ∧ ¬EnforcePKCE ∧ ¬(EnforceForPublic ∧ IsPublic); the format regular expression constant is evaluated by the checker on all byte values; R3 challenge and method compared are those of the stored authorization request; R4 authorization side: a non-empty challenge is persisted under the code's signature with a whitelist keeping code_challenge and code_challenge_method, plain/empty method requires the opt-in (layers: authorize time or token time), an absent challenge requires that PKCE is not enforced. NOT decided: hash correctness, other stores, histories beyond the delete-ordering clause.",
	})
}

func runC03(c *Ctx) {
	defer checkCanHandleExact(c, "C03.R8")
	defer checkStoreKeyed(c, "C03.R7", storeRow{meth: "CreatePKCERequestSession", table: "PKCES", op: "create", key: 2}, storeRow{meth: "GetPKCERequestSession", table: "PKCES", op: "get", key: 2}, storeRow{meth: "DeletePKCERequestSession", table: "PKCES", op: "delete", key: 2})
	defer checkConfigGetters(c, "C03.R6", "GetEnforcePKCE", "GetEnforcePKCEForPublicClients", "GetEnablePKCEPlainChallengeMethod")
	c03R1(c)
	c03R1b(c)
	verifyOK := c03R2(c)
	c03R4(c, verifyOK)
}

func c03R1(c *Ctx) {
	const rule, role = "C03.R1", "pkce-delete"
	fns := c.P.FuncsCalling(".DeletePKCERequestSession")
	var subj []*ssa.Function
	for _, f := range fns {
		if fnPkgPath(f) != pkgStorage {
			subj = append(subj, f)
		}
	}
	if len(subj) == 0 {
		// no delete at all is not a violation of the property (a session that is never
		// cleaned up leaks storage, not the binding); recorded for the floor only.
		c.OK(rule, role, nil, "no-delete-site", "no DeletePKCERequestSession call site exists outside the store")
		return
	}
	for _, fn := range subj {
		ex := c.Explore(fn, handlerCfg(), "handler")
		if !c.complete(ex, rule, role, fn) {
			continue
		}
		ok := true
		var w *Path
		why := ""
		n := 0
		for _, p := range ex.Paths {
			for _, e := range p.Calls(".DeletePKCERequestSession") {
				n++
				cl := p.Classify()
				if cl == ExitSuccess {
					continue
				}
				if p.Kind == "return" && p.ErrRet() != nil && mentionsTerm(p.ErrRet(), e.Result) {
					continue // returns the delete's own error
				}
				ok, w = false, p
				why = fmt.Sprintf("after the PKCE session was deleted (%s) the request can still fail with %s — the code keeps working but has lost its PKCE binding", c.P.Pos(e.Instr.Pos()), clip(p.ErrRet().Pretty(), 140))
			}
		}
		if n == 0 {
			continue
		}
		c.Check(ok, rule, role, fn, "only-success-after-delete", "every exit reachable after DeletePKCERequestSession is a success exit or returns the delete's own error (all verifier checks precede the delete)", why, w)
	}
}

type pkceCase struct{ a, b, cc int }

// noPKCEAllowed: ¬EnforcePKCE ∧ ¬(EnforcePKCEForPublicClients ∧ client.IsPublic()).
func noPKCEAllowed(p *Path, client *Term) bool {
	enf, k1 := p.BoolCall(".GetEnforcePKCE", nil)
	if !k1 || enf {
		return false
	}
	pub, k2 := p.BoolCall(".GetEnforcePKCEForPublicClients", nil)
	if k2 && !pub {
		return true
	}
	isPub, k3 := p.BoolCall(".IsPublic", func(t *Term) bool { return len(t.Args) > 0 && t.Args[0].Key() == client.Key() })
	return k2 && k3 && !isPub
}

func c03R2(c *Ctx) (methodGateAtToken bool) {
	const rule, role = "C03.R2", "pkce-verify"
	fns := c.Calling(c.ValidateFns(), ".GetPKCERequestSession")
	if len(fns) == 0 {
		c.RoleUnmatched(rule, role, "validate-phase function calling GetPKCERequestSession")
		return false
	}
	methodGateAtToken = true
	for _, fn := range fns {
		ex := c.Explore(fn, handlerCfg(), "handler")
		if !c.complete(ex, rule, role, fn) {
			methodGateAtToken = false
			continue
		}
		req := reqParam(fn)
		V := form(req, "code_verifier")
		var cases pkceCase
		ok := true
		var w *Path
		why := ""
		usedReqMethod := false
		for _, p := range ex.Paths {
			if p.FactsMention(form(req, "code_challenge_method").Key()) || p.FactsMention(form(req, "code_challenge").Key()) {
				usedReqMethod = true
			}
			if !p.Success() || p.Kind != "return" {
				continue
			}
			lk := p.First(".GetPKCERequestSession")
			if lk == nil {
				// not responsible (CanHandle false returns an error) – a success exit without lookup is a bypass
				ok, w, why = false, p, "a success exit is reachable without looking up the PKCE session"
				continue
			}
			// the lookup key is the signature of the presented code
			if k := lk.Arg(1); !(k.IsCall(".AuthorizeCodeSignature") && k.Args[len(k.Args)-1].Key() == form(req, "code").Key()) {
				ok, w, why = false, p, "PKCE session is looked up with "+k.Pretty()+", not with the signature of the presented code"
				continue
			}
			stored, lerr := lk.Ret(0), lk.Ret(1)
			C := form(stored, "code_challenge")
			M := form(stored, "code_challenge_method")
			notFound := p.Holds(atomB(call("errors.Is", lerr, &Term{Op: "global", Name: "fosite.ErrNotFound"})), true)
			switch {
			case notFound:
				if p.EmptyStr(V) && noPKCEAllowed(p, getClient(req)) {
					cases.cc++
				} else {
					ok, w, why = false, p, "PKCE session not found: success requires an empty verifier and that PKCE is enforced neither globally nor for this (public) client"
				}
			case p.IsNil(lerr):
				// (b)
				enf, k := p.BoolCall(".GetEnforcePKCE", nil)
				if k && !enf && p.EmptyStr(C) && p.EmptyStr(V) {
					cases.b++
					continue
				}
				// (a)
				if msg := pkceFullCheck(c, p, V, C, M); msg != "" {
					ok, w, why = false, p, msg
				} else {
					cases.a++
					// method gate at token time (layer for R4)
					if !(p.Eq(M, tStr("S256")) || plainEnabled(p)) {
						methodGateAtToken = false
					}
				}
			default:
				ok, w, why = false, p, "success exit with an unclassified lookup error"
			}
		}
		c.Check(ok, rule, role, fn, "verifier-check", "every success exit satisfies case (a) full verifier check, (b) no PKCE data and not enforced, or (c) no session, no verifier, not enforced", why, w)
		c.Check(cases.a > 0, rule, role, fn, "case-a-exists", "a success path performing the full verifier check exists", "no success path carries the verifier/challenge comparison", nil)
		c.Check(!usedReqMethod, "C03.R3", role, fn, "challenge-from-authorization-time", "challenge and method used for verification are read from the stored authorization request, never from the token request", "a branch condition reads code_challenge/code_challenge_method from the token request's form", nil)
		c03Regex(c, fn, ex, V)
	}
	return methodGateAtToken
}

func plainEnabled(p *Path) bool {
	v, k := p.BoolCall(".GetEnablePKCEPlainChallengeMethod", nil)
	return k && v
}

// pkceFullCheck returns "" if path p carries all literals of case (a).
func pkceFullCheck(c *Ctx, p *Path, V, C, M *Term) string {
	lo, hi := p.IntBounds(call("len", V))
	if lo == nil || *lo < 43 {
		return "success without len(code_verifier) >= 43"
	}
	if hi == nil || *hi > 128 {
		return "success without len(code_verifier) <= 128"
	}
	fmtOK := false
	for _, f := range p.Facts {
		if f.Atom.Kind == "B" && f.Atom.A.IsCall(".MatchString") && len(f.Atom.A.Args) == 2 && f.Atom.A.Args[1].Key() == V.Key() {
			fmtOK = true // polarity judged together with the constant in c03Regex
		}
	}
	if !fmtOK {
		return "success without the verifier format test"
	}
	if !p.NonEmptyStr(C) {
		return "success with a verifier but without the stored challenge being known non-empty"
	}
	if p.Eq(M, tStr("S256")) {
		// EQ(EncodeToString(RawURLEncoding, Sum(H,·)), C) with H = sha256.New() and H.Write(V)
		found := false
		for _, f := range p.Facts {
			if f.Atom.Kind != "EQ" || !f.Pol {
				continue
			}
			var enc *Term
			if f.Atom.A.Key() == C.Key() {
				enc = f.Atom.B
			} else if f.Atom.B.Key() == C.Key() {
				enc = f.Atom.A
			}
			if enc == nil || !enc.IsCall(".EncodeToString") || len(enc.Args) != 2 {
				continue
			}
			if enc.Args[0].Key() != "global:encoding/base64.RawURLEncoding" {
				continue
			}
			sum := enc.Args[1]
			// one-shot form: sha256.Sum256([]byte(V))[:]
			if sum.Op == "slice" && len(sum.Args) == 3 && sum.Args[1].Key() == tConst("_").Key() && sum.Args[2].Key() == tConst("_").Key() {
				if d := sum.Args[0]; d.IsCall("sha256.Sum256") && len(d.Args) == 1 {
					arg := d.Args[0]
					for arg.Op == "convert" && len(arg.Args) == 1 {
						arg = arg.Args[0]
					}
					if arg.Key() == V.Key() {
						found = true
					}
				}
				continue
			}
			if !sum.IsCall(".Sum") || len(sum.Args) < 1 {
				continue
			}
			H := sum.Args[0]
			if !H.IsCall("sha256.New") {
				continue
			}
			// exactly one Write on H, with V, before Sum
			writes := 0
			good := false
			for _, e := range p.Calls(".Write") {
				if e.Recv != nil && e.Recv.Key() == H.Key() {
					writes++
					if e.Arg(0).Key() == V.Key() {
						good = true
					}
				}
			}
			if writes == 1 && good {
				found = true
			}
		}
		if !found {
			return "method S256: success without base64url(sha256(code_verifier)) == stored challenge"
		}
		return ""
	}
	if p.Ne(M, tStr("S256")) {
		if !p.Eq(V, C) {
			return "method plain: success without code_verifier == stored challenge"
		}
		return ""
	}
	return "success without the stored method having been compared with S256"
}

// c03Regex: constant-fold the format regular expression and check that with the
// polarity used on success paths it admits exactly [A-Za-z0-9._~-]+.
func c03Regex(c *Ctx, fn *ssa.Function, ex *Exploration, V *Term) {
	const rule, role = "C03.R2", "pkce-verify"
	var g *Term
	pol := false
	for _, p := range ex.Paths {
		if !p.Success() {
			continue
		}
		for _, f := range p.Facts {
			if f.Atom.Kind == "B" && f.Atom.A.IsCall(".MatchString") && len(f.Atom.A.Args) == 2 && f.Atom.A.Args[1].Key() == V.Key() {
				g, pol = f.Atom.A.Args[0], f.Pol
			}
		}
	}
	if g == nil {
		return // reported by verifier-check
	}
	if g.Op != "global" {
		c.Bad(rule, role, fn, "format-regex", "the verifier format test uses a package-level constant regular expression", "format test receiver is "+g.Pretty(), nil)
		return
	}
	pat, ok := c.P.GlobalRegexp(g.Name)
	if !ok {
		c.Undecided(rule, role, fn, "format-regex", "the verifier format regular expression is a constant", "cannot resolve the initialiser of "+g.Name)
		return
	}
	re, err := regexp.Compile(pat)
	if err != nil {
		c.Bad(rule, role, fn, "format-regex", "the verifier format regular expression compiles", err.Error(), nil)
		return
	}
	allowed := func(b byte) bool {
		return b >= 'a' && b <= 'z' || b >= 'A' && b <= 'Z' || b >= '0' && b <= '9' || b == '.' || b == '_' || b == '~' || b == '-'
	}
	bad := ""
	for i := 0; i < 256 && bad == ""; i++ {
		b := byte(i)
		// accepted on the success path  <=>  MatchString(...) == pol
		for _, s := range []string{string([]byte{b}), "aZ0" + string([]byte{b}) + "aZ0", strings.Repeat("a", 42) + string([]byte{b})} {
			acc := re.MatchString(s) == pol
			if acc != allowed(b) {
				bad = fmt.Sprintf("pattern %q with polarity %v accepts=%v for byte 0x%02x in %q (unreserved=%v)", pat, pol, acc, b, s, allowed(b))
				break
			}
		}
	}
	c.Check(bad == "", rule, role, fn, "format-regex", "the format test admits exactly the unreserved characters [A-Za-z0-9._~-] (regular expression constant evaluated by the checker on all byte values)", bad, nil)
}

// GlobalRegexp resolves a package-level *regexp.Regexp initialised with
// regexp.MustCompile(<constant>) and returns the constant.
func (P *Program) GlobalRegexp(name string) (string, bool) {
	for _, sp := range P.Subjects {
		initFn := sp.Func("init")
		if initFn == nil {
			continue
		}
		for _, b := range initFn.Blocks {
			for _, ins := range b.Instrs {
				st, ok := ins.(*ssa.Store)
				if !ok {
					continue
				}
				g, ok := st.Addr.(*ssa.Global)
				if !ok || globalName(g) != name {
					continue
				}
				call, ok := st.Val.(*ssa.Call)
				if !ok {
					return "", false
				}
				sf := call.Common().StaticCallee()
				if sf == nil || sf.Pkg == nil || sf.Pkg.Pkg.Path() != "regexp" || (sf.Name() != "MustCompile" && sf.Name() != "MustCompilePOSIX") {
					return "", false
				}
				k, ok := call.Common().Args[0].(*ssa.Const)
				if !ok || k.Value == nil || k.Value.Kind() != constant.String {
					return "", false
				}
				return constant.StringVal(k.Value), true
			}
		}
	}
	return "", false
}

func c03R4(c *Ctx, methodGateAtToken bool) {
	const rule, role = "C03.R4", "pkce-bind"
	fns := c.Calling(c.AuthorizeFns(), ".CreatePKCERequestSession")
	if len(fns) == 0 {
		c.RoleUnmatched(rule, role, "authorize-phase function calling CreatePKCERequestSession")
		return
	}
	for _, fn := range fns {
		ex := c.Explore(fn, handlerCfg(), "handler")
		if !c.complete(ex, rule, role, fn) {
			continue
		}
		ar := reqParam(fn)
		resp := paramByType(fn, "fosite.AuthorizeResponder")
		C := form(ar, "code_challenge")
		M := form(ar, "code_challenge_method")
		okStore, okNo, okGate, okUnknown := true, true, true, true
		var wStore, wNo, wGate, wUnknown *Path
		whyStore := ""
		nChallenge := 0
		for _, p := range ex.Paths {
			if !p.Success() || p.Kind != "return" {
				continue
			}
			// not a code request: nothing to bind
			if v, k := p.BoolCall(".Has", func(t *Term) bool {
				return len(t.Args) == 2 && t.Args[0].Key() == call(".GetResponseTypes", ar).Key()
			}); k && !v {
				continue
			}
			switch {
			case p.EmptyStr(C):
				if !noPKCEAllowed(p, getClient(ar)) {
					okNo, wNo = false, p
				}
				// an empty challenge with a non-empty method may still be stored; harmless
			case p.NonEmptyStr(C):
				nChallenge++
				cr := p.First(".CreatePKCERequestSession")
				if cr == nil {
					okStore, wStore, whyStore = false, p, "success with a non-empty code_challenge but no CreatePKCERequestSession"
					break
				}
				if !p.IsNil(cr.Result) {
					okStore, wStore, whyStore = false, p, "success although CreatePKCERequestSession's error is not known nil"
				}
				k := cr.Arg(1)
				if !(k.IsCall(".AuthorizeCodeSignature") && resp != nil && k.Args[len(k.Args)-1].Key() == call(".GetCode", resp).Key()) {
					okStore, wStore, whyStore = false, p, "PKCE session key is "+k.Pretty()+", not the signature of the code in this response"
				}
				st := cr.Arg(2)
				if !(st.IsCall(".Sanitize") && len(st.Args) == 2 && st.Args[0].Key() == ar.Key() && litHas(st.Args[1], "code_challenge") && litHas(st.Args[1], "code_challenge_method")) {
					okStore, wStore, whyStore = false, p, "stored request is "+clip(st.Pretty(), 160)+": must be Sanitize(request, whitelist ⊇ {code_challenge, code_challenge_method})"
				}
				// method gate
				isS256 := p.Eq(M, tStr("S256"))
				isPlain := p.Eq(M, tStr("plain")) || p.EmptyStr(M)
				if !isS256 && !isPlain {
					okUnknown, wUnknown = false, p
				}
				if isPlain && !plainEnabled(p) {
					okGate, wGate = false, p
				}
			default:
				okStore, wStore, whyStore = false, p, "success path that never tested whether a code_challenge is present"
			}
		}
		c.Check(okNo, rule, role, fn, "absent-challenge-needs-no-enforcement", "authorization without a code_challenge succeeds only if PKCE is enforced neither globally nor for this public client", "a success path with an empty challenge lacks the enforcement literals", wNo)
		if nChallenge == 0 {
			c.Bad(rule, role, fn, "binds-challenge", "a success path with a non-empty challenge exists", "none found", nil)
			continue
		}
		c.Check(okStore, rule, role, fn, "binds-challenge", "a non-empty challenge is persisted under the code's signature, keeping challenge and method", whyStore, wStore)
		// layered: plain gate at authorize time OR at token time
		if okGate && okUnknown {
			c.OK(rule, role, fn, "plain-needs-opt-in", "plain/empty method is accepted only when explicitly enabled; unknown methods are refused").Layer = "authorize"
		} else if methodGateAtToken {
			c.OK(rule, role, fn, "plain-needs-opt-in", "plain/empty method is accepted only when explicitly enabled; unknown methods are refused").Layer = "token (re-validation of the stored method)"
		} else {
			w := wGate
			if w == nil {
				w = wUnknown
			}
			c.Bad(rule, role, fn, "plain-needs-opt-in", "plain/empty method is accepted only when explicitly enabled and unknown methods are refused, at authorization time or when the code is redeemed", "neither the authorize-time validation nor the token-time re-validation of the stored method gates plain on GetEnablePKCEPlainChallengeMethod", w)
		}
	}
}

func litHas(l *Term, s string) bool {
	if l.Op != "lit" {
		return false
	}
	for _, a := range l.Args {
		if v, ok := a.StrConst(); ok && v == s {
			return true
		}
	}
	return false
}

// c03R1b: the PKCE binding may only be removed in the issue phase, after the
// handler that redeems the code: a request that passed the verifier check can
// still fail later (another handler, a storage fault, a rollback), and the code
// must then still carry its binding.
func c03R1b(c *Ctx) {
	const rule, role = "C03.R1", "pkce-delete"
	var phases []*ssa.Function
	phases = append(phases, c.ValidateFns()...)
	phases = append(phases, c.AuthorizeFns()...)
	n := 0
	for _, fn := range phases {
		n++
		if c.P.CallsNamed(fn, ".DeletePKCERequestSession", 4) {
			c.Bad(rule, role, fn, "delete-not-before-redemption", "DeletePKCERequestSession is not reachable from a validate-phase or authorize-phase function (a token request that passed the PKCE check can still fail before the code is redeemed)", "the PKCE session is deleted in a phase that precedes the redemption of the code", nil)
		}
	}
	if n > 0 {
		c.OK(rule, role, nil, "delete-not-before-redemption:all", "no validate/authorize-phase function reaches DeletePKCERequestSession")
	}
	del := c.Calling(c.IssueFns(), ".DeletePKCERequestSession")
	for _, fn := range del {
		// the deleting handler must be registered after the handler that redeems the code
		for _, red := range c.codeRedeemFns() {
			c.checkComposeOrder("C03.R5", recvTypeName(red), recvTypeName(fn), "the PKCE session is removed only after the code was redeemed")
		}
	}
}
