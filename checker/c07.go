package main

import (
	"fmt"
	"go/types"
	"os"
	"reflect"
	"strings"

	"golang.org/x/tools/go/ssa"
)

func init() {
	register(&propInfo{
		ID:          "C07",
		Run:         runC07,
		MinObl:      77,
		Explanation: "Decided: R1 expiry guards — every module implementation of Validate{AccessToken,AuthorizeCode,RefreshToken,DeviceCode,UserCode} reaches a success exit only with ¬(IsZero(exp) ∧ Before(RequestedAt+lifespan_K, now)) ∧ ¬(¬IsZero(exp) ∧ Before(exp, now)) where exp = GetExpiresAt(session, K) for the token type K the method is named for and lifespan_K its configuration getter (refresh: a zero expiry means unlimited); the expiry exit derives from ErrTokenExpired / ErrDeviceExpiredToken; JWT: the JWT access-token validator returns Claims.Valid() after a successful decode, MapClaims.Valid returns nil only if VerifyExpiresAt/IssuedAt/NotBefore(now) held, and the small comparators return now<=exp, now>=iat, now>=nbf; R2 writer/reader agreement: every token type with a SetExpiresAt(K, ·) writer in the module has a reader in this table that passed (par_context: the authorization endpoint's PAR continuation); R3 lifespan keys: every SetExpiresAt(K, now+d) with d from GetEffectiveLifespan(client, G, K', fallback) has K==K', fallback = the configuration getter of K and G = the grant constant of the enclosing handler type (frozen table); refresh-token writers are guarded by d > -1; in the per-client lifespan selector each of the 12 ClientLifespanConfig fields is returned only under the (grant, token type) pair it is declared for; R4 advertised lifetime: every SetExpiresIn / expires_in parameter derives from GetExpiresAt(session, access_token) − now or the same effective lifespan, the JWT exp claim is GetExpiresAt(session, token type), device expires_in derives from the stored user_code expiry, PAR expires_in from the stored expiry's lifespan; R5 JWT assertions: client assertions and JWT-bearer grants succeed only with Claims.Valid()==nil / the exp claim checked against now. R4 (builder) every implementation of JWTClaimsContainer.With installs its expiry argument into ExpiresAt on every path; R6 after a storage lookup Validate{AccessToken,RefreshToken,DeviceCode} judge the request the store returned, not the incoming request (documented exception: the authorization-code handler, whose issue phase re-validates with the stored session installed); R7 every SetExpiresAt(kind) on a request's session precedes the storage call that persists the credential of that kind. NOT decided: numeric agreement of expires_in with wall-clock time, what now is.",
	})
}

type expSpec struct {
	method, iface, ifacePkg string
	kind                    string   // TokenType constant name
	lifespan                []string // configuration getter(s)
	expiredErr              string
	zeroUnlimited           bool
}

var expSpecs = []expSpec{
	{"ValidateAccessToken", "AccessTokenStrategy", pkgOAuth2, "AccessToken", []string{".GetAccessTokenLifespan"}, "fosite.ErrTokenExpired", false},
	{"ValidateAuthorizeCode", "AuthorizeCodeStrategy", pkgOAuth2, "AuthorizeCode", []string{".GetAuthorizeCodeLifespan"}, "fosite.ErrTokenExpired", false},
	{"ValidateRefreshToken", "RefreshTokenStrategy", pkgOAuth2, "RefreshToken", []string{".GetRefreshTokenLifespan"}, "fosite.ErrTokenExpired", true},
	{"ValidateDeviceCode", "DeviceCodeStrategy", pkgDevice, "DeviceCode", []string{".GetDeviceAndUserCodeLifespan"}, "fosite.ErrDeviceExpiredToken", false},
	{"ValidateUserCode", "UserCodeStrategy", pkgDevice, "UserCode", []string{".GetDeviceAndUserCodeLifespan"}, "fosite.ErrDeviceExpiredToken", false},
}

func strategyCfg() ExploreConfig {
	return ExploreConfig{Inline: func(fn *ssa.Function) bool {
		if defaultInline(fn) {
			return true
		}
		p := fnPkgPath(fn)
		// strategies delegate to each other (prefixed -> unprefixed, JWT -> HMAC); HMAC core stays opaque
		return strings.HasPrefix(p, modPath+"/handler/") && strings.HasPrefix(fn.Name(), "Validate")
	}}
}

func runC07(c *Ctx) {
	defer checkClaimsWith(c, "C07.R12")
	defer checkRegisteredClaimsWin(c, "C07.R11", "(*"+pkgJWT+".JWTClaims).ToMap", "exp")
	defer checkSessionSetExpiresAt(c, "C07.R10")
	defer checkConfigGetters(c, "C07.R9", "GetAccessTokenLifespan", "GetRefreshTokenLifespan", "GetAuthorizeCodeLifespan", "GetIDTokenLifespan", "GetDeviceAndUserCodeLifespan", "GetPushedAuthorizeContextLifespan", "GetJWTMaxDuration")
	readers := c07R1(c)
	c07JWT(c)
	c07R2(c, readers)
	c07R3(c)
	c07Selector(c)
	c07R4(c)
	c07R5(c)
	c07ValidatedObject(c)
	c07StampBeforePersist(c)
	c07StampBase(c)
}

// notExpired: the path carries the literal "t is not before now" for term t.
func notBeforeNow(p *Path, t *Term) (known bool, expired bool) {
	for _, f := range p.Facts {
		if f.Atom.Kind != "B" {
			continue
		}
		a := f.Atom.A
		if a.IsCall(".Before") && len(a.Args) == 2 && a.Args[0].Key() == t.Key() && mentionsNow(a.Args[1]) {
			return true, f.Pol
		}
		if a.IsCall(".After") && len(a.Args) == 2 && a.Args[1].Key() == t.Key() && mentionsNow(a.Args[0]) {
			return true, f.Pol
		}
	}
	return false, false
}

func c07R1(c *Ctx) map[string]bool {
	const rule = "C07.R1"
	readers := map[string]bool{}
	for _, sp := range expSpecs {
		K := c.constTerm(pkgRoot, sp.kind)
		fns := c.Impls(sp.ifacePkg, sp.iface, sp.method)
		if K == nil || len(fns) == 0 {
			c.RoleUnmatched(rule, "strategy."+sp.method, "module implementation of "+sp.iface+"."+sp.method)
			continue
		}
		allOK := true
		nHMAC := 0
		for _, fn := range fns {
			// the JWT strategy's access-token validator is judged by c07JWT
			if sp.method == "ValidateAccessToken" && c.P.CallsNamed(fn, ".Decode", 3) {
				continue
			}
			ex := c.Explore(fn, strategyCfg(), "strategy")
			if !c.complete(ex, rule, "strategy", fn) {
				allOK = false
				continue
			}
			// pure delegation to the same method of an embedded/wrapped strategy is judged at the delegate
			if delegatesTo(ex, "."+sp.method) {
				c.OK(rule, "strategy", fn, "expiry-guard:"+sp.kind, "success requires the "+sp.kind+" expiry not to be before now").Layer = "delegates to the wrapped strategy's " + sp.method
				continue
			}
			nHMAC++
			r := paramNamed(fn, 2)
			exp := call(".GetExpiresAt", call(".GetSession", r), K)
			ok, okErr := true, true
			var w, wErr *Path
			why := ""
			nS, nE := 0, 0
			for _, p := range ex.Paths {
				if p.Kind != "return" {
					continue
				}
				z, zk := p.BoolCall(".IsZero", func(t *Term) bool { return t.Args[0].Key() == exp.Key() })
				if p.Success() {
					nS++
					switch {
					case !zk:
						ok, w, why = false, p, "a success exit is reachable without IsZero(GetExpiresAt(session, "+sp.kind+")) having been tested"
					case z && sp.zeroUnlimited:
					case z:
						good := false
						for _, lg := range sp.lifespan {
							for _, f := range p.Facts {
								if f.Atom.Kind == "B" && !f.Pol && f.Atom.A.IsCall(".Before") && len(f.Atom.A.Args) == 2 && mentionsNow(f.Atom.A.Args[1]) {
									d := f.Atom.A.Args[0]
									if d.IsCall(".Add") && len(d.Args) == 2 && d.Args[0].Key() == call(".GetRequestedAt", r).Key() && d.Args[1].IsCall(lg) {
										good = true
									}
								}
							}
						}
						if !good {
							ok, w, why = false, p, "zero expiry: success without ¬Before(RequestedAt + "+strings.Join(sp.lifespan, "|")+", now)"
						}
					default:
						k, e := notBeforeNow(p, exp)
						if !k || e {
							ok, w, why = false, p, "non-zero expiry: success without ¬Before(exp, now)"
						}
					}
				}
				// expiry exits
				if k, e := notBeforeNow(p, exp); k && e {
					nE++
					if p.Classify() != ExitFail || errorRoot(p.ErrRet()) != sp.expiredErr {
						okErr, wErr = false, p
					}
				}
			}
			c.Check(ok && nS > 0, rule, "strategy", fn, "expiry-guard:"+sp.kind, "success requires the "+sp.kind+" expiry (explicit, or RequestedAt + configured lifespan) not to be before now", why, w)
			c.Check(okErr && nE > 0, rule, "strategy", fn, "expired-error:"+sp.kind, "the expiry exit derives from "+sp.expiredErr, "no expiry exit, or it returns another error", wErr)
			if !(ok && nS > 0) {
				allOK = false
			}
		}
		if nHMAC == 0 {
			c.RoleUnmatched(rule, "strategy."+sp.method, "an opaque-token implementation of "+sp.method)
			allOK = false
		}
		if allOK {
			v, _ := K.StrConst()
			readers[v] = true
		}
	}
	return readers
}

func c07JWT(c *Ctx) {
	const rule = "C07.R1"
	// (i) the JWT access-token validator returns Claims.Valid() of the decoded token
	n := 0
	for _, fn := range c.Impls(pkgOAuth2, "AccessTokenStrategy", "ValidateAccessToken") {
		if !c.P.CallsNamed(fn, ".Decode", 3) {
			continue
		}
		n++
		ex := c.Explore(fn, handlerCfg(), "handler")
		if !c.complete(ex, rule, "jwt-strategy", fn) {
			continue
		}
		ok := true
		var w *Path
		for _, p := range ex.Paths {
			if !p.Success() || p.Kind != "return" {
				continue
			}
			dec := p.First(".Decode")
			if dec == nil || !p.IsNil(dec.Ret(1)) {
				ok, w = false, p
				continue
			}
			v := call(".Valid", field(dec.Ret(0), "Claims"))
			er := unwrapStack(p.ErrRet())
			if !(er.Key() == v.Key() || p.IsNil(v)) {
				ok, w = false, p
			}
		}
		c.Check(ok, rule, "jwt-strategy", fn, "claims-validated", "the JWT access-token validator succeeds only if Decode succeeded and Claims.Valid() of the decoded token is nil", "a success exit does not depend on Claims.Valid()", w)
	}
	if n == 0 {
		c.RoleUnmatched(rule, "jwt-strategy", "JWT implementation of ValidateAccessToken")
	}
	// (ii) MapClaims.Valid
	if fn := c.P.Func("(" + pkgJWT + ".MapClaims).Valid"); fn != nil {
		ex := c.Explore(fn, ExploreConfig{}, "jwt")
		if c.complete(ex, rule, "jwt-claims", fn) {
			ok := true
			var w *Path
			why := ""
			for _, p := range ex.Paths {
				if p.Kind != "return" || !p.IsNil(p.Rets[0]) && p.Rets[0].Op != "nil" {
					continue
				}
				for _, m := range []string{".VerifyExpiresAt", ".VerifyIssuedAt", ".VerifyNotBefore"} {
					e := p.First(m)
					if e == nil || !p.True(e.Result) {
						ok, w, why = false, p, "nil is returned although "+m[1:]+" did not hold"
						continue
					}
					if !e.Arg(0).Mentions(func(s *Term) bool {
						return s.Op == "global" && strings.HasSuffix(s.Name, "TimeFunc") || s.IsCall("time.Now")
					}) {
						ok, w, why = false, p, m[1:]+" is not evaluated against the current time"
					}
				}
			}
			c.Check(ok, rule, "jwt-claims", fn, "valid-needs-time-checks", "MapClaims.Valid returns nil only if exp, iat and nbf verified against the current time", why, w)
		}
	} else {
		c.RoleUnmatched(rule, "jwt-claims", "jwt.MapClaims.Valid")
	}
	// (iii) comparators
	for _, cmp := range []struct{ name, want string }{{"verifyExp", "now<x"}, {"verifyIat", "now>=x"}, {"verifyNbf", "now>=x"}} {
		fn := c.P.Func(pkgJWT + "." + cmp.name)
		if fn == nil {
			c.RoleUnmatched(rule, "jwt-comparator", pkgJWT+"."+cmp.name)
			continue
		}
		ex := c.Explore(fn, ExploreConfig{}, "jwt")
		x, now := paramNamed(fn, 0), paramNamed(fn, 1)
		ok := false
		bad := ""
		for _, p := range ex.Paths {
			if p.Kind != "return" || len(p.Rets) != 1 {
				continue
			}
			if p.Eq(x, tInt(0)) {
				continue // absent claim: governed by 'required'
			}
			var want Fact
			if cmp.want == "now<x" {
				// whole seconds: floor(now) <= exp would still honour the token during the
				// second that follows its expiry instant (RFC 7519 4.1.4: now MUST be before exp)
				want = Fact{atomLT(now, x), true}
			} else {
				want = Fact{atomLT(now, x), false}
			}
			// boolean results are split into a true and a false exit (emitSplit)
			switch p.Rets[0].Key() {
			case tTrue.Key():
				if p.Holds(want.Atom, want.Pol) {
					ok = true
				} else {
					bad = "true is returned without " + want.String()
				}
			case tFalse.Key():
				if !p.Holds(want.Atom, !want.Pol) {
					bad = "false is returned although the comparison is not known to fail"
				}
			default:
				bad = "returns " + p.Rets[0].Pretty()
			}
		}
		c.Check(ok && bad == "", rule, "jwt-comparator", fn, "comparison", cmp.name+" returns "+cmp.want+" for a present claim", bad, nil)
	}
}

// writers: token-type constants passed to SetExpiresAt anywhere in the module.
func (c *Ctx) expiryWriters() map[string][]string {
	out := map[string][]string{}
	for _, fn := range c.P.AllFuncs {
		for _, b := range fn.Blocks {
			for _, ins := range b.Instrs {
				call, ok := ins.(*ssa.Call)
				if !ok {
					continue
				}
				cm := call.Common()
				name := ""
				if cm.IsInvoke() {
					name = cm.Method.Name()
				} else if sf := cm.StaticCallee(); sf != nil {
					name = sf.Name()
				}
				if name != "SetExpiresAt" || len(cm.Args) < 2 {
					continue
				}
				k := cm.Args[len(cm.Args)-2]
				if fn.Name() == "SetExpiresAt" {
					continue
				}
				// the token type is a constant here, or a parameter that every caller
				// (transitively, within the module) binds to a constant
				ks, ok := c.P.constValues(fn, k, 3)
				if !ok {
					out["<non-constant>"] = append(out["<non-constant>"], c.P.Pos(call.Pos()))
					continue
				}
				for _, kv := range ks {
					out[kv] = append(out[kv], c.P.Pos(call.Pos()))
				}
			}
		}
	}
	return out
}

// constValues resolves v, used in fn, to the set of string constants it can
// denote: a constant, a conversion of one, or a parameter of fn that every
// static caller in the module binds to such a value (depth-bounded).
func (P *Program) constValues(fn *ssa.Function, v ssa.Value, depth int) ([]string, bool) {
	switch x := v.(type) {
	case *ssa.Const:
		if x.Value == nil {
			return nil, false
		}
		return []string{strings.Trim(x.Value.ExactString(), `"`)}, true
	case *ssa.ChangeType:
		return P.constValues(fn, x.X, depth)
	case *ssa.Convert:
		return P.constValues(fn, x.X, depth)
	case *ssa.Phi:
		var out []string
		for _, e := range x.Edges {
			vs, ok := P.constValues(fn, e, depth)
			if !ok {
				return nil, false
			}
			out = append(out, vs...)
		}
		return out, true
	case *ssa.Parameter:
		if depth == 0 {
			return nil, false
		}
		idx := -1
		for i, p := range fn.Params {
			if p == x {
				idx = i
			}
		}
		if idx < 0 {
			return nil, false
		}
		var out []string
		n := 0
		for _, caller := range P.AllFuncs {
			for _, b := range caller.Blocks {
				for _, ins := range b.Instrs {
					ci, ok := ins.(ssa.CallInstruction)
					if !ok {
						continue
					}
					cm := ci.Common()
					if cm.IsInvoke() || cm.StaticCallee() != fn || idx >= len(cm.Args) {
						continue
					}
					n++
					vs, ok := P.constValues(caller, cm.Args[idx], depth-1)
					if !ok {
						return nil, false
					}
					out = append(out, vs...)
				}
			}
		}
		return out, n > 0
	}
	return nil, false
}

func c07R2(c *Ctx, readers map[string]bool) {
	const rule = "C07.R2"
	// par_context reader: evaluated by the same rule as C17.R3
	sub := newCtx(c.P, "C17", c.Tier)
	c17Use(sub)
	for _, o := range sub.Obls {
		if os.Getenv("FOSITELINT_DEBUG") != "" {
			fmt.Fprintln(os.Stderr, "sub:", o.Key(), o.Status, o.Why)
		}
		if o.Rule == "C17.R3" && o.Status == "discharged" {
			if k := c.constTerm(pkgRoot, "PushedAuthorizeRequestContext"); k != nil {
				v, _ := k.StrConst()
				readers[v] = true
			}
		}
	}
	ws := c.expiryWriters()
	if len(ws) < 5 {
		c.RoleUnmatched(rule, "expiry-writers", fmt.Sprintf("at least 5 token types with a SetExpiresAt writer; found %d", len(ws)))
	}
	// ... and the converse: a kind whose expiry is enforced on the consumption path is stamped by
	// someone (a writer that stamps another kind leaves the reader comparing a zero time, which the
	// readers treat as "no expiry")
	for _, k := range sortedKeys(readers) {
		if !readers[k] {
			continue
		}
		c.Check(len(ws[k]) > 0, rule, "writer-reader", nil, "writer-for:"+k, "every token type whose expiry is enforced has a SetExpiresAt writer in the module", fmt.Sprintf("the expiry of %q is read and enforced but nothing writes it", k), nil)
	}
	for k, sites := range ws {
		c.Check(readers[k], rule, "writer-reader", nil, "reader-for:"+k, "every token type whose expiry is written has a reader that compares it with now and guards a fail exit", fmt.Sprintf("expiry of %q is written (%s) but no reader enforces it", k, strings.Join(sites, ", ")), nil)
	}
}

var handlerGrant = map[string]string{
	pkgOAuth2 + ".AuthorizeExplicitGrantHandler":                "GrantTypeAuthorizationCode",
	pkgOAuth2 + ".RefreshTokenGrantHandler":                     "GrantTypeRefreshToken",
	pkgOAuth2 + ".ClientCredentialsGrantHandler":                "GrantTypeClientCredentials",
	pkgOAuth2 + ".ResourceOwnerPasswordCredentialsGrantHandler": "GrantTypePassword",
	pkgOAuth2 + ".AuthorizeImplicitGrantTypeHandler":            "GrantTypeImplicit",
	pkgJWTB + ".Handler":                                        "GrantTypeJWTBearer",
	pkgDevice + ".DeviceCodeTokenEndpointHandler":               "GrantTypeDeviceCode",
	pkgOpenID + ".OpenIDConnectExplicitHandler":                 "GrantTypeAuthorizationCode",
	pkgOpenID + ".OpenIDConnectImplicitHandler":                 "GrantTypeImplicit",
	pkgOpenID + ".OpenIDConnectHybridHandler":                   "GrantTypeImplicit",
	pkgOpenID + ".OpenIDConnectRefreshHandler":                  "GrantTypeRefreshToken",
	pkgOpenID + ".OpenIDConnectDeviceHandler":                   "GrantTypeDeviceCode",
}

var kindLifespan = map[string]string{
	"access_token": ".GetAccessTokenLifespan", "refresh_token": ".GetRefreshTokenLifespan",
	"authorize_code": ".GetAuthorizeCodeLifespan", "id_token": ".GetIDTokenLifespan",
}

func lifespanInline(fn *ssa.Function) bool {
	// only the handler's own small helpers (grant-type selector, getExpiresIn); nothing that multiplies paths
	if defaultInline(fn) && fn.Parent() == nil && len(fn.Blocks) <= 4 || fn.Name() == "IssueImplicitAccessToken" || fn.Name() == "IssueAccessToken" {
		return true
	}
	// ... and a helper that stamps expiries or selects a lifespan itself (the "stamp access and refresh
	// expiry" block extracted from several handlers), as long as it is small
	return defaultInline(fn) && fn.Parent() == nil && len(fn.Blocks) <= 14 && callsAnyNamed(fn, "SetExpiresAt", "GetEffectiveLifespan")
}

// callsAnyNamed: the function body contains a call (static or through an interface) of one of the names.
func callsAnyNamed(fn *ssa.Function, names ...string) bool {
	for _, b := range fn.Blocks {
		for _, ins := range b.Instrs {
			ci, ok := ins.(ssa.CallInstruction)
			if !ok {
				continue
			}
			n := ""
			if ci.Common().IsInvoke() {
				n = ci.Common().Method.Name()
			} else if sf := ci.Common().StaticCallee(); sf != nil {
				n = sf.Name()
			}
			for _, w := range names {
				if n == w {
					return true
				}
			}
		}
	}
	return false
}

func c07R3(c *Ctx) {
	const rule = "C07.R3"
	nEL := 0
	for _, en := range c.allEntries() {
		if en.role == "endpoint" || !c.P.CallsNamed(en.fn, "fosite.GetEffectiveLifespanX", 0) && !c.P.UsesFunc(en.fn, pkgRoot+".GetEffectiveLifespan", 3) && !c.P.RefsMethod(en.fn, 3, ".GetEffectiveLifespan") {
			continue
		}
		ex := c.Explore(en.fn, ExploreConfig{Inline: lifespanInline, KeepPure: true}, "lifespan")
		if !c.complete(ex, rule, en.role, en.fn) {
			continue
		}
		wantG := c.constTerm(pkgRoot, handlerGrant[recvTypeName(en.fn)])
		ok := true
		var w *Path
		why := ""
		seen := false
		check := func(p *Path, t *Term, K *Term) {
			t.Walk(func(s *Term) bool {
				// the package function, or the client's method it wraps (same operands after the client)
				if !(s.IsCall("fosite.GetEffectiveLifespan") || s.IsCall(".GetEffectiveLifespan")) || len(s.Args) != 4 {
					return true
				}
				seen = true
				G, K2, fb := s.Args[1], s.Args[2], s.Args[3]
				if wantG == nil {
					ok, w, why = false, p, "handler type "+recvTypeName(en.fn)+" has no grant constant in the table"
				} else if G.Key() != wantG.Key() {
					ok, w, why = false, p, fmt.Sprintf("GetEffectiveLifespan is called with grant %s in a handler of grant %s", G.Pretty(), wantG.Pretty())
				}
				if K != nil && K.Key() != K2.Key() {
					ok, w, why = false, p, fmt.Sprintf("expiry of %s is computed from the lifespan of %s", K.Pretty(), K2.Pretty())
				}
				if kv, isC := K2.StrConst(); isC {
					if g := kindLifespan[kv]; g == "" || !fb.IsCall(g) {
						ok, w, why = false, p, fmt.Sprintf("fallback for %s is %s, expected %s", kv, clip(fb.Pretty(), 60), g)
					}
				}
				return true
			})
		}
		for _, p := range ex.Paths {
			for _, e := range p.Events {
				if e.Kind == "pure" && e.Name == "fosite.GetEffectiveLifespan" && e.Result != nil {
					check(p, e.Result, nil)
				}
				if e.Kind == "call" && e.Name == ".SetExpiresAt" {
					K, X := e.Arg(0), e.Arg(1)
					check(p, X, K)
					// a stamp computed from the plain configuration value uses the getter of its own kind
					if kv, isC := K.StrConst(); isC && kindLifespan[kv] != "" {
						for other, g := range kindLifespan {
							if other != kv && g != kindLifespan[kv] && X.Mentions(func(s *Term) bool { return s.IsCall(g) }) && !X.Mentions(func(s *Term) bool { return s.IsCall(kindLifespan[kv]) }) {
								ok, w, why = false, p, fmt.Sprintf("the %s expiry is computed from %s", kv, g)
							}
						}
					}
					if !mentionsNow(X) {
						ok, w, why = false, p, "SetExpiresAt("+K.Pretty()+") is not computed from the current time"
					}
					if kv, _ := K.StrConst(); kv == "refresh_token" {
						// guarded by d > -1
						var d *Term
						X.Walk(func(s *Term) bool {
							if s.IsCall("fosite.GetEffectiveLifespan") || s.IsCall(".GetEffectiveLifespan") {
								d = s
							}
							return true
						})
						if d != nil {
							lo, _ := p.IntBoundsAt(e, d)
							if lo == nil || *lo < 0 {
								ok, w, why = false, p, "the refresh-token expiry is written without the lifespan being known > -1 (-1 means never expires)"
							}
						}
					}
				}
			}
		}
		if seen {
			nEL++
			c.Check(ok, rule, en.role, en.fn, "lifespan-keys", "GetEffectiveLifespan is called with the handler's grant constant, the token type whose expiry is written and that type's configuration getter as fallback; refresh expiry only for lifespans > -1", why, w)
		}
	}
	if nEL < 10 {
		c.RoleUnmatched(rule, "effective-lifespan-users", fmt.Sprintf("at least 10 handler functions using GetEffectiveLifespan; found %d", nEL))
	}
}

// UsesFunc: fn (or static callees up to depth) calls the named package-level function.
func (P *Program) UsesFunc(fn *ssa.Function, full string, depth int) bool {
	seen := map[*ssa.Function]bool{}
	var rec func(f *ssa.Function, d int) bool
	rec = func(f *ssa.Function, d int) bool {
		if f == nil || seen[f] {
			return false
		}
		seen[f] = true
		for _, b := range f.Blocks {
			for _, ins := range b.Instrs {
				if mc, ok := ins.(*ssa.MakeClosure); ok {
					if rec(mc.Fn.(*ssa.Function), d) {
						return true
					}
				}
				call, ok := ins.(ssa.CallInstruction)
				if !ok {
					continue
				}
				if sf := call.Common().StaticCallee(); sf != nil {
					if sf.String() == full {
						return true
					}
					if d > 0 && isSubjectPkg(fnPkgPath(sf)) && rec(sf, d-1) {
						return true
					}
				}
			}
		}
		return false
	}
	return rec(fn, depth)
}

func c07Selector(c *Ctx) {
	const rule, role = "C07.R3", "lifespan-select"
	grantNames := map[string]string{
		"authorization_code": "GrantTypeAuthorizationCode", "client_credentials": "GrantTypeClientCredentials", "implicit": "GrantTypeImplicit",
		"jwt_bearer": "GrantTypeJWTBearer", "password": "GrantTypePassword", "refresh_token": "GrantTypeRefreshToken", "device_code": "GrantTypeDeviceCode",
	}
	tokNames := map[string]string{"access_token": "AccessToken", "id_token": "IDToken", "refresh_token": "RefreshToken"}
	fns := c.Impls(pkgRoot, "ClientWithCustomTokenLifespans", "GetEffectiveLifespan")
	if len(fns) == 0 {
		c.RoleUnmatched(rule, role, "implementation of ClientWithCustomTokenLifespans.GetEffectiveLifespan")
		return
	}
	// declared pairs from the struct tags of ClientLifespanConfig
	type pair struct{ g, t *Term }
	declared := map[string]pair{}
	if o := c.P.ByPath[pkgRoot].Types.Scope().Lookup("ClientLifespanConfig"); o != nil {
		st := o.Type().Underlying().(*types.Struct)
		for i := 0; i < st.NumFields(); i++ {
			tag := reflect.StructTag(st.Tag(i)).Get("json")
			tag = strings.TrimSuffix(strings.Split(tag, ",")[0], "_lifespan")
			parts := strings.SplitN(tag, "_grant_", 2)
			if len(parts) != 2 || grantNames[parts[0]] == "" || tokNames[parts[1]] == "" {
				c.BadAt(rule, role, nil, "field-pair:"+st.Field(i).Name(), "every ClientLifespanConfig field declares a known (grant, token type) pair in its json tag", "cannot derive the pair from tag "+st.Tag(i), c.P.Pos(st.Field(i).Pos()), nil)
				continue
			}
			declared[st.Field(i).Name()] = pair{c.constTerm(pkgRoot, grantNames[parts[0]]), c.constTerm(pkgRoot, tokNames[parts[1]])}
		}
	}
	if len(declared) < 10 {
		c.RoleUnmatched(rule, role, fmt.Sprintf("ClientLifespanConfig with at least 10 fields; found %d", len(declared)))
	}
	for _, fn := range fns {
		ex := c.Explore(fn, ExploreConfig{}, "selector")
		if !c.complete(ex, rule, role, fn) {
			continue
		}
		gt, tt, fb := paramNamed(fn, 1), paramNamed(fn, 2), paramNamed(fn, 3)
		used := map[string]bool{}
		for _, p := range ex.Paths {
			if p.Kind != "return" || len(p.Rets) != 1 {
				continue
			}
			r := p.Rets[0]
			if r.Key() == fb.Key() {
				continue
			}
			// deref(field:<F>(...))
			var fname string
			r.Walk(func(s *Term) bool {
				if s.Op == "field" && declared[s.Name].g != nil {
					fname = s.Name
				}
				return true
			})
			if fname == "" {
				c.Bad(rule, role, fn, "returns-field-or-fallback", "the selector returns a ClientLifespanConfig field or the fallback", "returns "+clip(r.Pretty(), 100), p)
				continue
			}
			used[fname] = true
			d := declared[fname]
			good := p.Eq(gt, d.g) && p.Eq(tt, d.t)
			c.Check(good, rule, role, fn, "field-pair:"+fname, "field "+fname+" is returned only under its declared (grant, token type) pair", fmt.Sprintf("returned on a path that does not know gt==%s ∧ tt==%s", d.g.Pretty(), d.t.Pretty()), p)
		}
		for f := range declared {
			if !used[f] {
				c.Bad(rule, role, fn, "field-pair:"+f, "every declared per-client lifespan is selectable", "field "+f+" is never returned: its override cannot take effect", nil)
			}
		}
	}
}

func c07R4(c *Ctx) {
	const rule = "C07.R4"
	at := c.constTerm(pkgRoot, "AccessToken")
	n := 0
	for _, en := range c.allEntries() {
		if en.role != "issue" && en.role != "authorize" {
			continue
		}
		if !c.P.CallsNamed(en.fn, ".SetExpiresIn", 3) && !c.P.CallsNamed(en.fn, ".AddParameter", 3) {
			continue
		}
		ex := c.Explore(en.fn, ExploreConfig{Inline: lifespanInline}, "lifespan")
		if !c.complete(ex, rule, en.role, en.fn) {
			continue
		}
		req := reqParam(en.fn)
		ok := true
		var w *Path
		why := ""
		seen := false
		for _, p := range ex.Paths {
			for _, e := range p.Calls(".SetExpiresIn", ".AddParameter") {
				var v *Term
				if e.Name == ".SetExpiresIn" {
					v = e.Arg(0)
				} else if k, _ := e.Arg(0).StrConst(); k == "expires_in" {
					v = e.Arg(1)
				} else {
					continue
				}
				seen = true
				exp := call(".GetExpiresAt", call(".GetSession", req), at)
				fromExp := v.Contains(exp.Key()) && mentionsNow(v)
				fromLife := false
				v.Walk(func(s *Term) bool {
					if s.IsCall("fosite.GetEffectiveLifespan") && len(s.Args) == 4 && s.Args[2].Key() == at.Key() || s.Op == "param" && strings.Contains(s.Name, "ifespan") {
						fromLife = true
					}
					return true
				})
				if !fromExp && !fromLife {
					ok, w = false, p
					why = "expires_in is " + clip(v.Pretty(), 120) + ": neither GetExpiresAt(session, access_token) − now nor the access-token lifespan"
				}
				if fromLife && !fromExp {
					// the lifespan is advertised only when no explicit expiry is set
					if z, k := p.BoolCallAt(e, ".IsZero", func(t *Term) bool { return t.Args[0].Key() == exp.Key() }); !k || !z {
						ok, w = false, p
						why = "the default lifespan is advertised although the session's explicit access-token expiry was not known to be zero"
					}
				}
			}
		}
		if seen {
			n++
			c.Check(ok, rule, en.role, en.fn, "expires-in", "the advertised expires_in derives from the session's access-token expiry minus now, or from the access-token lifespan when no expiry is set", why, w)
		}
	}
	if n < 4 {
		c.RoleUnmatched(rule, "expires-in-sites", fmt.Sprintf("at least 4 functions advertising expires_in; found %d", n))
	}
	// JWT exp claim
	nJWT := 0
	defer func() {
		if nJWT == 0 {
			c.RoleUnmatched(rule, "jwt-strategy", "JWT implementation of GenerateAccessToken")
		}
	}()
	for _, fn := range c.Impls(pkgOAuth2, "AccessTokenStrategy", "GenerateAccessToken") {
		if !c.P.CallsNamed(fn, ".Generate", 3) || c.P.CallsNamed(fn, ".GenerateAccessToken", 0) {
			continue // only the JWT strategy signs claims; wrappers delegate
		}
		ex := c.Explore(fn, ExploreConfig{KeepPure: true}, "jwtgen")
		signsClaims := false
		for _, p := range ex.Paths {
			for _, e := range p.Calls(".Generate") {
				if len(e.Args) >= 2 && e.Arg(1).Mentions(func(s *Term) bool { return s.IsCall(".ToMapClaims") || s.IsCall(".GetJWTClaims") }) {
					signsClaims = true
				}
			}
		}
		if !signsClaims {
			continue // opaque-token strategy
		}
		nJWT++
		if !c.complete(ex, rule, "jwt-strategy", fn) {
			continue
		}
		ok, n := true, 0
		for _, p := range ex.Paths {
			for _, e := range p.Events {
				if e.Kind == "pure" && e.Name == ".With" && len(e.Args) >= 1 {
					n++
					a := e.Arg(0)
					if !(a.IsCall(".GetExpiresAt") && len(a.Args) == 2 && a.Args[1].Key() == at.Key()) {
						ok = false
					}
				}
			}
		}
		c.Check(ok && n > 0, rule, "jwt-strategy", fn, "jwt-exp-claim", "the exp claim of a JWT access token is GetExpiresAt(session, access_token)", "claims are built from another expiry", nil)
	}
	// ... and the claims builder really installs it: every implementation of
	// JWTClaimsContainer.With stores its expiry argument into ExpiresAt on every path
	// (unconditionally: a session that went through one issuance already carries the
	// previous token's exp, which must not survive into the next token)
	withs := c.P.Implementations(c.P.Iface(pkgJWT, "JWTClaimsContainer"), "With")
	if len(withs) == 0 {
		c.RoleUnmatched(rule, "jwt-claims-builder", "implementation of jwt.JWTClaimsContainer.With")
	}
	for _, fn := range withs {
		ex := c.Explore(fn, ExploreConfig{}, "claims-with")
		if !c.complete(ex, rule, "jwt-claims-builder", fn) {
			continue
		}
		recv, expiry := paramNamed(fn, 0), paramNamed(fn, 1)
		ok, n := true, 0
		var w *Path
		why := ""
		for _, p := range ex.Paths {
			if p.Kind != "return" {
				continue
			}
			n++
			stored := false
			for _, e := range p.Events {
				if e.Kind == "store" && e.Name == "ExpiresAt" && len(e.Args) == 2 {
					stored = e.Args[1].Key() == expiry.Key()
				}
			}
			if !stored {
				ok, w, why = false, p, "a path returns without ExpiresAt having been set to the expiry argument"
			}
			if len(p.Rets) == 1 && !(p.Rets[0].Contains(recv.Key())) {
				ok, w, why = false, p, "the returned container is not the receiver: "+clip(p.Rets[0].Pretty(), 80)
			}
		}
		c.Check(ok && n > 0, rule, "jwt-claims-builder", fn, "with-installs-expiry", "JWTClaimsContainer.With sets ExpiresAt to its expiry argument on every path and returns the receiver", why, w)
	}
	// device expires_in from the stored user_code expiry
	uc := c.constTerm(pkgRoot, "UserCode")
	for _, fn := range c.Calling(c.DeviceFns(), ".CreateDeviceAuthSession") {
		ex := c.Explore(fn, handlerCfg(), "handler")
		if !c.complete(ex, rule, "device-authorize", fn) {
			continue
		}
		ok, n := true, 0
		for _, p := range ex.Paths {
			for _, e := range p.Calls(".SetExpiresIn") {
				n++
				found := false
				e.Arg(0).Walk(func(s *Term) bool {
					if s.IsCall(".GetExpiresAt") && len(s.Args) == 2 && s.Args[1].Key() == uc.Key() {
						found = true
					}
					return true
				})
				if !found {
					ok = false
				}
			}
		}
		c.Check(ok && n > 0, rule, "device-authorize", fn, "device-expires-in", "the device response's expires_in derives from the stored user_code expiry", "expires_in does not read GetExpiresAt(session, user_code)", nil)
	}
	parHandlerRules(newCtxShare(c), "C17.R4", "C07.R4")
}

// newCtxShare returns c itself: helper so that shared rule functions record into the same context.
func newCtxShare(c *Ctx) *Ctx { return c }

func c07R5(c *Ctx) {
	const rule = "C07.R5"
	fn := c.P.Func("(*" + pkgRoot + ".Fosite).DefaultClientAuthenticationStrategy")
	if fn == nil {
		c.RoleUnmatched(rule, "authn", "(*Fosite).DefaultClientAuthenticationStrategy")
		return
	}
	ex := c.Explore(fn, ExploreConfig{}, "authn")
	if !c.complete(ex, rule, "authn", fn) {
		return
	}
	ok, n := true, 0
	var w *Path
	for _, p := range ex.Paths {
		if !p.Success() || p.Kind != "return" {
			continue
		}
		parse := p.First("jwt.ParseWithClaims")
		if parse == nil {
			continue
		}
		n++
		v := call(".Valid", field(parse.Ret(0), "Claims"))
		if !p.IsNil(v) {
			ok, w = false, p
		}
	}
	c.Check(ok && n > 0, rule, "authn", fn, "assertion-claims-valid", "a client assertion authenticates only if Claims.Valid() (exp/iat/nbf against now) returned nil", "assertion success path without Claims.Valid()==nil", w)
}

// delegatesTo: every path returns the result of one opaque call of the named method.
func delegatesTo(ex *Exploration, method string) bool {
	if len(ex.Paths) == 0 {
		return false
	}
	for _, p := range ex.Paths {
		if p.Kind != "return" || p.ErrRet() == nil {
			return false
		}
		e := p.First(method)
		if e == nil || unwrapStack(p.ErrRet()).Key() != e.Result.Key() {
			return false
		}
	}
	return true
}

// C07.R6 — expiry is judged on the stored grant. The strategies read the expiry
// from the session of the requester they are handed (falling back to its
// RequestedAt + lifespan). A handler that has just looked the credential up
// must hand them the request the store returned: the incoming request carries a
// fresh session and "now" as RequestedAt, so validating it can never report
// expiry with a store that does not hydrate the session argument (the reference
// store does not). The authorization-code handler is the documented exception
// (its validate phase relies on hydration; its issue phase re-validates with
// the stored session installed — DESIGN section 5, observed).
func c07ValidatedObject(c *Ctx) {
	const rule = "C07.R6"
	pairs := map[string]string{
		".ValidateAccessToken":  ".GetAccessTokenSession",
		".ValidateRefreshToken": ".GetRefreshTokenSession",
		".ValidateDeviceCode":   ".GetDeviceCodeSession",
	}
	names := map[string]bool{}
	for v := range pairs {
		names[v] = true
	}
	n := 0
	for _, en := range c.allEntries() {
		if en.role == "endpoint" || !c.P.CallsNamedAny(en.fn, 3, names) {
			continue
		}
		ex := c.Explore(en.fn, handlerCfg(), "handler")
		if !c.complete(ex, rule, en.role, en.fn) {
			continue
		}
		ok, m := true, 0
		var w *Path
		why := ""
		for _, p := range ex.Paths {
			for v, lkName := range pairs {
				for _, e := range p.Calls(v) {
					var lk *Event
					for _, l := range p.Calls(lkName) {
						if l.Idx < e.Idx {
							lk = l
						}
					}
					if lk == nil {
						continue // no storage lookup on this path (stateless validation)
					}
					m++
					if e.Arg(1).Key() != lk.Ret(0).Key() {
						ok, w = false, p
						why = fmt.Sprintf("%s (%s) judges %s, not the request %s returned", v, c.P.Pos(e.Instr.Pos()), clip(e.Arg(1).Pretty(), 60), lkName)
					}
				}
			}
		}
		if m > 0 {
			n++
			c.Check(ok, rule, en.role, en.fn, "validates-stored-request", "after a storage lookup the credential's validity (expiry) is judged on the request the store returned, not on the incoming request", why, w)
		}
	}
	if n < 3 {
		c.RoleUnmatched(rule, "validate-after-lookup", fmt.Sprintf("at least 3 handler functions validating a looked-up credential; found %d", n))
	}
}

// C07.R7 — an expiry is written into the session before the grant is persisted.
// Handlers stamp the lifetime into the session of the request and then hand the
// request to storage. A store that serialises on write (any real one) keeps
// what the session held at that moment: an expiry stamped afterwards is lost,
// and the validator later falls back to "RequestedAt of the presenting request
// + lifespan", which never expires. The reference store shares the session
// pointer, so unit and integration tests cannot see the difference.
func c07StampBeforePersist(c *Ctx) {
	const rule = "C07.R7"
	creates := map[string]bool{".CreateAuthorizeCodeSession": true, ".CreateAccessTokenSession": true, ".CreateRefreshTokenSession": true,
		".CreateDeviceAuthSession": true, ".CreatePARSession": true, ".CreateOpenIDConnectSession": true, ".CreatePKCERequestSession": true}
	n := 0
	for _, en := range c.allEntries() {
		ownKindCreates := map[string]bool{".CreateAuthorizeCodeSession": true, ".CreateDeviceAuthSession": true, ".CreatePARSession": true}
		if en.role == "endpoint" || !c.P.CallsNamedAny(en.fn, 3, creates) || !c.P.RefsMethod(en.fn, 3, ".SetExpiresAt") && !c.P.CallsNamedAny(en.fn, 3, ownKindCreates) {
			continue
		}
		cfg := en.cfg
		base := cfg.Inline
		if base == nil {
			base = defaultInline
		}
		cfg.Inline = c.orRefs(c.storageReaching(base), base, ".SetExpiresAt")
		ex := c.Explore(en.fn, cfg, en.tag+"-storage-stamp")
		if !c.complete(ex, rule, en.role, en.fn) {
			continue
		}
		ok, m := true, 0
		var w *Path
		why := ""
		for _, p := range ex.Paths {
			for _, e := range p.Calls(".SetExpiresAt") {
				if e.Recv == nil || !e.Recv.IsCall(".GetSession") || len(e.Recv.Args) != 1 {
					continue
				}
				m++
				owner := e.Recv.Args[0]
				// only the persist of the credential the expiry belongs to matters (the hybrid flow
				// stamps the access-token expiry after the code was stored and before the token is)
				kind, _ := e.Arg(0).StrConst()
				persistOf := map[string]string{"authorize_code": ".CreateAuthorizeCodeSession", "access_token": ".CreateAccessTokenSession", "refresh_token": ".CreateRefreshTokenSession",
					"device_code": ".CreateDeviceAuthSession", "user_code": ".CreateDeviceAuthSession", "par_context": ".CreatePARSession"}[kind]
				for _, cr := range p.Events[:e.Idx] {
					if cr.Kind != "call" || cr.Name != persistOf {
						continue
					}
					for _, a := range cr.Args {
						if a != nil && a != tCtx && a.Contains(owner.Key()) && !a.IsConst() {
							ok, w = false, p
							why = fmt.Sprintf("%s (%s) stamps the %s expiry after %s (%s) already persisted that request", e.Name, c.P.Pos(e.Instr.Pos()), clip(e.Arg(0).Pretty(), 30), cr.Name, c.P.Pos(cr.Instr.Pos()))
						}
					}
				}
			}
		}
		// (c) the function that persists a code / device / pushed request stamps that credential's
		//     own expiry kind first (a stamp under a sibling kind leaves the credential without expiry)
		okK, whyK := true, ""
		var wK *Path
		ownKind := map[string][]string{".CreateAuthorizeCodeSession": {"authorize_code"}, ".CreateDeviceAuthSession": {"device_code", "user_code"}, ".CreatePARSession": {"par_context"}}
		nK := 0
		for _, p := range ex.Paths {
			for _, cr := range p.Events {
				kinds := ownKind[cr.Name]
				if cr.Kind != "call" || kinds == nil {
					continue
				}

				nK++
				for _, k := range kinds {
					found := false
					for _, e := range p.Events[:cr.Idx] {
						if e.Kind == "call" && e.Name == ".SetExpiresAt" {
							if v, _ := e.Arg(0).StrConst(); v == k {
								found = true
							}
						}
					}
					if !found {
						// tolerated: the request carries no session on this path
						nilSess := false
						for _, a := range cr.Args {
							if a != nil && a != tCtx && !a.IsConst() && p.IsNil(call(".GetSession", a)) {
								nilSess = true
							}
						}
						if !nilSess {
							okK, wK = false, p
							whyK = fmt.Sprintf("%s (%s) persists the request without its %s expiry having been stamped on this path", cr.Name, c.P.Pos(cr.Instr.Pos()), k)
						}
					}
				}
			}
		}
		if nK > 0 {
			c.Check(okK, rule, en.role, en.fn, "stamps-own-kind", "a function that stamps expiries and persists a code, device or pushed request stamps that credential's own expiry kind before persisting it", whyK, wK)
		}
		if m > 0 {
			n++
			c.Check(ok, rule, en.role, en.fn, "stamped-before-persist", "every SetExpiresAt on a request's session precedes the storage call that persists that request", why, w)
		}
	}
	if n < 3 {
		c.RoleUnmatched(rule, "stamp-sites", fmt.Sprintf("at least 3 handler functions stamping an expiry and persisting; found %d", n))
	}
}

// C07.R8 — every expiry stamped by a handler is "now + a lifespan": the base of
// the addition is the current time, not another stored instant (stamping
// "user-code expiry + lifespan" doubles the lifetime while expires_in still
// advertises one lifespan).
func c07StampBase(c *Ctx) {
	const rule = "C07.R8"
	n := 0
	for _, en := range c.allEntries() {
		if en.role == "endpoint" || !c.P.RefsMethod(en.fn, 3, ".SetExpiresAt") {
			continue
		}
		cfg := en.cfg
		base := cfg.Inline
		if base == nil {
			base = defaultInline
		}
		cfg.Inline = c.orRefs(c.storageReaching(base), base, ".SetExpiresAt")
		ex := c.Explore(en.fn, cfg, en.tag+"-storage-stamp")
		if !c.complete(ex, rule, en.role, en.fn) {
			continue
		}
		ok, m := true, 0
		var w *Path
		why := ""
		for _, p := range ex.Paths {
			for _, e := range p.Calls(".SetExpiresAt") {
				if e.Recv == nil || !e.Recv.IsCall(".GetSession") {
					continue
				}
				m++
				v := e.Arg(1)
				for v.IsCall(".Round", ".Truncate", ".UTC") && len(v.Args) >= 1 {
					v = v.Args[0]
				}
				if !(v.IsCall(".Add") && len(v.Args) == 2 && mentionsNow(v.Args[0]) && !v.Args[0].Mentions(func(s *Term) bool { return s.IsCall(".GetExpiresAt") })) {
					ok, w = false, p
					why = fmt.Sprintf("%s (%s) stamps %s: not the current time plus a lifespan", e.Name, c.P.Pos(e.Instr.Pos()), clip(e.Arg(1).Pretty(), 100))
				} else if d := v.Args[1]; d.Op == "bin" && (d.Name == "*" || d.Name == "/") && len(d.Args) == 2 {
					// the lifespan getters return a time.Duration: it is added as it is; scaling it by a unit
					// constant again (expiresIn*time.Second) overflows or shrinks the lifetime
					for i, a := range d.Args {
						if _, isC := a.IntConst(); isC && d.Args[1-i].Mentions(func(s *Term) bool { return s.Op == "call" && strings.Contains(s.Name, "Lifespan") }) {
							ok, w = false, p
							why = fmt.Sprintf("%s (%s) stamps now + %s: a Duration-valued lifespan is scaled by a constant", e.Name, c.P.Pos(e.Instr.Pos()), clip(d.Pretty(), 80))
						}
					}
				}
			}
		}
		// the stamp survives: the session that was stamped is not replaced afterwards (SetSession on the
		// owner after SetExpiresAt on its session throws the stamp away)
		okS, whyS := true, ""
		var wS *Path
		for _, p := range ex.Paths {
			for _, e := range p.Calls(".SetExpiresAt") {
				if e.Recv == nil || !e.Recv.IsCall(".GetSession") || len(e.Recv.Args) != 1 {
					continue
				}
				owner := e.Recv.Args[0]
				for _, ss := range p.Events[e.Idx+1:] {
					if ss.Kind == "call" && ss.Name == ".SetSession" && ss.Recv != nil && ss.Recv.Key() == owner.Key() {
						okS, wS = false, p
						whyS = fmt.Sprintf("SetSession at %s replaces the session that was stamped at %s", c.P.Pos(ss.Instr.Pos()), c.P.Pos(e.Instr.Pos()))
					}
				}
			}
		}
		if m > 0 {
			c.Check(okS, rule, en.role, en.fn, "stamp-survives", "the session an expiry was stamped on is not replaced afterwards", whyS, wS)
		}
		if m > 0 {
			n++
			c.Check(ok, rule, en.role, en.fn, "stamp-is-now-plus-lifespan", "every expiry a handler writes into a session is the current time plus a duration", why, w)
		}
	}
	if n < 5 {
		c.RoleUnmatched(rule, "stamp-sites", fmt.Sprintf("at least 5 handler functions stamping an expiry; found %d", n))
	}
}

// stampsKind: the path stamps one of the kinds.
func stampsKind(p *Path, kinds []string) bool {
	for _, e := range p.Calls(".SetExpiresAt") {
		v, _ := e.Arg(0).StrConst()
		for _, k := range kinds {
			if v == k {
				return true
			}
		}
	}
	return false
}
