package main

import (
	"fmt"
	"go/token"
	"go/types"
	"strings"

	"golang.org/x/tools/go/ssa"
)

func init() {
	register(&propInfo{
		ID:          "C06",
		Run:         runC06,
		MinObl:      50,
		Explanation: "Decided: R1 lookup-by-signature is followed by full validation — code, refresh and device flows (validate or redeem layer) and both introspection paths reach success / Merge only after the matching Validate*(ctx, ·, raw) returned nil for the string whose *Signature was the lookup key (frozen exception: TokenRevocationHandler.RevokeToken, outcome is deactivation restricted to the owning client); R2 HMAC validation shape: HMACStrategy.Validate succeeds only for some key of append([global], rotated…) with len(key) ≥ 32, a token cut into two non-empty parts, both parts base64-decoded without error and hmac.Equal(MAC(decoded key part, key), decoded signature part); Generate refuses secrets shorter than 32 bytes, asks the random source for ≥ 32 bytes (clamp), the random source is io.ReadFull(crypto/rand.Reader), math/rand is imported nowhere in the module, and the returned signature is the encoded MAC of the returned random part; R3 Signature returns the second of exactly two dot-separated parts (JWT strategy: the third of exactly three); R4 JWT: jwt.UnsafeAllowNoneSignatureType is referenced only by the request-object key function (and package jwt); ParseWithClaims returns a nil error / sets valid only if go-jose verified the signature with the key or (method none ∧ the key is the opt-in constant) and Claims.Valid() is nil; DefaultSigner.Decode/Validate hand only rsa.PublicKey / ecdsa.PublicKey values or OpaqueSigner.Public().Key to the parser. R2 (readers) every other HMACStrategy method drawing the global secret (GenerateHMACForString) succeeds only with a secret of at least 32 bytes; R5 every Create{Access,Refresh}TokenSession / CreateAuthorizeCodeSession / CreateDeviceAuthSession key is the signature returned by the Generate call of that credential kind on the same path (refresh sessions additionally carry that access signature), and the credential written into the response comes from the same Generate call whose signature was stored; R6 the pushed-authorization request_uri stored and returned is prefix + the uncut encoding of at least 32 bytes from the random source obtained without error. NOT decided: cryptographic strength, uniqueness of minted values (probabilistic), go-jose's verification, the configured hash function.",
	})
}

func runC06(c *Ctx) {
	defer checkContextPropagated(c, "C06.R8")
	defer checkConfigGetters(c, "C06.R7", "GetTokenEntropy", "GetGlobalSecret", "GetRotatedGlobalSecrets", "GetHMACHasher")
	c06R1(c)
	c06Strategies(c)
	c06Validate(c)
	c06Generate(c)
	c06Random(c)
	c06Signature(c)
	c06JWT(c)
	c06MintedKeys(c)
	c06SecretLength(c)
	c06PARURI(c)
	c06PrefixExact(c)
}

func c06R1(c *Ctx) {
	const rule = "C06.R1"
	checkCredentialValidated(c, rule, "code", c.codeValidateFns(), c.codeRedeemFns(), ".GetAuthorizeCodeSession", ".ValidateAuthorizeCode", 2)
	checkCredentialValidated(c, rule, "refresh", c.refreshValidateFns(), nil, ".GetRefreshTokenSession", ".ValidateRefreshToken", 2)
	checkCredentialValidated(c, rule, "device", c.deviceValidateFns(), c.deviceRedeemFns(), ".GetDeviceCodeSession", ".ValidateDeviceCode", 2)
	// introspection: Merge(stored) only after the stored request's token was validated
	n := 0
	for _, fn := range c.Impls(pkgRoot, "TokenIntrospector", "IntrospectToken") {
		if !c.P.CallsNamedAny(fn, 3, map[string]bool{".GetAccessTokenSession": true, ".GetRefreshTokenSession": true}) {
			continue
		}
		ex := c.Explore(fn, handlerCfg(), "handler")
		if !c.complete(ex, rule, "introspect", fn) {
			continue
		}
		n++
		ok := true
		var w *Path
		why := ""
		nm := 0
		for _, p := range ex.Paths {
			for _, m := range p.Calls(".Merge") {
				nm++
				st := m.Arg(0)
				var lk *Event
				for _, l := range p.Calls(".GetAccessTokenSession", ".GetRefreshTokenSession") {
					if l.Ret(0).Key() == st.Key() {
						lk = l
					}
				}
				if lk == nil {
					ok, w, why = false, p, "Merge receives "+st.Pretty()+", which is not a request looked up on this path"
					continue
				}
				val := ".ValidateAccessToken"
				if lk.Name == ".GetRefreshTokenSession" {
					val = ".ValidateRefreshToken"
				}
				if !p.IsNilAt(m, lk.Ret(1)) || !validatedOn(p, m, lk, val, 2) {
					ok, w, why = false, p, "the looked-up request is merged into the introspection result without "+val[1:]+" having returned nil for the presented token"
				}
			}
			if p.Success() && p.Kind == "return" && len(p.Calls(".Merge")) == 0 {
				ok, w, why = false, p, "introspection succeeds without merging a validated stored request"
			}
		}
		c.Check(ok && nm > 0, rule, "introspect", fn, "validated-before-merge", "a stored request becomes the introspection result only after its lookup succeeded and the presented token was validated against it", why, w)
	}
	if n == 0 {
		c.RoleUnmatched(rule, "introspect", "TokenIntrospector implementation looking tokens up in storage")
	}
}

func hmacCfg() ExploreConfig {
	return ExploreConfig{Inline: func(fn *ssa.Function) bool { return defaultInline(fn) }}
}

func c06Validate(c *Ctx) {
	const rule, role = "C06.R2", "hmac-validate"
	fn := c.P.Func("(*" + pkgHMAC + ".HMACStrategy).Validate")
	if fn == nil {
		c.RoleUnmatched(rule, role, "(*hmac.HMACStrategy).Validate")
		return
	}
	ex := c.Explore(fn, hmacCfg(), "hmac")
	if !c.complete(ex, rule, role, fn) {
		return
	}
	token := paramNamed(fn, 2)
	ok := true
	var w *Path
	why := ""
	nS := 0
	usesBoth := false
	for _, p := range ex.Paths {
		if p.Kind != "return" || !p.IsNil(p.ErrRet()) && p.ErrRet().Op != "nil" {
			continue
		}
		nS++
		// the accepting comparison
		var mac, sig *Term
		for _, f := range p.Facts {
			if f.Atom.Kind == "EQ" && f.Pol {
				a, b := f.Atom.A, f.Atom.B
				if a.IsCall(".Sum") {
					mac, sig = a, b
				} else if b.IsCall(".Sum") {
					mac, sig = b, a
				}
			}
		}
		if mac == nil {
			ok, w, why = false, p, "success without hmac.Equal(MAC, signature) being true"
			continue
		}
		H := mac.Args[0]
		if !H.IsCall("hmac.New") || len(H.Args) != 2 {
			ok, w, why = false, p, "the accepting comparison is not against an HMAC"
			continue
		}
		cut := call("strings.Cut", token, tStr("."))
		keyPart, sigPart := ret(0, cut), ret(1, cut)
		decoded := func(t, part *Term) bool {
			return t.Op == "ret" && t.Name == "0" && t.Args[0].IsCall(".DecodeString") && len(t.Args[0].Args) == 2 && t.Args[0].Args[1].Key() == part.Key() && p.IsNil(ret(1, t.Args[0]))
		}
		if !decoded(sig, sigPart) {
			ok, w, why = false, p, "the MAC is not compared with the successfully decoded signature part of the token: "+sig.Pretty()
		}
		// data written into the HMAC = decoded key part
		wr := 0
		good := false
		for _, e := range p.Calls(".Write") {
			if e.Recv != nil && e.Recv.Key() == H.Key() {
				wr++
				if decoded(e.Arg(0), keyPart) {
					good = true
				}
			}
		}
		if wr != 1 || !good {
			ok, w, why = false, p, "the MAC is not computed over the successfully decoded random part of the token"
		}
		if !(p.True(ret(2, cut)) && p.Ne(keyPart, tStr("")) && p.Ne(sigPart, tStr(""))) {
			ok, w, why = false, p, "success without the token being cut into two non-empty parts"
		}
		// key: slice of the local signing key into which a configured secret of length >= 32 was copied
		keyT := H.Args[1]
		var secret *Term
		for _, e := range p.Calls("copy") {
			if e.Idx < len(p.Events) && len(e.Args) == 2 && addrRoot(sliceBase(e.Args[0])).Key() == addrRoot(sliceBase(keyT)).Key() {
				secret = e.Args[1]
			}
		}
		if secret == nil {
			ok, w, why = false, p, "the HMAC key is not derived from a configured secret"
			continue
		}
		lo, _ := p.IntBounds(call("len", secret))
		if lo == nil || *lo < 32 {
			ok, w, why = false, p, "success with a secret whose length is not known to be >= 32"
		}
		g := secret.Mentions(func(s *Term) bool { return s.IsCall(".GetGlobalSecret") })
		r := secret.Mentions(func(s *Term) bool { return s.IsCall(".GetRotatedGlobalSecrets") })
		gEmpty := false
		for _, f := range p.Facts {
			if f.Atom.Kind == "EQ" && f.Pol && (f.Atom.A.Key() == "0" || f.Atom.B.Key() == "0") {
				o := f.Atom.A
				if o.Key() == "0" {
					o = f.Atom.B
				}
				if o.IsCall("len") && o.Args[0].Mentions(func(s *Term) bool { return s.IsCall(".GetGlobalSecret") }) && !o.Args[0].Mentions(func(s *Term) bool { return s.IsCall("append") }) {
					gEmpty = true
				}
			}
		}
		if g && r {
			usesBoth = true
		} else if !(r && gEmpty) {
			ok, w, why = false, p, "the candidate keys do not include the global secret followed by the rotated secrets: "+clip(secret.Pretty(), 120)
		}
	}
	c.Check(ok && nS > 0, rule, role, fn, "mac-verified", "Validate succeeds only if hmac.Equal(HMAC(decoded random part, secret), decoded signature part) for a configured secret of at least 32 bytes and a token of two non-empty parts", why, w)
	c.Check(usesBoth, rule, role, fn, "current-and-rotated-secrets", "the candidate secrets are the global secret followed by the rotated secrets", "no success path draws its key from append(global, rotated...)", nil)
}

func sliceBase(t *Term) *Term {
	for t != nil && t.Op == "slice" && len(t.Args) > 0 {
		t = t.Args[0]
	}
	return t
}

func c06Generate(c *Ctx) {
	const rule, role = "C06.R2", "hmac-generate"
	fn := c.P.Func("(*" + pkgHMAC + ".HMACStrategy).Generate")
	if fn == nil {
		c.RoleUnmatched(rule, role, "(*hmac.HMACStrategy).Generate")
		return
	}
	ex := c.Explore(fn, hmacCfg(), "hmac")
	if !c.complete(ex, rule, role, fn) {
		return
	}
	okLen, okEnt, okSig, okCfg := true, true, true, true
	var wCfg *Path
	var wLen, wEnt, wSig *Path
	whySig := ""
	nS := 0
	for _, p := range ex.Paths {
		rb := p.First("hmac.RandomBytes")
		if rb != nil {
			a := rb.Arg(0)
			lo, _ := p.IntBoundsAt(rb, a)
			if v, isC := a.IntConst(); !(isC && v >= 32) && !(lo != nil && *lo >= 32) {
				okEnt, wEnt = false, p
			}
			// ... and for at least the configured entropy: the amount is the configured value, or the
			// floor on a path where the configured value is known to be below the floor
			cfgEnt := func(s *Term) bool { return s.IsCall(".GetTokenEntropy") }
			// the configured value is a byte count and is used as it is: not divided, multiplied or offset
			scaled := false
			a.Walk(func(s *Term) bool {
				if s.Op == "bin" && len(s.Args) == 2 && (s.Args[0].Mentions(cfgEnt) || s.Args[1].Mentions(cfgEnt)) {
					scaled = true
				}
				return true
			})
			for _, f := range p.Facts[:min(rb.NFacts, len(p.Facts))] {
				for _, side := range []*Term{f.Atom.A, f.Atom.B} {
					if side != nil && side.Op == "bin" && side.Name != "<" && len(side.Args) == 2 && (side.Args[0].Mentions(cfgEnt) || side.Args[1].Mentions(cfgEnt)) {
						if _, isK := side.Args[1].IntConst(); isK && (side.Name == "/" || side.Name == "*" || side.Name == ">>" || side.Name == "<<") {
							scaled = true
						}
					}
				}
			}
			if scaled {
				okCfg, wCfg = false, p
			}
			if !a.Mentions(cfgEnt) {
				below := false
				for _, f := range p.Facts[:min(rb.NFacts, len(p.Facts))] {
					if f.Atom.Kind == "LT" && f.Pol && f.Atom.A.Mentions(cfgEnt) {
						if k, isK := f.Atom.B.IntConst(); isK && k <= 32 {
							below = true
						}
					}
					if f.Atom.Kind == "LT" && !f.Pol && f.Atom.B.Mentions(cfgEnt) {
						if k, isK := f.Atom.A.IntConst(); isK && k < 32 {
							below = true
						}
					}
				}
				if !below {
					okCfg, wCfg = false, p
				}
			}
		}
		if p.Kind != "return" || len(p.Rets) != 3 || !(p.Rets[2].Op == "nil" || p.IsNil(p.Rets[2])) {
			continue
		}
		nS++
		sec := ret(0, call(".GetGlobalSecret", field(paramNamed(fn, 0), "Config"), tCtx))
		lo, _ := p.IntBounds(call("len", sec))
		if lo == nil || *lo < 32 {
			okLen, wLen = false, p
		}
		if rb == nil || !p.IsNil(rb.Ret(1)) {
			okSig, wSig, whySig = false, p, "success without fresh random bytes"
			continue
		}
		key := rb.Ret(0)
		sigT := p.Rets[1]
		// signature = Encode(Sum(H)) with H.Write(key)
		if !(sigT.IsCall(".EncodeToString") && len(sigT.Args) == 2 && sigT.Args[1].IsCall(".Sum")) {
			okSig, wSig, whySig = false, p, "the returned signature is "+clip(sigT.Pretty(), 100)+", not an encoded MAC"
			continue
		}
		H := sigT.Args[1].Args[0]
		good := false
		for _, e := range p.Calls(".Write") {
			if e.Recv != nil && e.Recv.Key() == H.Key() && e.Arg(0).Key() == key.Key() {
				good = true
			}
		}
		if !H.IsCall("hmac.New") || !good {
			okSig, wSig, whySig = false, p, "the returned signature is not the HMAC of the freshly generated random part"
		}
		tok := p.Rets[0]
		if !tok.Contains(sigT.Key()) || !tok.Mentions(func(s *Term) bool {
			return s.IsCall(".EncodeToString") && len(s.Args) == 2 && s.Args[1].Key() == key.Key()
		}) {
			okSig, wSig, whySig = false, p, "the returned token is not <encoded random part>.<returned signature>"
		}
	}
	c.Check(okLen && nS > 0, rule, role, fn, "secret-length", "Generate succeeds only with a global secret of at least 32 bytes", "success without len(secret) >= 32", wLen)
	c.Check(okCfg, rule, role, fn, "entropy-configured", "the random source is asked for the configured entropy (the floor only where the configured value is below it)", "RandomBytes is called with an amount that does not derive from GetTokenEntropy although the configured value is not known to be below the floor", wCfg)
	c.Check(okEnt, rule, role, fn, "entropy-clamp", "the random source is asked for at least 32 bytes (configured entropy clamped from below)", "RandomBytes can be called with fewer than 32 bytes", wEnt)
	c.Check(okSig, rule, role, fn, "token-shape", "the returned token is <random part>.<MAC of that random part> and the returned signature is that MAC", whySig, wSig)
}

func c06Random(c *Ctx) {
	const rule, role = "C06.R2", "random-source"
	fn := c.P.Func(pkgHMAC + ".RandomBytes")
	if fn == nil {
		c.RoleUnmatched(rule, role, "hmac.RandomBytes")
	} else {
		ex := c.Explore(fn, hmacCfg(), "hmac")
		ok := len(ex.Paths) > 0
		why := ""
		for _, p := range ex.Paths {
			if p.Kind != "return" || len(p.Rets) != 2 || !(p.Rets[1].Op == "nil") {
				continue
			}
			rf := p.First("io.ReadFull")
			if rf == nil || rf.Arg(0).Key() != "global:crypto/rand.Reader" || !p.IsNil(rf.Ret(1)) {
				ok = false
				why = "bytes are returned without io.ReadFull(crypto/rand.Reader, buf) having succeeded"
				continue
			}
			if p.Rets[0].Key() != rf.Arg(1).Key() {
				ok = false
				why = "the returned slice is not the buffer that was filled"
			}
			if !rf.Arg(1).Mentions(func(s *Term) bool { return s.Op == "make" }) {
				ok = false
				why = "the buffer is not freshly allocated"
			}
		}
		c.Check(ok, rule, role, fn, "crypto-rand", "RandomBytes returns a fresh buffer completely filled from crypto/rand.Reader", why, nil)
	}
	// math/rand imported nowhere
	bad := []string{}
	cryptoRand := 0
	for _, pk := range c.P.Pkgs {
		if !isSubjectPkg(pk.PkgPath) {
			continue
		}
		for _, f := range pk.Syntax {
			for _, im := range f.Imports {
				path := strings.Trim(im.Path.Value, `"`)
				if path == "math/rand" || path == "math/rand/v2" {
					bad = append(bad, c.P.Pos(im.Pos()))
				}
				if path == "crypto/rand" {
					cryptoRand++
				}
			}
		}
	}
	c.Check(len(bad) == 0, rule, role, nil, "no-math-rand", "math/rand is imported nowhere in the module's non-test packages", "math/rand imported at "+strings.Join(bad, ", "), nil)
	if cryptoRand == 0 {
		c.RoleUnmatched(rule, role, "an import of crypto/rand (positive control of the import scan)")
	}
}

func c06Signature(c *Ctx) {
	const rule, role = "C06.R3", "signature-part"
	type spec struct {
		fn   string
		n, i int64
	}
	var fns []struct {
		f    *ssa.Function
		n, i int64
	}
	if f := c.P.Func("(*" + pkgHMAC + ".HMACStrategy).Signature"); f != nil {
		fns = append(fns, struct {
			f    *ssa.Function
			n, i int64
		}{f, 2, 1})
	} else {
		c.RoleUnmatched(rule, role, "(*hmac.HMACStrategy).Signature")
	}
	for _, f := range c.Impls(pkgOAuth2, "AccessTokenStrategy", "AccessTokenSignature") {
		if recvTypeName(f) == pkgOAuth2+".DefaultJWTStrategy" {
			fns = append(fns, struct {
				f    *ssa.Function
				n, i int64
			}{f, 3, 2})
		}
	}
	if f := c.P.Func(pkgJWT + ".getTokenSignature"); f != nil {
		fns = append(fns, struct {
			f    *ssa.Function
			n, i int64
		}{f, 3, 2})
	}
	for _, s := range fns {
		ex := c.Explore(s.f, hmacCfg(), "hmac")
		if !c.complete(ex, rule, role, s.f) {
			continue
		}
		ok := true
		why := ""
		n := 0
		for _, p := range ex.Paths {
			if p.Kind != "return" {
				continue
			}
			r := p.Rets[0]
			if v, isC := r.StrConst(); isC && v == "" {
				continue
			}
			n++
			// the same part written with strings.Cut: the text after the first dot, which contains no further dot
			if s.n == 2 && s.i == 1 && r.Op == "ret" && r.Name == "1" && len(r.Args) == 1 && r.Args[0].IsCall("strings.Cut") && len(r.Args[0].Args) == 2 && r.Args[0].Args[1].Key() == tStr(".").Key() {
				if !p.True(ret(2, r.Args[0])) || !p.False(call("strings.Contains", r, tStr("."))) {
					ok, why = false, "the text after the first dot is returned without the token having exactly 2 parts"
				}
				continue
			}
			if !(r.Op == "idx" && r.Args[0].IsCall("strings.Split") && len(r.Args[0].Args) == 2 && r.Args[0].Args[1].Key() == tStr(".").Key()) {
				ok, why = false, "returns "+clip(r.Pretty(), 80)
				continue
			}
			if v, isC := r.Args[1].IntConst(); !isC || v != s.i {
				ok, why = false, fmt.Sprintf("returns part %s, expected part %d", r.Args[1].Pretty(), s.i)
			}
			lo, hi := p.IntBounds(call("len", r.Args[0]))
			if lo == nil || hi == nil || *lo != s.n || *hi != s.n {
				ok, why = false, fmt.Sprintf("a part is returned without the token having exactly %d parts", s.n)
			}
		}
		c.Check(ok && n > 0, rule, role, s.f, "signature-part", fmt.Sprintf("the storage key is part %d of exactly %d dot-separated parts, otherwise empty", s.i, s.n), why, nil)
	}
}

func c06JWT(c *Ctx) {
	const rule = "C06.R4"
	// (a) who may reference the opt-in constant
	var obj types.Object
	if pk := c.P.ByPath[pkgJWT]; pk != nil {
		obj = pk.Types.Scope().Lookup("UnsafeAllowNoneSignatureType")
	}
	if obj == nil {
		c.RoleUnmatched(rule, "none-opt-in", "jwt.UnsafeAllowNoneSignatureType")
	} else {
		allowedRoot := c.P.Func("(*" + pkgRoot + ".Fosite).NewAuthorizeRequest")
		uses := 0
		for _, pk := range c.P.Pkgs {
			if !isSubjectPkg(pk.PkgPath) {
				continue
			}
			for id, o := range pk.TypesInfo.Uses {
				if o != obj {
					continue
				}
				uses++
				if pk.PkgPath == pkgJWT {
					continue
				}
				// enclosing function
				encl := c.P.enclosingFunc(pk.PkgPath, id.Pos())
				okUse := encl != nil && allowedRoot != nil && c.P.reaches(allowedRoot, encl, 6)
				c.Check(okUse, rule, "none-opt-in", encl, "who-may-allow-none", "jwt.UnsafeAllowNoneSignatureType is referenced only by the request-object key function of the authorization endpoint", "referenced at "+c.P.Pos(id.Pos()), nil)
			}
		}
		if uses == 0 {
			c.RoleUnmatched(rule, "none-opt-in", "a use of jwt.UnsafeAllowNoneSignatureType")
		}
	}
	// (b) ParseWithClaims
	if fn := c.P.Func(pkgJWT + ".ParseWithClaims"); fn != nil {
		ex := c.Explore(fn, ExploreConfig{}, "jwt")
		if c.complete(ex, rule, "jwt-parse", fn) {
			ok := true
			var w *Path
			why := ""
			nS := 0
			none := c.constTerm(pkgJWT, "SigningMethodNone")
			for _, p := range ex.Paths {
				validSet := false
				for _, e := range p.Events {
					if (e.Kind == "store" || e.Kind == "lstore") && e.Name == "valid" && e.Args[1].Key() == tTrue.Key() {
						validSet = true
					}
				}
				succ := p.Kind == "return" && len(p.Rets) == 2 && p.Rets[1].Op == "nil"
				if !succ && !validSet {
					continue
				}
				nS++
				kf := p.First("apply")
				if kf == nil {
					ok, w, why = false, p, "success without calling the key function"
					continue
				}
				verified := false
				for _, e := range p.Calls(".Claims") {
					if p.IsNil(e.Result) && len(e.Args) >= 1 && e.Arg(0).Contains(ret(0, kf.Result).Key()) {
						verified = true
					}
				}
				noneOK := false
				if none != nil {
					isNoneKey, k := p.BoolCall("istype:*jwt.unsafeNoneMagicConstant", nil)
					methodNone := false
					for _, f := range p.Facts {
						if f.Atom.Kind == "EQ" && f.Pol && (f.Atom.A.Key() == none.Key() || f.Atom.B.Key() == none.Key()) {
							o := f.Atom.A
							if o.Key() == none.Key() {
								o = f.Atom.B
							}
							if o.Mentions(func(s *Term) bool { return s.Op == "field" && (s.Name == "Method" || s.Name == "Algorithm") }) {
								methodNone = true
							}
						}
					}
					noneOK = k && isNoneKey && methodNone
				}
				if !verified && !noneOK {
					ok, w, why = false, p, "the token is accepted although neither the signature was verified with the key nor (method none ∧ opt-in key)"
				}
				cv := false
				for _, f := range p.Facts {
					if f.Atom.Kind == "EQ" && f.Pol {
						for _, t := range []*Term{f.Atom.A, f.Atom.B} {
							if t.IsCall(".Valid") {
								cv = true
							}
						}
					}
				}
				if !cv {
					ok, w, why = false, p, "the token is accepted without Claims.Valid() == nil"
				}
			}
			c.Check(ok && nS > 0, rule, "jwt-parse", fn, "verified-before-valid", "ParseWithClaims returns a nil error / marks the token valid only after signature verification with the key function's key (or the none opt-in) and Claims.Valid()==nil", why, w)
		}
	} else {
		c.RoleUnmatched(rule, "jwt-parse", "jwt.ParseWithClaims")
	}
	// (c) verification keys handed to the parser by the default signer
	n := 0
	for _, m := range []string{"Decode", "Validate"} {
		fn := c.P.Func("(*" + pkgJWT + ".DefaultSigner)." + m)
		if fn == nil {
			c.RoleUnmatched(rule, "jwt-decode", "(*jwt.DefaultSigner)."+m)
			continue
		}
		ok := true
		why := ""
		sites := 0
		for _, b := range fn.Blocks {
			for _, ins := range b.Instrs {
				call, isCall := ins.(*ssa.Call)
				if !isCall {
					continue
				}
				sf := call.Common().StaticCallee()
				if sf == nil || fnPkgPath(sf) != pkgJWT || !c.P.UsesFunc(sf, pkgJWT+".ParseWithClaims", 2) && sf.String() != pkgJWT+".ParseWithClaims" {
					continue
				}
				// the interface{}-typed key argument
				for i, a := range call.Common().Args {
					if i >= sf.Signature.Params().Len() || typeShort(sf.Signature.Params().At(i).Type()) != "interface{}" && typeShort(sf.Signature.Params().At(i).Type()) != "any" {
						continue
					}
					sites++
					if d := keyArgOK(a); d != "" {
						ok = false
						why = fmt.Sprintf("%s at %s", d, c.P.Pos(call.Pos()))
					}
				}
			}
		}
		n += sites
		c.Check(ok && sites > 0, rule, "jwt-decode", fn, "public-keys-only", "the verification key handed to the parser is an rsa.PublicKey / ecdsa.PublicKey value or OpaqueSigner.Public().Key", why, nil)
	}
	if n < 2 {
		c.RoleUnmatched(rule, "jwt-decode", fmt.Sprintf("at least 2 verification-key arguments; found %d", n))
	}
}

// keyArgOK returns "" if the value is a public-key value.
func keyArgOK(v ssa.Value) string { return keyArgOKd(v, 3) }

func keyArgOKd(v ssa.Value, depth int) string {
	switch x := v.(type) {
	case *ssa.Const:
		if x.IsNil() {
			return "" // no key: the parser has nothing to verify with and fails
		}
	case *ssa.Phi:
		for _, e := range x.Edges {
			if d := keyArgOKd(e, depth); d != "" {
				return d
			}
		}
		return ""
	case *ssa.Extract:
		// a result of a key-selection helper of the module: every value it returns in that position
		if call, ok := x.Tuple.(*ssa.Call); ok && depth > 0 {
			if sf := call.Common().StaticCallee(); sf != nil && len(sf.Blocks) > 0 && isSubjectPkg(fnPkgPath(sf)) {
				for _, b := range sf.Blocks {
					for _, ins := range b.Instrs {
						if ret, ok := ins.(*ssa.Return); ok && x.Index < len(ret.Results) {
							if d := keyArgOKd(ret.Results[x.Index], depth-1); d != "" {
								return d
							}
						}
					}
				}
				return ""
			}
		}
	case *ssa.Call:
		if sf := x.Common().StaticCallee(); sf != nil && len(sf.Blocks) > 0 && isSubjectPkg(fnPkgPath(sf)) && depth > 0 && sf.Signature.Results().Len() == 1 {
			for _, b := range sf.Blocks {
				for _, ins := range b.Instrs {
					if ret, ok := ins.(*ssa.Return); ok && len(ret.Results) == 1 {
						if d := keyArgOKd(ret.Results[0], depth-1); d != "" {
							return d
						}
					}
				}
			}
			return ""
		}
	}
	switch x := v.(type) {
	case *ssa.MakeInterface:
		t := typeShort(x.X.Type())
		if t == "rsa.PublicKey" || t == "ecdsa.PublicKey" || t == "*rsa.PublicKey" || t == "*ecdsa.PublicKey" {
			return ""
		}
		return "a value of type " + t + " is used as verification key"
	case *ssa.UnOp:
		// load of field Key of Public()
		if fa, ok := x.X.(*ssa.FieldAddr); ok && fieldName(fa.X.Type(), fa.Field) == "Key" {
			return publicCall(fa.X)
		}
	case *ssa.Field:
		if fieldName(x.X.Type(), x.Field) == "Key" {
			return publicCall(x.X)
		}
	}
	return "the verification key is not a public-key value (" + v.String() + ")"
}

func publicCall(v ssa.Value) string {
	for i := 0; i < 6; i++ {
		switch x := v.(type) {
		case *ssa.Call:
			if x.Common().IsInvoke() && x.Common().Method.Name() == "Public" {
				return ""
			}
			if sf := x.Common().StaticCallee(); sf != nil && sf.Name() == "Public" {
				return ""
			}
			return "Key is not taken from Public()"
		case *ssa.UnOp:
			v = x.X
		case *ssa.Alloc:
			// spilled call result
			for _, r := range *x.Referrers() {
				if st, ok := r.(*ssa.Store); ok && st.Addr == x {
					v = st.Val
				}
			}
			if v == ssa.Value(x) {
				return "Key is not taken from Public()"
			}
		default:
			return "Key is not taken from Public()"
		}
	}
	return "Key is not taken from Public()"
}

// enclosingFunc finds the innermost SSA function whose syntax contains pos.
func (P *Program) enclosingFunc(pkgPath string, pos token.Pos) *ssa.Function {
	var best *ssa.Function
	for _, fn := range P.AllFuncs {
		if fnPkgPath(fn) != pkgPath || fn.Syntax() == nil {
			continue
		}
		n := fn.Syntax()
		if n.Pos() <= pos && pos < n.End() {
			if best == nil || best.Syntax().Pos() <= n.Pos() {
				best = fn
			}
		}
	}
	return best
}

// reaches: target (or one of its enclosing functions) is reachable from root
// through static calls and closures.
func (P *Program) reaches(root, target *ssa.Function, depth int) bool {
	targets := map[*ssa.Function]bool{}
	for f := target; f != nil; f = f.Parent() {
		targets[f] = true
	}
	seen := map[*ssa.Function]bool{}
	var rec func(f *ssa.Function, d int) bool
	rec = func(f *ssa.Function, d int) bool {
		if f == nil || seen[f] {
			return false
		}
		seen[f] = true
		if targets[f] {
			return true
		}
		if d == 0 {
			return false
		}
		for _, b := range f.Blocks {
			for _, ins := range b.Instrs {
				if mc, ok := ins.(*ssa.MakeClosure); ok {
					if rec(mc.Fn.(*ssa.Function), d) {
						return true
					}
				}
				if call, ok := ins.(ssa.CallInstruction); ok {
					if sf := call.Common().StaticCallee(); sf != nil && isSubjectPkg(fnPkgPath(sf)) {
						if rec(sf, d-1) {
							return true
						}
					}
				}
			}
		}
		return false
	}
	return rec(root, depth)
}

// c06Strategies: every opaque-token validator of the strategies authenticates the
// presented string with the HMAC core (or delegates to a strategy that does) on
// every success exit — whatever the expiry branch taken.
func c06Strategies(c *Ctx) {
	const rule = "C06.R1"
	n := 0
	for _, sp := range expSpecs {
		if sp.method == "ValidateUserCode" {
			continue // user codes carry no MAC (too short); documented exemption
		}
		for _, fn := range c.Impls(sp.ifacePkg, sp.iface, sp.method) {
			if sp.method == "ValidateAccessToken" && c.P.CallsNamed(fn, ".Decode", 3) {
				continue // JWT access tokens: C06.R4 / C07.R1
			}
			ex := c.Explore(fn, strategyCfg(), "strategy")
			if !c.complete(ex, rule, "strategy", fn) {
				continue
			}
			if delegatesTo(ex, "."+sp.method) {
				c.OK(rule, "strategy", fn, "mac-checked:"+sp.kind, "every success exit of the validator authenticates the presented string with the HMAC core").Layer = "delegates to the wrapped strategy"
				continue
			}
			n++
			tok := lastParam(fn)
			ok, m := true, 0
			var w *Path
			for _, p := range ex.Paths {
				if !p.Success() || p.Kind != "return" {
					continue
				}
				m++
				good := false
				for _, e := range p.Calls(".Validate") {
					if !e.Arg(len(e.Args) - 1).Contains(tok.Key()) {
						continue
					}
					if p.IsNil(e.Result) || unwrapStack(p.ErrRet()).Key() == e.Result.Key() {
						good = true
					}
				}
				if !good {
					ok, w = false, p
				}
			}
			c.Check(ok && m > 0, rule, "strategy", fn, "mac-checked:"+sp.kind, "every success exit of the validator authenticates the presented string with the HMAC core", "a success exit is reachable without HMACStrategy.Validate(token) having returned nil (e.g. on one expiry branch)", w)
		}
	}
	if n < 4 {
		c.RoleUnmatched(rule, "strategy", fmt.Sprintf("at least 4 opaque-token validators; found %d", n))
	}
}
