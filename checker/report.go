package main

import (
	"encoding/json"
	"fmt"
	"os"
	"path/filepath"
	"sort"
	"strconv"
	"strings"
	"time"

	"golang.org/x/tools/go/ssa"
)

type ssaFunction = ssa.Function

func verifDir() string {
	if d := os.Getenv("VERIF_DIR"); d != "" {
		return d
	}
	return "/verif"
}

// Obligation is one instance of a rule at one construct. Keys are
// rule|function|detail — never line numbers (DESIGN 3.6).
type Obligation struct {
	Rule    string   `json:"rule"`
	Role    string   `json:"role,omitempty"`
	Fn      string   `json:"function"`
	Detail  string   `json:"detail"`
	Pos     string   `json:"pos"`
	Desc    string   `json:"desc"`
	Status  string   `json:"status"` // discharged | violated | undecided | known-finding
	Why     string   `json:"why,omitempty"`
	Witness []string `json:"witness,omitempty"`
	Layer   string   `json:"layer,omitempty"`
	Paths   int      `json:"paths,omitempty"`
}

func (o *Obligation) Key() string { return o.Rule + "|" + o.Fn + "|" + o.Detail }

type Ctx struct {
	P       *Program
	Prop    string
	Tier    string
	Obls    []*Obligation
	oblIdx  map[string]*Obligation
	expl    map[string]*Exploration
	Fns     map[string]bool // functions analysed
	NPaths  int
	NEvents int
	Notes   []string
	Quiet   bool
}

func newCtx(P *Program, prop, tier string) *Ctx {
	return &Ctx{P: P, Prop: prop, Tier: tier, oblIdx: map[string]*Obligation{}, expl: map[string]*Exploration{}, Fns: map[string]bool{}}
}

func fnShort(fn *ssa.Function) string {
	if fn == nil {
		return "-"
	}
	return short(fn.String())
}

func (c *Ctx) add(o *Obligation) *Obligation {
	if prev, ok := c.oblIdx[o.Key()]; ok {
		// a violated/undecided verdict for the same key wins over discharged
		rank := map[string]int{"discharged": 0, "undecided": 1, "violated": 2}
		if rank[o.Status] > rank[prev.Status] {
			*prev = *o
		}
		return prev
	}
	c.oblIdx[o.Key()] = o
	c.Obls = append(c.Obls, o)
	return o
}

// OK records a discharged obligation.
func (c *Ctx) OK(rule, role string, fn *ssa.Function, detail, desc string) *Obligation {
	return c.add(&Obligation{Rule: rule, Role: role, Fn: fnShort(fn), Detail: detail, Pos: c.P.FnPos(fn), Desc: desc, Status: "discharged"})
}

// Bad records a violated obligation.
func (c *Ctx) Bad(rule, role string, fn *ssa.Function, detail, desc, why string, p *Path) *Obligation {
	o := &Obligation{Rule: rule, Role: role, Fn: fnShort(fn), Detail: detail, Pos: c.P.FnPos(fn), Desc: desc, Status: "violated", Why: why}
	if p != nil {
		o.Witness = c.P.Witness(p)
		o.Pos = c.P.Pos(p.ExitPos)
	}
	return c.add(o)
}

// BadAt is Bad with an explicit position.
func (c *Ctx) BadAt(rule, role string, fn *ssa.Function, detail, desc, why, pos string, p *Path) *Obligation {
	o := c.Bad(rule, role, fn, detail, desc, why, p)
	o.Pos = pos
	return o
}

func (c *Ctx) Undecided(rule, role string, fn *ssa.Function, detail, desc, why string) *Obligation {
	return c.add(&Obligation{Rule: rule, Role: role, Fn: fnShort(fn), Detail: detail, Pos: c.P.FnPos(fn), Desc: desc, Status: "undecided", Why: why})
}

// Check records OK or Bad depending on cond.
func (c *Ctx) Check(cond bool, rule, role string, fn *ssa.Function, detail, desc, why string, p *Path) bool {
	if cond {
		c.OK(rule, role, fn, detail, desc)
	} else {
		c.Bad(rule, role, fn, detail, desc, why, p)
	}
	return cond
}

// RoleUnmatched: a rule that matches nothing must not pass vacuously.
func (c *Ctx) RoleUnmatched(rule, role, desc string) {
	c.add(&Obligation{Rule: rule, Role: role, Fn: "-", Detail: "role-unmatched", Pos: "-", Desc: desc, Status: "violated",
		Why: "no construct in the current tree plays role '" + role + "' (" + desc + "); the rule cannot be evaluated"})
}

// Explore with caching and accounting; an incomplete exploration is recorded
// as an undecided obligation by the caller via ex.Truncated.
func (c *Ctx) Explore(fn *ssa.Function, cfg ExploreConfig, tag string) *Exploration {
	if fn == nil {
		return &Exploration{Truncated: "function not found"}
	}
	k := fn.String() + "|" + tag
	if ex, ok := c.expl[k]; ok {
		return ex
	}
	if c.Tier == "thorough" {
		if cfg.MaxDepth == 0 {
			cfg.MaxDepth = 8
		}
		if cfg.MaxPaths == 0 {
			cfg.MaxPaths = 1500000
		}
		if cfg.MaxSteps == 0 {
			cfg.MaxSteps = 300000000
		}
		if cfg.MaxVisits == 0 {
			cfg.MaxVisits = 3
		}
	}
	ex := c.P.Explore(fn, cfg)
	if os.Getenv("FOSITELINT_DEBUG") != "" {
		fmt.Fprintf(os.Stderr, "explore %s [%s]: paths=%d steps=%d dropped=%d %s\n", fnShort(fn), tag, len(ex.Paths), ex.Steps, ex.Dropped, ex.Truncated)
	}
	c.expl[k] = ex
	c.Fns[fnShort(fn)] = true
	c.NPaths += len(ex.Paths)
	for _, p := range ex.Paths {
		c.NEvents += len(p.Events)
	}
	return ex
}

// ------------------------------------------------------------ known findings

type KnownFinding struct {
	Property string `json:"property"`
	Rule     string `json:"rule"`
	Function string `json:"function"`
	Detail   string `json:"detail"`
	What     string `json:"what"`
	ID       string `json:"id,omitempty"`
}

type KnownFile struct {
	Findings []KnownFinding `json:"findings"`
	Fixed    []string       `json:"fixed"`
}

func loadKnown() (*KnownFile, error) {
	b, err := os.ReadFile(filepath.Join(verifDir(), "known_findings.json"))
	if err != nil {
		if os.IsNotExist(err) {
			return &KnownFile{}, nil
		}
		return nil, err
	}
	var k KnownFile
	if err := json.Unmarshal(b, &k); err != nil {
		return nil, err
	}
	return &k, nil
}

func (k *KnownFile) match(prop string, o *Obligation) *KnownFinding {
	for i := range k.Findings {
		f := &k.Findings[i]
		if f.Property == prop && f.Rule == o.Rule && f.Function == o.Fn && f.Detail == o.Detail {
			return f
		}
	}
	return nil
}

// ------------------------------------------------------------------ evidence

type propInfo struct {
	ID          string
	Run         func(c *Ctx)
	Explanation string
	Assumptions []string
	MinObl      int // floor on obligations evaluated (a rule set that matches nothing must fail)
}

var registry = map[string]*propInfo{}

func register(p *propInfo) { registry[p.ID] = p }

var commonAssumptions = []string{
	"go/types + go/ssa of golang.org/x/tools v0.29.0 and the Go toolchain are trusted",
	"purity table (explore.go): getters of Requester/Client/Session, config providers, *Signature, strings/time/url helpers return the same value when called twice on one path",
	"loops are traversed with every block visited at most 3 times per activation; summaries by bounded inlining (depth 4 quick / 5 thorough)",
	"the library's documented call sequence links the layers (DESIGN 2.10)",
	"code outside the module (go-jose, bcrypt, net/url, html/template, govalidator) behaves as documented; reflection and unsafe are not modelled",
	"only the reference store storage.MemoryStore is analysed for store-side clauses; other stores are assumed to honour the storage interface contracts",
}

func runCheck(prop, tier string, extra []string) int {
	t0 := time.Now()
	info := registry[prop]
	if info == nil {
		fmt.Fprintf(os.Stderr, "unknown property %s\n", prop)
		return 2
	}
	if tier != "quick" && tier != "thorough" {
		fmt.Fprintf(os.Stderr, "tier must be quick or thorough\n")
		return 2
	}
	if len(extra) >= 2 && extra[0] == "--replay" {
		return runReplay(prop, extra[1])
	}
	P, err := loadProgram(repoDir(), nil)
	if err != nil {
		fmt.Fprintf(os.Stderr, "fositelint: cannot analyse %s: %v\n", repoDir(), err)
		return 2
	}
	c := newCtx(P, prop, tier)
	info.Run(c)
	known, err := loadKnown()
	if err != nil {
		fmt.Fprintf(os.Stderr, "fositelint: known_findings.json: %v\n", err)
		return 2
	}
	var mut *mutantSummary
	if tier == "thorough" {
		mut = runMutants(prop)
	}
	return finish(c, info, known, mut, time.Since(t0))
}

func finish(c *Ctx, info *propInfo, known *KnownFile, mut *mutantSummary, wall time.Duration) int {
	prop := c.Prop
	sort.SliceStable(c.Obls, func(i, j int) bool { return c.Obls[i].Key() < c.Obls[j].Key() })
	if len(c.Obls) < info.MinObl {
		c.add(&Obligation{Rule: prop + ".floor", Fn: "-", Detail: "obligation-floor", Pos: "-", Status: "violated",
			Desc: "rules of this property must find their constructs",
			Why:  fmt.Sprintf("only %d obligations were generated, the rule set expects at least %d on a tree that has the property's anchors", len(c.Obls), info.MinObl)})
	}
	evDir := filepath.Join(verifDir(), "evidence")
	os.MkdirAll(filepath.Join(evDir, "replay"), 0o755)
	// remove stale replay files of this property
	if old, _ := filepath.Glob(filepath.Join(evDir, "replay", prop+"-*.json")); old != nil {
		for _, f := range old {
			os.Remove(f)
		}
	}
	nViol, nKnown, nDis, nUnd := 0, 0, 0, 0
	var knownLines []string
	var out []string
	n := 0
	for _, o := range c.Obls {
		switch o.Status {
		case "discharged":
			nDis++
			continue
		case "undecided":
			nUnd++
		}
		if kf := known.match(prop, o); kf != nil && o.Status == "violated" {
			o.Status = "known-finding"
			nKnown++
			knownLines = append(knownLines, fmt.Sprintf("KNOWN-FINDING: property=%s %s [%s at %s] %s", prop, kf.What, o.Key(), o.Pos, kf.ID))
			continue
		}
		nViol++
		n++
		rp := filepath.Join(evDir, "replay", fmt.Sprintf("%s-%s-%d.json", prop, strings.ReplaceAll(o.Rule, ".", "_"), n))
		b, _ := json.MarshalIndent(map[string]any{"property": prop, "obligation": o, "key": o.Key()}, "", " ")
		os.WriteFile(rp, b, 0o644)
		tag := ""
		if o.Status == "undecided" {
			tag = " undecided=" + strconv.Quote(o.Why)
		}
		out = append(out, fmt.Sprintf("VIOLATION property=%s replay=%s", prop, rp))
		out = append(out, fmt.Sprintf("  rule=%s role=%s function=%s detail=%s at %s%s", o.Rule, o.Role, o.Fn, o.Detail, o.Pos, tag))
		out = append(out, fmt.Sprintf("  requires: %s", o.Desc))
		if o.Why != "" {
			out = append(out, fmt.Sprintf("  found:    %s", o.Why))
		}
		for _, w := range o.Witness {
			out = append(out, "    path: "+w)
		}
	}
	for _, l := range knownLines {
		fmt.Println(l)
	}
	for _, l := range out {
		fmt.Println(l)
	}
	// evidence
	samples := []any{}
	seenRule := map[string]int{}
	for _, o := range c.Obls {
		if o.Status != "discharged" || seenRule[o.Rule] < 2 {
			if len(samples) < 60 {
				samples = append(samples, o)
			}
			seenRule[o.Rule]++
		}
	}
	rules := map[string]int{}
	for _, o := range c.Obls {
		rules[o.Rule]++
	}
	fns := sortedKeys(c.Fns)
	cov := map[string]any{
		"explanation":         info.Explanation + notesFor(c),
		"evaluations":         len(c.Obls),
		"distinct_nontrivial": len(c.oblIdx),
		"rule":                "obligations are enumerated by the rule tables of " + prop + " over role functions found by API identity in /repo's current tree; an obligation is distinct by rule|function|detail and non-trivial because it was evaluated on at least one construct/path (roles with no construct are violations, not passes)",
		"samples":             samples,
		"obligations":         len(c.Obls),
		"discharged":          nDis,
		"violated_unlisted":   nViol - nUnd,
		"undecided":           nUnd,
		"known_findings":      nKnown,
		"per_rule":            rules,
		"functions_analysed":  fns,
		"paths":               c.NPaths,
		"events":              c.NEvents,
		"packages":            len(c.P.Subjects),
		"files":               c.P.Files,
		"notes":               c.Notes,
		"checker_cmd":         "/verif/check " + prop + " " + c.Tier,
	}
	if mut != nil {
		cov["mutants_applied"] = mut.Applied
		cov["mutants_killed"] = mut.Killed
		cov["mutants_skipped"] = mut.Skipped
		cov["negatives_applied"] = mut.NegApplied
		cov["negatives_silent"] = mut.NegSilent
		cov["mutant_results"] = mut.Results
	}
	seed := 0
	if s := os.Getenv("VERIF_SEED"); s != "" {
		seed, _ = strconv.Atoi(s)
	}
	ev := map[string]any{
		"property_id": prop,
		"tier":        c.Tier,
		"seed":        seed,
		"level":       "other",
		"coverage":    cov,
		"assumptions": append(append([]string{}, commonAssumptions...), info.Assumptions...),
		"wall_s":      wall.Seconds(),
		"violations":  nViol,
	}
	b, _ := json.MarshalIndent(ev, "", " ")
	if err := os.WriteFile(filepath.Join(evDir, prop+".json"), b, 0o644); err != nil {
		fmt.Fprintf(os.Stderr, "fositelint: cannot write evidence: %v\n", err)
		return 2
	}
	fmt.Printf("%s %s: obligations=%d discharged=%d known-findings=%d violations=%d undecided=%d functions=%d paths=%d wall=%.1fs\n",
		prop, c.Tier, len(c.Obls), nDis, nKnown, nViol-nUnd, nUnd, len(c.Fns), c.NPaths, wall.Seconds())
	if mut != nil {
		fmt.Printf("%s self-test: mutants killed %d/%d (skipped %d), negatives silent %d/%d\n", prop, mut.Killed, mut.Applied, mut.Skipped, mut.NegSilent, mut.NegApplied)
		if mut.Broken {
			fmt.Fprintf(os.Stderr, "fositelint: self-test failed (a seeded mutant was not reported or a behaviour-preserving edit raised an alarm): the checker is not trustworthy for %s\n", prop)
			for _, r := range mut.Results {
				if !r.OK {
					fmt.Fprintf(os.Stderr, "  mutant %s: %s\n", r.Name, r.Note)
				}
			}
			if nViol == 0 {
				return 2
			}
		}
	}
	if nViol > 0 {
		return 1
	}
	return 0
}

func runReplay(prop, path string) int {
	b, err := os.ReadFile(path)
	if err != nil {
		fmt.Fprintln(os.Stderr, err)
		return 2
	}
	var rp struct {
		Key string `json:"key"`
	}
	if err := json.Unmarshal(b, &rp); err != nil {
		fmt.Fprintln(os.Stderr, err)
		return 2
	}
	P, err := loadProgram(repoDir(), nil)
	if err != nil {
		fmt.Fprintln(os.Stderr, err)
		return 2
	}
	c := newCtx(P, prop, "quick")
	registry[prop].Run(c)
	for _, o := range c.Obls {
		if o.Key() == rp.Key {
			j, _ := json.MarshalIndent(o, "", " ")
			fmt.Println(string(j))
			if o.Status == "discharged" {
				fmt.Println("replay: obligation is discharged on the current tree")
				return 0
			}
			fmt.Printf("VIOLATION property=%s replay=%s\n", prop, path)
			return 1
		}
	}
	fmt.Println("replay: obligation key not generated on the current tree:", rp.Key)
	return 1
}
