package main

import (
	"fmt"
	"os"
	"strings"

	"golang.org/x/tools/go/ssa"
)

func init() {
	register(&propInfo{
		ID:          "C12",
		Run:         runC12,
		MinObl:      33,
		Explanation: "Every element below the exact length of a requested-scope list must have been accepted by the strategy (an element the path never mentions was skipped, not accepted). Strategy bodies (R11–R16; every path of the five strategy functions of the root package, found by signature; module helpers and the generic helpers of package slices traversed in place; loops unrolled to the bound — 7 block visits for the two exact strategies, 3 then 2 for the others, 80 000 paths; a function that exceeds the bounds, or whose decisions rest on a call that is not traversed, is reported as 'abstained' and not decided): R11 comparators — every literal relating a registered entry to a requested value is string equality, a comparison of lengths or indexes, a membership test, or a prefix test that either carries the segment delimiter at the end of the prefix or is followed on the path by a test of what comes after the prefix; no literal depends on a case-folding function; in the scope strategies none depends on a normalising function (Trim*, Fields*, Replace*) of an entry or request, and prefix/suffix tests against a constant are anchored at the delimiter. R12 an accepting path with a non-empty request has examined an element of the registration. R13 ExactScopeStrategy accepts exactly with haystack[k]==needle (loop, slices.Contains or a set built from the entries); ExactAudienceMatchingStrategy accepts only when every needle[j] below the length the path knows equals some haystack[k]. R14 DefaultAudienceMatchingStrategy accepts a requested URL only with one registered URL of equal scheme and equal host and a true equality or prefix literal relating the two paths. R15 WildcardScopeStrategy: on accepting paths one entry has every segment known to be '*' standing against a request segment (same segmentation) known to be non-empty. R16 Hierarchic/WildcardScopeStrategy: on accepting paths one entry equals the request, is a delimiter-terminated prefix of it, or has a known number of segments all of which were compared equal (or are '*') — and, for the wildcard strategy, is as long as the request or ends in '*'. NOT decided: the remaining segment arithmetic (which index is compared with which when state is carried between entries — campaign candidate C12.7/22), the audience path-prefix arithmetic beyond the presence of a path literal, and everything in a spelling the rules abstain on. Decided — the confinement half: R1 every flow validates what it is asked for: at every success exit (token-endpoint grants client_credentials, password, JWT-bearer) / issuing sink (authorization-endpoint handlers; layers: NewAuthorizeRequest or the handler), at the PAR endpoint (layers: NewPushedAuthorizeRequest or the PAR handler) and at the device endpoint, every iterated requested scope was accepted by the configured scope strategy (GetScopeStrategy, not a constant) against the client's registered scopes (JWT-bearer: the signing key's scopes from GetPublicKeyScopes) with the loop left only by exhaustion, and the configured audience strategy returned nil for (client audience, requested audience) where the flow takes an audience; R2 every GrantScope/GrantAudience in the handlers takes an element of the stored grant, or (JWT-bearer) of the validated requested scopes / the verified assertion's audience; R3 JWT access-token claims and the scope response field are built from GetGrantedScopes/GetGrantedAudience only.",
	})
}

// RefsMethod: fn (or static callees up to depth) contains a call of the named method/function, pure or not.
func (P *Program) RefsMethod(fn *ssa.Function, depth int, names ...string) bool {
	seen := map[*ssa.Function]bool{}
	var rec func(f *ssa.Function, d int) bool
	rec = func(f *ssa.Function, d int) bool {
		if f == nil || seen[f] {
			return false
		}
		seen[f] = true
		for _, b := range f.Blocks {
			for _, ins := range b.Instrs {
				if mc, ok := ins.(*ssa.MakeClosure); ok && rec(mc.Fn.(*ssa.Function), d) {
					return true
				}
				ci, ok := ins.(ssa.CallInstruction)
				if !ok {
					continue
				}
				cm := ci.Common()
				n := ""
				if cm.IsInvoke() {
					n = "." + cm.Method.Name()
				} else if sf := cm.StaticCallee(); sf != nil {
					n = funcShortName(sf)
					if d > 0 && isSubjectPkg(fnPkgPath(sf)) && rec(sf, d-1) {
						return true
					}
				}
				for _, x := range names {
					if n == x {
						return true
					}
				}
			}
		}
		return false
	}
	return rec(fn, depth)
}

// orRefs widens an inline policy: a helper admitted by base is also traversed
// when it (transitively) calls one of the named methods, so that a rule about
// those calls sees them after they were extracted into a helper.
func (c *Ctx) orRefs(policy, base func(*ssa.Function) bool, names ...string) func(*ssa.Function) bool {
	memo := map[*ssa.Function]bool{}
	return func(fn *ssa.Function) bool {
		if policy(fn) {
			return true
		}
		if !base(fn) {
			return false
		}
		v, ok := memo[fn]
		if !ok {
			v = c.P.RefsMethod(fn, 3, names...)
			memo[fn] = v
		}
		return v
	}
}

func (c *Ctx) strategyReaching(base func(*ssa.Function) bool) func(*ssa.Function) bool {
	memo := map[*ssa.Function]bool{}
	return func(fn *ssa.Function) bool {
		if !base(fn) {
			return false
		}
		if fn.Parent() != nil {
			return true
		}
		v, ok := memo[fn]
		if !ok {
			v = c.P.RefsMethod(fn, 4, ".GetScopeStrategy", ".GetAudienceStrategy")
			memo[fn] = v
		}
		return v
	}
}

// scopesValidatedAt: on path p, before event at (nil = end of path), the requested
// scopes of req were all accepted by the configured strategy against an allowed bound.
// Returns "" if so, else the reason.
func scopesValidatedAt(p *Path, at *Event, req *Term, boundOK func(*Term) bool) string {
	n := len(p.Facts)
	if at != nil && at.NFacts < n {
		n = at.NFacts
	}
	// candidate scope lists: GetRequestedScopes(req) and anything handed to SetRequestedScopes(req, X)
	cands := []*Term{call(".GetRequestedScopes", req)}
	for _, e := range p.Calls(".SetRequestedScopes") {
		if e.Recv != nil && e.Recv.Key() == req.Key() {
			cands = append(cands, e.Arg(0))
		}
	}
	var reasons []string
	for _, X := range cands {
		if !p.LoopExhausted(at, X) {
			reasons = append(reasons, "the loop over "+clip(X.Pretty(), 60)+" was not left by exhaustion")
			continue
		}
		ok := true
		// the loop was left by exhaustion, so the length is exact: every element below it must
		// have been accepted (an element the path never mentions was skipped, not accepted)
		exact := int64(-1)
		if lo, hi := p.IntBoundsAt(at, call("len", X)); lo != nil && hi != nil && *lo == *hi {
			exact = *lo
		}
		for k := 0; k < 3; k++ {
			el := mk("idx", "", X, tInt(int64(k)))
			iter := false
			for _, f := range p.Facts[:n] {
				if f.Atom.A != nil && f.Atom.A.Contains(el.Key()) || f.Atom.B != nil && f.Atom.B.Contains(el.Key()) {
					iter = true
				}
			}
			if exact >= 0 {
				iter = int64(k) < exact
			}
			if !iter {
				continue
			}
			acc := false
			for _, f := range p.Facts[:n] {
				a := f.Atom.A
				if f.Atom.Kind == "B" && f.Pol && a.IsCall("apply") && len(a.Args) == 3 && a.Args[0].IsCall(".GetScopeStrategy") && a.Args[2].Key() == el.Key() && boundOK(a.Args[1]) {
					acc = true
				}
			}
			if !acc {
				ok = false
				reasons = append(reasons, "element "+el.Pretty()+" was iterated but not accepted by GetScopeStrategy against the registered scopes")
			}
		}
		if ok {
			return ""
		}
	}
	return strings.Join(reasons, "; ")
}

func audienceValidatedAt(p *Path, at *Event, req *Term, client *Term) bool {
	cands := []*Term{call(".GetRequestedAudience", req)}
	for _, e := range p.Calls(".SetRequestedAudience") {
		if e.Recv != nil && e.Recv.Key() == req.Key() {
			cands = append(cands, e.Arg(0))
		}
	}
	for _, A := range cands {
		if audienceAccepted(p, at, call(".GetAudience", client), A) {
			return true
		}
	}
	return false
}

type flowSpec struct {
	role     string
	fn       *ssa.Function
	cfg      ExploreConfig
	tag      string
	sinks    []string // events that issue/store; empty = success exits
	audience bool
	jwtKey   bool
}

// evalFlow returns ("" , "") if both scope and audience obligations hold on all sinks.
func evalFlow(c *Ctx, rule string, f flowSpec) (scopeWhy, audWhy string, w *Path, evaluated bool) {
	ex := c.Explore(f.fn, f.cfg, f.tag)
	if ex.Truncated != "" || len(ex.Paths) == 0 {
		return "exploration incomplete: " + ex.Truncated, "exploration incomplete", nil, false
	}
	req := reqParam(f.fn)
	n := 0
	for _, p := range ex.Paths {
		var rq *Term = req
		if rq == nil {
			// endpoint functions: the request object is the first returned value
			if p.Kind == "return" && len(p.Rets) == 2 {
				rq = p.Rets[0]
			} else {
				continue
			}
		}
		client := getClient(rq)
		boundOK := func(b *Term) bool {
			if f.jwtKey {
				return b.Op == "ret" && b.Name == "0" && b.Args[0].Op == "icall" && b.Args[0].CallName() == ".GetPublicKeyScopes"
			}
			if b.IsCall(".GetScopes") && len(b.Args) == 1 {
				x := b.Args[0]
				if x.Key() == client.Key() || x.Op == "ret" && x.Args[0].Op == "icall" && (x.Args[0].CallName() == ".GetClient" || x.Args[0].CallName() == ".AuthenticateClient") {
					return true
				}
				// field load of request.Client
				if x.Op == "field" && x.Name == "Client" {
					return true
				}
			}
			return false
		}
		// a continuation from a pushed request was validated when it was pushed
		if lk := p.First(".GetPARSession"); lk != nil && p.IsNil(lk.Ret(1)) && f.role == "endpoint" {
			continue
		}
		var ats []*Event
		if len(f.sinks) > 0 {
			ats = p.Calls(f.sinks...)
		} else if p.Success() && p.Kind == "return" {
			ats = []*Event{nil}
		}
		for _, at := range ats {
			n++
			if why := scopesValidatedAt(p, at, rq, boundOK); why != "" && scopeWhy == "" {
				scopeWhy, w = why, p
			}
			if f.audience {
				okA := audienceValidatedAt(p, at, rq, client)
				if !okA {
					// the client may be the authenticated/looked-up one
					for _, e := range p.Calls(".GetClient", ".AuthenticateClient") {
						if audienceValidatedAt(p, at, rq, e.Ret(0)) {
							okA = true
						}
					}
				}
				if !okA && os.Getenv("FOSITELINT_DEBUG") != "" {
					fmt.Fprintln(os.Stderr, "AUD-FAIL", fnShort(f.fn), "rq=", rq.Key())
					for _, ff := range p.Facts {
						if strings.Contains(ff.String(), "Audience") {
							fmt.Fprintln(os.Stderr, "   ", clip(ff.String(), 300))
						}
					}
					for _, e := range p.Calls(".SetRequestedAudience") {
						fmt.Fprintln(os.Stderr, "   set:", e.Recv.Key(), e.Arg(0).Key())
					}
				}
				if !okA && audWhy == "" {
					audWhy, w = "a sink is reachable without the audience strategy having returned nil for (client audience, requested audience)", p
				}
			}
		}
	}
	if n == 0 {
		return "no sink or success exit found", "no sink or success exit found", nil, false
	}
	return scopeWhy, audWhy, w, true
}

func smallInline(fn *ssa.Function) bool {
	return defaultInline(fn) && (fn.Parent() != nil || len(fn.Blocks) <= 10)
}

func runC12(c *Ctx) {
	defer c12Strategies(c)
	defer checkClaimsWith(c, "C12.R10")
	defer checkRegisteredClaimsWin(c, "C12.R9", "(*"+pkgJWT+".JWTClaims).ToMap", "scp", "scope", "aud", "sub", "iss", "exp")
	defer checkGrantedBeforeMint(c, "C12.R8")
	defer checkClientGetters(c, "C12.R7", clientGetter{"DefaultClient", "GetScopes", "Scopes", ""}, clientGetter{"DefaultClient", "GetAudience", "Audience", ""})
	defer checkStoreLooksUp(c, "C12.R5", "GetPublicKeyScopes", 2, 3, 4)
	defer checkAccessRequestPopulated(c, "C12.R6")
	defer checkConfigGetters(c, "C12.R4", "GetScopeStrategy", "GetAudienceStrategy")
	const rule = "C12.R1"
	issueSinks := []string{".IssueAuthorizeCode", ".CreateAuthorizeCodeSession", ".CreateAccessTokenSession", ".GenerateAccessToken", ".GenerateAuthorizeCode", ".GenerateIDToken", ".IssueImplicitIDToken", ".IssueImplicitAccessToken"}
	sr, st := c.strategyReaching(defaultInline), c.storageReaching(defaultInline)
	rootStrat := ExploreConfig{Inline: func(fn *ssa.Function) bool { return sr(fn) || st(fn) }}
	// --- root layers
	layer := func(name string, audience bool) (string, string, *ssa.Function) {
		fn := c.P.Func("(*" + pkgRoot + ".Fosite)." + name)
		if fn == nil {
			c.RoleUnmatched(rule, "endpoint", "(*Fosite)."+name)
			return "missing", "missing", nil
		}
		s, a, _, _ := evalFlow(c, rule, flowSpec{role: "endpoint", fn: fn, cfg: rootStrat, tag: "root-strategy", audience: audience})
		return s, a, fn
	}
	authzS, authzA, authzFn := layer("NewAuthorizeRequest", true)
	parS, parA, parFn := layer("NewPushedAuthorizeRequest", true)
	devS, devA, devFn := layer("NewDeviceRequest", true)
	if devFn != nil {
		c.Check(devS == "", rule, "device-entry", devFn, "scopes", "the device endpoint accepts only requested scopes covered by the client's registration under the configured strategy", devS, nil)
		c.Check(devA == "", rule, "device-entry", devFn, "audience", "the device endpoint accepts only a requested audience covered by the client's registration", devA, nil)
	}
	// --- authorization-endpoint handlers (layered with NewAuthorizeRequest)
	nAuthz := 0
	for _, fn := range c.AuthorizeFns() {
		if !c.P.RefsMethod(fn, 3, issueSinks...) {
			continue
		}
		nAuthz++
		hs, ha, w, _ := evalFlow(c, rule, flowSpec{role: "authorize", fn: fn, cfg: ExploreConfig{Inline: smallInline}, tag: "small", sinks: issueSinks, audience: true})
		mkLayer := func(detail, desc, rootWhy, hWhy string) {
			switch {
			case rootWhy == "":
				c.OK(rule, "authorize", fn, detail, desc).Layer = "NewAuthorizeRequest"
			case hWhy == "":
				c.OK(rule, "authorize", fn, detail, desc).Layer = "response-type handler"
			default:
				c.Bad(rule, "authorize", fn, detail, desc, "neither layer validates: endpoint: "+rootWhy+" | handler: "+hWhy, w)
			}
		}
		mkLayer("scopes", "requested scopes are validated against the client's registration before anything is issued (endpoint layer or handler layer)", authzS, hs)
		mkLayer("audience", "the requested audience is validated against the client's registration before anything is issued (endpoint layer or handler layer)", authzA, ha)
	}
	if nAuthz < 3 {
		c.RoleUnmatched(rule, "authorize", fmt.Sprintf("at least 3 issuing authorization-endpoint handlers; found %d", nAuthz))
	}
	_ = authzFn
	// --- PAR (layers)
	for _, fn := range c.Calling(c.PushFns(), ".CreatePARSession") {
		hs, ha, w, _ := evalFlow(c, rule, flowSpec{role: "push", fn: fn, cfg: handlerCfg(), tag: "handler", sinks: []string{".CreatePARSession"}, audience: true})
		for _, x := range []struct{ d, root, h string }{{"scopes", parS, hs}, {"audience", parA, ha}} {
			desc := "the pushed request's " + x.d + " are validated against the client's registration before it is stored (endpoint layer or handler layer)"
			if x.root == "" {
				c.OK(rule, "push", fn, x.d, desc).Layer = "NewPushedAuthorizeRequest"
			} else if x.h == "" {
				c.OK(rule, "push", fn, x.d, desc).Layer = "PAR handler"
			} else {
				c.Bad(rule, "push", fn, x.d, desc, "neither layer validates: endpoint: "+x.root+" | handler: "+x.h, w)
			}
		}
	}
	_ = parFn
	// --- token-endpoint grants that take requested scopes
	nTok := 0
	for _, fn := range c.ValidateFns() {
		rt := recvTypeName(fn)
		spec := flowSpec{role: "validate", fn: fn, cfg: ExploreConfig{Inline: c.strategyReaching(handlerInline)}, tag: "handler-strategy"}
		switch rt {
		case pkgOAuth2 + ".ClientCredentialsGrantHandler", pkgOAuth2 + ".ResourceOwnerPasswordCredentialsGrantHandler":
			spec.audience = true
		case pkgJWTB + ".Handler":
			spec.jwtKey = true
		default:
			continue
		}
		nTok++
		s, a, w, _ := evalFlow(c, rule, spec)
		bound := "the client's registered scopes"
		if spec.jwtKey {
			bound = "the signing key's registered scopes (GetPublicKeyScopes)"
		}
		c.Check(s == "", rule, "validate", fn, "scopes", "success requires every requested scope to be accepted by the configured strategy against "+bound, s, w)
		if spec.audience {
			c.Check(a == "", rule, "validate", fn, "audience", "success requires the requested audience to be accepted by the configured audience strategy against the client's audience", a, w)
		}
	}
	if nTok < 3 {
		c.RoleUnmatched(rule, "validate", fmt.Sprintf("client_credentials, password and JWT-bearer validate functions; found %d", nTok))
	}
	c12R2(c)
	c12R3(c)
}

func c12R2(c *Ctx) {
	const rule = "C12.R2"
	n := 0
	for _, en := range c.allEntries() {
		if en.role == "endpoint" || !c.P.RefsMethod(en.fn, 3, ".GrantScope", ".GrantAudience") {
			continue
		}
		cfg := ExploreConfig{Inline: c.orRefs(c.storageReaching(handlerInline), handlerInline, ".GrantScope", ".GrantAudience")}
		if recvTypeName(en.fn) == pkgJWTB+".Handler" {
			cfg = ExploreConfig{Inline: c.orRefs(c.strategyReaching(handlerInline), handlerInline, ".GrantScope", ".GrantAudience")}
		}
		ex := c.Explore(en.fn, cfg, "grants")
		if !c.complete(ex, rule, en.role, en.fn) {
			continue
		}
		req := reqParam(en.fn)
		ok, m := true, 0
		var w *Path
		why := ""
		for _, p := range ex.Paths {
			for _, e := range p.Calls(".GrantScope", ".GrantAudience") {
				m++
				a := e.Arg(0)
				good := false
				if a.Op == "idx" && len(a.Args) == 2 {
					X := a.Args[0]
					src := ".GetGrantedScopes"
					if e.Name == ".GrantAudience" {
						src = ".GetGrantedAudience"
					}
					if X.IsCall(src) && storeOwned(X.Args[0]) {
						good = true
					}
					if e.Name == ".GrantScope" && req != nil && X.Key() == call(".GetRequestedScopes", req).Key() {
						// validated requested scopes (JWT-bearer): the strategy accepted this element before
						// ... against a registration (the client's scopes, or the signing key's scopes) — a
						// test against anything else (what was once requested, what the request itself says)
						// confines nothing
						v, k := p.BoolCallAt(e, "apply", func(t *Term) bool {
							return len(t.Args) == 3 && t.Args[0].IsCall(".GetScopeStrategy") && t.Args[2].Key() == a.Key() &&
								(t.Args[1].IsCall(".GetScopes") || t.Args[1].Mentions(func(s *Term) bool {
									return s.IsCall(".GetPublicKeyScopes") || s.Op == "icall" && strings.HasPrefix(s.Name, ".GetPublicKeyScopes")
								}))
						})
						good = k && v
					}
					if e.Name == ".GrantAudience" && X.Op == "field" && X.Name == "Audience" {
						// audience of the verified assertion's claims
						good = true
					}
				}
				if !good {
					ok, w = false, p
					why = fmt.Sprintf("%s(%s) (%s): the argument is neither an element of the stored grant nor a validated requested scope / verified assertion audience", e.Name, clip(a.Pretty(), 80), c.P.Pos(e.Instr.Pos()))
				}
			}
		}
		if m > 0 {
			n++
			c.Check(ok, rule, en.role, en.fn, "grants-only-validated", "every GrantScope/GrantAudience argument is an element of the stored grant, a requested scope the strategy accepted, or the verified assertion's audience", why, w)
		}
	}
	if n < 4 {
		c.RoleUnmatched(rule, "grant-sites", fmt.Sprintf("at least 4 handler functions granting scopes; found %d", n))
	}
}

func c12R3(c *Ctx) {
	const rule = "C12.R3"
	// JWT claims
	nJ := 0
	for _, fn := range c.Impls(pkgOAuth2, "AccessTokenStrategy", "GenerateAccessToken") {
		ex := c.Explore(fn, ExploreConfig{KeepPure: true}, "jwtgen")
		if ex.Truncated != "" {
			continue
		}
		req := paramNamed(fn, 2)
		ok, m := true, 0
		for _, p := range ex.Paths {
			for _, e := range p.Events {
				if e.Kind == "pure" && e.Name == ".With" && len(e.Args) == 3 {
					m++
					if e.Arg(1).Key() != call(".GetGrantedScopes", req).Key() || e.Arg(2).Key() != call(".GetGrantedAudience", req).Key() {
						ok = false
					}
				}
			}
		}
		if m > 0 {
			nJ++
			c.Check(ok, rule, "jwt-strategy", fn, "claims-from-granted", "JWT access-token claims carry GetGrantedScopes / GetGrantedAudience of the request", "claims are built from other sets", nil)
		}
	}
	if nJ == 0 {
		c.RoleUnmatched(rule, "jwt-strategy", "JWT GenerateAccessToken building claims with With(exp, scopes, audience)")
	}
	// scope response field
	nS := 0
	for _, en := range c.allEntries() {
		if en.role != "issue" && en.role != "authorize" || !c.P.RefsMethod(en.fn, 3, ".SetScopes") {
			continue
		}
		ex := c.Explore(en.fn, ExploreConfig{Inline: lifespanInline}, "lifespan")
		if ex.Truncated != "" {
			continue
		}
		req := reqParam(en.fn)
		ok, m := true, 0
		for _, p := range ex.Paths {
			for _, e := range p.Calls(".SetScopes") {
				m++
				if e.Arg(0).Key() != call(".GetGrantedScopes", req).Key() {
					ok = false
				}
			}
		}
		if m > 0 {
			nS++
			c.Check(ok, rule, en.role, en.fn, "response-scope-from-granted", "the scope field of the token response is GetGrantedScopes of the request", "SetScopes receives another set", nil)
		}
	}
	if nS < 3 {
		c.RoleUnmatched(rule, "scope-response-sites", fmt.Sprintf("at least 3 functions setting the response scope; found %d", nS))
	}
}
