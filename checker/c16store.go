package main

// C16.R6 — reference-store contract for device codes: InvalidateDeviceCodeSession
// removes (or deactivates) the DeviceAuths entry keyed by its signature
// parameter; deleting under another map or key is a silent no-op and the code
// stays redeemable.
func c16Store(c *Ctx) {
	const rule, role = "C16.R6", "store"
	fn := storeMethod(c, "InvalidateDeviceCodeSession")
	if fn == nil {
		c.RoleUnmatched(rule, role, "(*MemoryStore).InvalidateDeviceCodeSession")
		return
	}
	ex := c.Explore(fn, storeCfg(), "store")
	if !c.complete(ex, rule, role, fn) {
		return
	}
	sig := paramNamed(fn, 2)
	ok, n := true, 0
	var w *Path
	why := ""
	for _, p := range ex.Paths {
		if p.Kind != "return" || !p.Success() {
			continue
		}
		n++
		hit := false
		for _, e := range p.Events {
			if (e.Kind == "mapdelete" || e.Kind == "mapupdate") && isStoreMap(e.Args[0], "DeviceAuths") && e.Args[1].Key() == sig.Key() {
				hit = true
			}
		}
		if !hit {
			ok, w, why = false, p, "a success path does not remove or rewrite DeviceAuths[signature]"
		}
	}
	c.Check(ok && n > 0, rule, role, fn, "invalidate-removes-device-auth", "every success path of InvalidateDeviceCodeSession removes or rewrites the DeviceAuths entry keyed by the signature parameter", why, w)
}
