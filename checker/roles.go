package main

import (
	"strings"

	"golang.org/x/tools/go/ssa"
)

// Roles: functions are found by API identity (interface implemented, storage
// method called), never by unexported names (DESIGN 3.1, Appendix A).

const (
	pkgRoot    = modPath
	pkgOAuth2  = modPath + "/handler/oauth2"
	pkgOpenID  = modPath + "/handler/openid"
	pkgPKCE    = modPath + "/handler/pkce"
	pkgPAR     = modPath + "/handler/par"
	pkgDevice  = modPath + "/handler/rfc8628"
	pkgJWTB    = modPath + "/handler/rfc7523"
	pkgStorage = modPath + "/storage"
	pkgHMAC    = modPath + "/token/hmac"
	pkgJWT     = modPath + "/token/jwt"
	pkgCompose = modPath + "/compose"
)

// handlerInline: inside handler packages every statically resolved helper is
// traversed (exported or not); root-package helpers only when unexported.
func handlerInline(fn *ssa.Function) bool {
	if defaultInline(fn) {
		return true
	}
	p := fnPkgPath(fn)
	return strings.HasPrefix(p, modPath+"/handler/")
}

func handlerCfg() ExploreConfig { return ExploreConfig{Inline: handlerInline} }

// rootInline: for endpoint functions of package fosite: unexported helpers and
// closures only; exported API (AuthenticateClient, handlers) stays opaque.
func rootCfg() ExploreConfig { return ExploreConfig{} }

func (c *Ctx) Impls(ifacePkg, iface, method string) []*ssa.Function {
	return c.P.Implementations(c.P.Iface(ifacePkg, iface), method)
}

// Phase functions.
func (c *Ctx) ValidateFns() []*ssa.Function {
	return c.Impls(pkgRoot, "TokenEndpointHandler", "HandleTokenEndpointRequest")
}
func (c *Ctx) IssueFns() []*ssa.Function {
	return c.Impls(pkgRoot, "TokenEndpointHandler", "PopulateTokenEndpointResponse")
}
func (c *Ctx) AuthorizeFns() []*ssa.Function {
	return c.Impls(pkgRoot, "AuthorizeEndpointHandler", "HandleAuthorizeEndpointRequest")
}
func (c *Ctx) PushFns() []*ssa.Function {
	return c.Impls(pkgRoot, "PushedAuthorizeEndpointHandler", "HandlePushedAuthorizeEndpointRequest")
}
func (c *Ctx) DeviceFns() []*ssa.Function {
	return c.Impls(pkgRoot, "DeviceEndpointHandler", "HandleDeviceEndpointRequest")
}

// Calling filters fns to those that reach a call named name through statically
// resolved module callees (depth 4).
func (c *Ctx) Calling(fns []*ssa.Function, name string) []*ssa.Function {
	var out []*ssa.Function
	for _, f := range fns {
		if c.P.CallsNamed(f, name, 4) {
			out = append(out, f)
		}
	}
	return out
}

// reqParam returns the root parameter term of the first parameter whose type
// name matches one of the requester interfaces.
func reqParam(fn *ssa.Function) *Term {
	for i, p := range fn.Params {
		ts := typeShort(p.Type())
		switch ts {
		case "fosite.AccessRequester", "fosite.AuthorizeRequester", "fosite.DeviceRequester", "fosite.Requester":
			return paramTerm(i, p)
		}
	}
	return nil
}

func paramByType(fn *ssa.Function, typ string) *Term {
	for i, p := range fn.Params {
		if typeShort(p.Type()) == typ {
			return paramTerm(i, p)
		}
	}
	return nil
}

// form builds $FORM(x,"k") = url.Values.Get(x.GetRequestForm(), "k").
func form(x *Term, k string) *Term {
	return call(".Get", call(".GetRequestForm", x), tStr(k))
}

func getID(x *Term) *Term     { return call(".GetID", x) }
func getClient(x *Term) *Term { return call(".GetClient", x) }

// storage alphabet -----------------------------------------------------------

var storageMutators = map[string]bool{
	".CreateAuthorizeCodeSession": true, ".InvalidateAuthorizeCodeSession": true,
	".CreateAccessTokenSession": true, ".DeleteAccessTokenSession": true,
	".CreateRefreshTokenSession": true, ".DeleteRefreshTokenSession": true, ".RotateRefreshToken": true,
	".RevokeRefreshToken": true, ".RevokeRefreshTokenMaybeGracePeriod": true, ".RevokeAccessToken": true,
	".CreatePKCERequestSession": true, ".DeletePKCERequestSession": true,
	".CreateOpenIDConnectSession": true, ".DeleteOpenIDConnectSession": true,
	".CreateDeviceAuthSession": true, ".InvalidateDeviceCodeSession": true,
	".CreatePARSession": true, ".DeletePARSession": true,
	".SetClientAssertionJWT": true, ".MarkJWTUsedForTime": true, ".SetTokenLifespans": true,
}

var storageLookups = map[string]bool{
	".GetAuthorizeCodeSession": true, ".GetAccessTokenSession": true, ".GetRefreshTokenSession": true,
	".GetPKCERequestSession": true, ".GetOpenIDConnectSession": true, ".GetDeviceCodeSession": true,
	".GetPARSession": true, ".GetClient": true, ".ClientAssertionJWTValid": true, ".IsJWTUsed": true,
	".GetPublicKey": true, ".GetPublicKeys": true, ".GetPublicKeyScopes": true, ".Authenticate": true,
}

var txOps = map[string]bool{"storage.MaybeBeginTx": true, "storage.MaybeCommitTx": true, "storage.MaybeRollbackTx": true}

func isStorageCall(e *Event) bool {
	return e.Kind == "call" && (storageMutators[e.Name] || storageLookups[e.Name])
}

// eventsNamed over all paths (deduplicated by instruction).
func eventsNamed(ex *Exploration, names ...string) map[ssa.Instruction]*Event {
	out := map[ssa.Instruction]*Event{}
	for _, p := range ex.Paths {
		for _, e := range p.Calls(names...) {
			out[e.Instr] = e
		}
	}
	return out
}

// undecidedIf records an undecided obligation when the exploration is incomplete.
func (c *Ctx) complete(ex *Exploration, rule, role string, fn *ssa.Function) bool {
	if ex.Truncated != "" {
		c.Undecided(rule, role, fn, "exploration", "the function must be analysable within the path/step bounds", ex.Truncated)
		return false
	}
	if len(ex.Paths) == 0 {
		c.Undecided(rule, role, fn, "exploration", "the function must have at least one complete path within the loop bound", "no complete path")
		return false
	}
	return true
}
