package main

import (
	"fmt"
	"sort"
	"strings"

	"golang.org/x/tools/go/ssa"
)

func init() {
	register(&propInfo{
		ID:          "C09",
		Run:         runC09,
		MinObl:      8,
		Explanation: "Decided: R1 caller authentication — in NewIntrospectionRequest the introspection of the inspected token and every Active:true response are reached only under (bearer ≠ \"\" ∧ bearer ≠ token ∧ IntrospectToken(bearer, access_token) == nil ∧ its use ∈ {\"\", access_token}) or (basic auth present ∧ GetClient(id from the header) == nil ∧ the secret comparison of that client's current or a rotated hash with the header secret returned nil), and Active:true additionally requires the inspected token's introspection error to be nil; R2 both storage-backed introspector paths merge the stored request only after a successful lookup, token validation (C06.R1) and, for every iterated non-empty required scope, the configured scope strategy accepting it against the stored granted scopes; the returned token use is the kind that was looked up; R3 with refresh-token validation disabled the refresh path is never taken and refresh_token is never returned; R4 writer: for an inactive response only a one-field {active:false} object is encoded and the requester is not read; every key the writer fills from the requester is excluded from the extra-claims copy, and each key is filled from the accessor it is named for. NOT decided: truthfulness over all reachable store states (needs a reference model); extra claims may still set 'active' (observed, operator-controlled data).",
	})
}

func runC09(c *Ctx) {
	defer checkStoreKeyed(c, "C09.R7", storeRow{meth: "GetAccessTokenSession", table: "AccessTokens", op: "get", key: 2}, storeRow{meth: "GetRefreshTokenSession", table: "RefreshTokens", op: "get", key: 2})
	defer checkIntrospectDispatch(c, "C09.R6")
	defer checkConfigGetters(c, "C09.R5", "GetDisableRefreshTokenValidation", "GetScopeStrategy")
	c09R1(c)
	c09R2R3(c)
	c09R4(c)
}

func c09R1(c *Ctx) {
	const rule, role = "C09.R1", "introspect-entry"
	fn := c.P.Func("(*" + pkgRoot + ".Fosite).NewIntrospectionRequest")
	if fn == nil {
		c.RoleUnmatched(rule, role, "(*Fosite).NewIntrospectionRequest")
		return
	}
	ex := c.Explore(fn, rootCfg(), "root")
	if !c.complete(ex, rule, role, fn) {
		return
	}
	r := paramByType(fn, "*http.Request")
	at := c.constTerm(pkgRoot, "AccessToken")
	okGate, okActive := true, true
	var wGate, wActive *Path
	whyGate := ""
	nTok, nActive := 0, 0
	for _, p := range ex.Paths {
		var etok *Event
		var bearerEv *Event
		for _, e := range p.Calls(".IntrospectToken") {
			a := e.Arg(1)
			if a.IsCall(".Get") && len(a.Args) == 2 && a.Args[1].Key() == tStr("token").Key() {
				etok = e
			} else if a.IsCall("fosite.AccessTokenFromRequest") {
				bearerEv = e
			}
		}
		authOK := func(at2 *Event) (bool, string) {
			ct := call("fosite.AccessTokenFromRequest", r)
			tok := call(".Get", field(r, "PostForm"), tStr("token"))
			// (A) bearer
			if p.NeAt(at2, ct, tStr("")) {
				if !p.NeAt(at2, tok, ct) {
					return false, "bearer path without bearer != inspected token"
				}
				if bearerEv == nil || bearerEv.Idx > at2.Idx || !p.IsNilAt(at2, bearerEv.Ret(2)) {
					return false, "bearer path without a successful introspection of the bearer token"
				}
				if at != nil && bearerEv.Arg(2).Key() != at.Key() {
					return false, "the bearer token is not introspected as an access token"
				}
				tu := bearerEv.Ret(0)
				if !(p.EqAt(at2, tu, tStr("")) || (at != nil && p.EqAt(at2, tu, at))) {
					return false, "bearer path without the bearer's token use being access_token"
				}
				return true, ""
			}
			// (B) basic
			ba := call(".BasicAuth", r)
			if !p.TrueAt(at2, ret(2, ba)) {
				return false, "neither a bearer token nor basic credentials were established"
			}
			gc := p.First(".GetClient")
			if gc == nil || gc.Idx > at2.Idx || !p.IsNilAt(at2, gc.Ret(1)) || !gc.Arg(1).Contains(ret(0, ba).Key()) {
				return false, "basic path without a successful GetClient of the id from the Authorization header"
			}
			cmpOK := false
			for _, e := range p.Calls(".Compare") {
				if e.Idx < at2.Idx && p.IsNilAt(at2, e.Result) && e.Arg(2).Contains(ret(1, ba).Key()) {
					h := e.Arg(1)
					if h.Mentions(func(s *Term) bool { return s.Key() == gc.Ret(0).Key() }) {
						cmpOK = true
					}
				}
			}
			if !cmpOK {
				return false, "basic path without a successful comparison of the header secret with a hash of that client"
			}
			return true, ""
		}
		if etok != nil {
			nTok++
			if ok, why := authOK(etok); !ok {
				okGate, wGate, whyGate = false, p, why
			}
		}
		// Active:true
		for _, e := range p.Events {
			if (e.Kind == "lstore" || e.Kind == "store") && e.Name == "Active" && e.Args[1].Key() == tTrue.Key() {
				nActive++
				if etok == nil || etok.Idx > e.Idx || !p.IsNilAt(e, etok.Ret(2)) {
					okActive, wActive = false, p
				} else if ok, _ := authOK(etok); !ok {
					okActive, wActive = false, p
				}
			}
		}
	}
	// the converse: a token whose introspection returned a nil error is reported active, whatever
	// its kind and whatever the token_type_hint was (the hint orders the search, it is not a filter)
	okConv, nConv := true, 0
	var wConv *Path
	for _, p := range ex.Paths {
		if p.Kind != "return" {
			continue
		}
		var etok *Event
		for _, e := range p.Calls(".IntrospectToken") {
			if a := e.Arg(1); a != nil && a.IsCall(".Get") && len(a.Args) == 2 && a.Args[1].Key() == tStr("token").Key() {
				etok = e
			}
		}
		if etok == nil || !p.IsNil(etok.Ret(2)) {
			continue
		}
		nConv++
		act := false
		for _, e := range p.Events[etok.Idx:] {
			if (e.Kind == "lstore" || e.Kind == "store") && e.Name == "Active" && e.Args[1].Key() == tTrue.Key() {
				act = true
			}
		}
		if !act || p.Classify() != ExitSuccess {
			okConv, wConv = false, p
		}
	}
	c.Check(okConv && nConv > 0, rule, role, fn, "accepted-means-active", "whenever the inspected token's introspection returned a nil error the endpoint answers Active:true", "an accepted token can be answered as inactive or with an error", wConv)
	c.Check(okGate && nTok > 0, rule, role, fn, "caller-authenticated", "the inspected token is introspected only for a caller authenticated by a valid, different, active access token or by valid client credentials", whyGate, wGate)
	c.Check(okActive && nActive > 0, rule, role, fn, "active-needs-success", "an Active:true response is built only after the caller was authenticated and the inspected token's introspection returned a nil error", "Active:true reachable otherwise", wActive)
}

func c09R2R3(c *Ctx) {
	n := 0
	for _, fn := range c.Impls(pkgRoot, "TokenIntrospector", "IntrospectToken") {
		if !c.P.CallsNamedAny(fn, 3, map[string]bool{".GetAccessTokenSession": true, ".GetRefreshTokenSession": true}) {
			continue
		}
		n++
		ex := c.Explore(fn, handlerCfg(), "handler")
		if !c.complete(ex, "C09.R2", "introspect", fn) {
			continue
		}
		scopes := paramNamed(fn, len(fn.Params)-1)
		atC, rtC := c.constTerm(pkgRoot, "AccessToken"), c.constTerm(pkgRoot, "RefreshToken")
		okSc, okUse, okDis := true, true, true
		var wSc, wUse, wDis *Path
		whySc := ""
		nm := 0
		for _, p := range ex.Paths {
			// the refresh path may be entered only where the switch is known to be off
			for _, e := range p.Calls(".GetRefreshTokenSession") {
				if dis, dk := p.BoolCallAt(e, ".GetDisableRefreshTokenValidation", nil); !dk || dis {
					okDis, wDis = false, p
				}
			}
			if p.Success() && rtC != nil && len(p.Rets) > 0 && p.Rets[0].Key() == rtC.Key() {
				if dis, dk := p.BoolCall(".GetDisableRefreshTokenValidation", nil); !dk || dis {
					okDis, wDis = false, p
				}
			}
			for _, m := range p.Calls(".Merge") {
				nm++
				st := m.Arg(0)
				if !p.LoopExhausted(m, scopes) {
					okSc, wSc = false, p
					whySc = "the stored request is merged on a path that left the required-scopes loop before all scopes were examined"
				}
				for i := 0; i < 3; i++ {
					el := mk("idx", "", scopes, tInt(int64(i)))
					iter := false
					for _, f := range p.Facts[:min(m.NFacts, len(p.Facts))] {
						if f.Atom.A != nil && f.Atom.A.Contains(el.Key()) || f.Atom.B != nil && f.Atom.B.Contains(el.Key()) {
							iter = true
						}
					}
					if !iter {
						continue
					}
					if p.EqAt(m, el, tStr("")) {
						continue
					}
					if !strategyAccepted(p, m, call(".GetGrantedScopes", st), el) {
						okSc, wSc = false, p
						whySc = fmt.Sprintf("required scope %s was iterated but not accepted by the scope strategy against the token's granted scopes before Merge", el.Pretty())
					}
				}
			}
			if p.Success() && p.Kind == "return" && len(p.Rets) == 2 {
				ms := p.Calls(".Merge")
				if len(ms) == 0 {
					continue
				}
				last := ms[len(ms)-1]
				var lk *Event
				for _, l := range p.Calls(".GetAccessTokenSession", ".GetRefreshTokenSession") {
					if l.Ret(0).Key() == last.Arg(0).Key() {
						lk = l
					}
				}
				if lk != nil {
					want := atC
					if lk.Name == ".GetRefreshTokenSession" {
						want = rtC
					}
					if want == nil || p.Rets[0].Key() != want.Key() {
						okUse, wUse = false, p
					}
				}
			}
		}
		c.Check(okSc && nm > 0, "C09.R2", "introspect", fn, "required-scopes-covered", "every iterated non-empty required scope was accepted by the configured scope strategy against the stored granted scopes before the stored request is merged", whySc, wSc)
		c.Check(okUse, "C09.R2", "introspect", fn, "token-use-matches-lookup", "the returned token use is the kind of token that was looked up and merged", "token use differs from the looked-up kind", wUse)
		c.Check(okDis, "C09.R3", "introspect", fn, "refresh-validation-disabled", "the refresh-token lookup is made and refresh_token is returned only on paths that know GetDisableRefreshTokenValidation is false", "the refresh path is reachable without the switch known to be off", wDis)
	}
	if n == 0 {
		c.RoleUnmatched("C09.R2", "introspect", "storage-backed TokenIntrospector")
	}
}

func c09R4(c *Ctx) {
	const rule, role = "C09.R4", "introspect-writer"
	fn := c.P.Func("(*" + pkgRoot + ".Fosite).WriteIntrospectionResponse")
	if fn == nil {
		c.RoleUnmatched(rule, role, "(*Fosite).WriteIntrospectionResponse")
		return
	}
	ex := c.Explore(fn, rootCfg(), "root")
	if !c.complete(ex, rule, role, fn) {
		return
	}
	resp := paramNamed(fn, 3)
	AR := call(".GetAccessRequester", resp)
	at := c.constTerm(pkgRoot, "AccessToken")
	wantSrc := map[string]func(v *Term) bool{
		"exp": func(v *Term) bool {
			// RFC 7662: seconds since the epoch — the Unix() of the access token's expiry, no other unit
			return at != nil && v.Contains(call(".GetExpiresAt", call(".GetSession", AR), at).Key()) && !v.Mentions(func(s *Term) bool {
				return s.IsCall(".UnixMilli") || s.IsCall(".UnixMicro") || s.IsCall(".UnixNano") || s.Op == "bin"
			})
		},
		"client_id": func(v *Term) bool { return v.Key() == getID(getClient(AR)).Key() },
		"scope":     func(v *Term) bool { return v.Contains(call(".GetGrantedScopes", AR).Key()) },
		"iat": func(v *Term) bool {
			return v.Contains(call(".GetRequestedAt", AR).Key()) && !v.Mentions(func(s *Term) bool {
				return s.IsCall(".UnixMilli") || s.IsCall(".UnixMicro") || s.IsCall(".UnixNano") || s.Op == "bin"
			})
		},
		"sub":      func(v *Term) bool { return v.Key() == call(".GetSubject", call(".GetSession", AR)).Key() },
		"aud":      func(v *Term) bool { return v.Key() == call(".GetGrantedAudience", AR).Key() },
		"username": func(v *Term) bool { return v.Key() == call(".GetUsername", call(".GetSession", AR)).Key() },
		"active":   func(v *Term) bool { return v.Key() == tTrue.Key() },
	}
	okInactive, okSrc, okSkip := true, true, true
	var wInactive, wSrc, wSkip *Path
	whySrc, whySkip, whyInactive := "", "", ""
	written := map[string]bool{}
	nInactive := 0
	for _, p := range ex.Paths {
		act, k := p.BoolCall(".IsActive", nil)
		if k && !act {
			nInactive++
			enc := p.Calls(".Encode")
			if len(enc) != 1 {
				okInactive, wInactive, whyInactive = false, p, "inactive path does not encode exactly one value"
			}
			for _, e := range p.Events {
				for _, a := range e.Args {
					if a.Contains(AR.Key()) {
						okInactive, wInactive, whyInactive = false, p, "the inactive path reads the access requester"
					}
				}
				if e.Kind == "lstore" && e.Name != "Active" && e.Name != "" {
					okInactive, wInactive, whyInactive = false, p, "the inactive response carries field "+e.Name
				}
				if e.Kind == "mapupdate" {
					okInactive, wInactive, whyInactive = false, p, "the inactive path builds a response map"
				}
			}
			continue
		}
		for _, e := range p.Events {
			if e.Kind != "mapupdate" {
				continue
			}
			key, val := e.Args[1], e.Args[2]
			if ks, isC := key.StrConst(); isC {
				written[ks] = true
				chk, known := wantSrc[ks]
				if !known {
					okSrc, wSrc, whySrc = false, p, "the writer fills an unknown member "+ks
				} else if !chk(val) {
					okSrc, wSrc, whySrc = false, p, fmt.Sprintf("member %q is filled from %s", ks, clip(val.Pretty(), 100))
				}
			}
		}
	}
	// second pass: extra-claims copies exclude every reserved key
	var reserved []string
	for k := range written {
		if k != "active" {
			reserved = append(reserved, k)
		}
	}
	sort.Strings(reserved)
	for _, p := range ex.Paths {
		for _, e := range p.Events {
			if e.Kind != "mapupdate" {
				continue
			}
			if _, isC := e.Args[1].StrConst(); isC {
				continue
			}
			for _, k := range reserved {
				if !p.NeAt(e, e.Args[1], tStr(k)) {
					okSkip, wSkip = false, p
					whySkip = fmt.Sprintf("an extra claim is copied under a non-constant key that is not known to differ from the reserved member %q", k)
				}
			}
		}
	}
	c.Check(okInactive && nInactive > 0, rule, role, fn, "inactive-shape", "for an inactive token exactly one object with the single member active=false is encoded and the requester is not read", whyInactive, wInactive)
	c.Check(okSrc && len(written) >= 7, rule, role, fn, "member-sources", "every member is filled from the accessor it is named for (scope←granted scopes, aud←granted audience, client_id←client id, sub←subject, exp←access-token expiry, iat←requested at, username←username)", whySrc, wSrc)
	c.Check(okSkip, rule, role, fn, "extra-claims-skip-list", "extra claims cannot override "+strings.Join(reserved, ", "), whySkip, wSkip)
}

var _ = (*ssa.Function)(nil)
