package main

import (
	"fmt"

	"golang.org/x/tools/go/ssa"
)

func init() {
	register(&propInfo{
		ID:          "C08",
		Run:         runC08,
		MinObl:      14,
		Explanation: "Decided: R1 in NewRevocationRequest every RevocationHandler.RevokeToken call is reached only with the AuthenticateClient error known nil, receives the authenticated client, and an authentication failure is returned unchanged; R2 in the module's RevokeToken implementation every Revoke{Access,Refresh}Token sink requires client-id(looked-up request)==client-id(authenticated client), the lookup error of that request nil, and the mismatch exit derives from ErrUnauthorizedClient; R3 the path that revokes calls both RevokeRefreshToken and RevokeAccessToken with GetID of the looked-up request; R4 the function gives up (no revoke) only after both the refresh-token and the access-token lookup ran, each keyed by the matching *Signature of the presented token; R5 the error mapper returns nil only if each revoke/lookup error is nil, ErrNotFound or ErrInactiveToken and ErrTemporarilyUnavailable otherwise; WriteRevocationResponse writes a non-200 status only under errors.Is(err, ErrInvalidRequest|ErrInvalidClient). R1 also: a success exit of the endpoint is reached only through the exhaustion of the handler loop (every configured handler consulted); R6 reference-store contract: RevokeAccessToken / RevokeRefreshToken resolve the request id through the matching index map and modify the token table under exactly the signature found there, and Delete{Access,Refresh}TokenSession remove the session keyed by their signature parameter and touch the shared request-id index only for an entry known to point at that signature. NOT decided: other stores; histories beyond that contract.",
	})
}

func runC08(c *Ctx) {
	defer checkContextPropagated(c, "C08.R9")
	defer checkFactoriesWireCollaborators(c, "C08.R8")
	defer checkFactoriesUseGivenStrategy(c, "C08.R7")
	c08R1(c)
	c08R2345(c)
	c08Writer(c)
	c08Store(c)
}

func c08R1(c *Ctx) {
	const rule, role = "C08.R1", "revoke-entry"
	fn := c.P.Func("(*" + pkgRoot + ".Fosite).NewRevocationRequest")
	if fn == nil {
		c.RoleUnmatched(rule, role, "(*Fosite).NewRevocationRequest")
		return
	}
	ex := c.Explore(fn, rootCfg(), "root")
	if !c.complete(ex, rule, role, fn) {
		return
	}
	okGate, okClient, okErr, okSucc, okAll := true, true, true, true, true
	var wGate, wClient, wErr, wSucc, wAll *Path
	n := 0
	for _, p := range ex.Paths {
		auth := p.First(".AuthenticateClient")
		for _, e := range p.Calls(".RevokeToken") {
			n++
			if auth == nil || auth.Idx > e.Idx || !p.IsNilAt(e, auth.Ret(1)) {
				okGate, wGate = false, p
				continue
			}
			if e.Arg(len(e.Args)-1).Key() != auth.Ret(0).Key() {
				okClient, wClient = false, p
			}
		}
		if auth != nil && p.NonNil(auth.Ret(1)) {
			if p.Kind != "return" || p.ErrRet() == nil || p.ErrRet().Key() != auth.Ret(1).Key() {
				okErr, wErr = false, p
			}
		}
		if p.Success() && p.Kind == "return" {
			if auth == nil || !p.IsNil(auth.Ret(1)) {
				okSucc, wSucc = false, p
			}
			// every configured handler was consulted: the success exit is reached through the
			// exhaustion test of the handler loop, not by leaving it early (a handler that does
			// not know the token answers nil, so "first nil wins" would skip the one that does)
			if evs := p.Calls(".RevokeToken"); len(evs) > 0 {
				last := evs[len(evs)-1]
				hs := last.Recv
				if hs != nil && hs.Op == "idx" && len(hs.Args) == 2 {
					if !p.LoopExhausted(nil, hs.Args[0]) {
						okAll, wAll = false, p
					}
				} else {
					okAll, wAll = false, p
				}
			}
		}
	}
	if n == 0 {
		c.Bad(rule, role, fn, "dispatch", "the endpoint dispatches to the revocation handlers", "no RevokeToken call found", nil)
		return
	}
	c.Check(okGate, rule, role, fn, "auth-before-revoke", "RevokeToken is reached only after AuthenticateClient returned a nil error", "a handler is invoked without the authentication error known nil", wGate)
	c.Check(okClient, rule, role, fn, "authenticated-client-passed", "the handlers receive the client returned by AuthenticateClient", "RevokeToken receives another client value", wClient)
	c.Check(okErr, rule, role, fn, "auth-error-returned", "an authentication failure is returned unchanged", "the authentication error is replaced or dropped", wErr)
	c.Check(okSucc, rule, role, fn, "success-needs-auth", "success exits require successful client authentication", "a success exit is reachable without authentication", wSucc)
	c.Check(okAll, rule, role, fn, "all-handlers-consulted", "a success exit is reached only after every configured revocation handler was invoked (the handler loop ran to exhaustion)", "success is reachable with the handler loop left early", wAll)
}

func c08R2345(c *Ctx) {
	const role = "revoke"
	fns := c.Impls(pkgRoot, "RevocationHandler", "RevokeToken")
	if len(fns) == 0 {
		c.RoleUnmatched("C08.R2", role, "module implementation of RevocationHandler.RevokeToken")
		return
	}
	for _, fn := range fns {
		ex := c.Explore(fn, handlerCfg(), "handler")
		if !c.complete(ex, "C08.R2", role, fn) {
			continue
		}
		client := paramByType(fn, "fosite.Client")
		token := paramNamed(fn, 2)
		okOwn, okMis, okBoth, okGive, okKey, okMap := true, true, true, true, true, true
		var wOwn, wMis, wBoth, wGive, wKey, wMap *Path
		whyOwn, whyKey, whyMap := "", "", ""
		nRev := 0
		for _, p := range ex.Paths {
			revs := p.Calls(".RevokeRefreshToken", ".RevokeAccessToken")
			lks := p.Calls(".GetRefreshTokenSession", ".GetAccessTokenSession")
			for _, lk := range lks {
				want := ".RefreshTokenSignature"
				if lk.Name == ".GetAccessTokenSession" {
					want = ".AccessTokenSignature"
				}
				k := lk.Arg(1)
				if r, ok := sigRaw(k); !ok || !k.IsCall(want) && !(k.Op == "ret" && k.Args[0].IsCall(want)) || r.Key() != token.Key() {
					okKey, wKey = false, p
					whyKey = lk.Name + " is keyed by " + k.Pretty() + ", expected " + want + "(token)"
				}
			}
			for _, e := range revs {
				nRev++
				id := e.Arg(1)
				var X *Term
				if id.IsCall(".GetID") && len(id.Args) == 1 {
					X = id.Args[0]
				}
				var lk *Event
				for _, l := range lks {
					if X != nil && l.Ret(0).Key() == X.Key() {
						lk = l
					}
				}
				if lk == nil {
					okOwn, wOwn = false, p
					whyOwn = e.Name + " id " + id.Pretty() + " is not GetID of a request looked up on this path"
					continue
				}
				if !p.IsNilAt(e, lk.Ret(1)) {
					okOwn, wOwn = false, p
					whyOwn = e.Name + " runs although the lookup that produced the request did not succeed"
				}
				if client == nil || !p.EqAt(e, getID(getClient(X)), getID(client)) {
					okOwn, wOwn = false, p
					whyOwn = e.Name + " is reachable without client-id(looked-up request) == client-id(authenticated client)"
				}
			}
			if len(revs) > 0 {
				if len(p.Calls(".RevokeRefreshToken")) == 0 || len(p.Calls(".RevokeAccessToken")) == 0 {
					okBoth, wBoth = false, p
				} else if p.Calls(".RevokeRefreshToken")[0].Arg(1).Key() != p.Calls(".RevokeAccessToken")[0].Arg(1).Key() {
					okBoth, wBoth = false, p
				}
			}
			// mismatch exit
			for _, lk := range lks {
				if client != nil && p.Ne(getID(getClient(lk.Ret(0))), getID(client)) {
					if p.Classify() != ExitFail || errorRoot(p.ErrRet()) != "fosite.ErrUnauthorizedClient" || len(revs) > 0 {
						okMis, wMis = false, p
					}
				}
			}
			// giving up
			if len(revs) == 0 && p.Kind == "return" {
				mismatch := false
				for _, lk := range lks {
					if client != nil && p.Ne(getID(getClient(lk.Ret(0))), getID(client)) {
						mismatch = true
					}
				}
				if !mismatch && (len(p.Calls(".GetRefreshTokenSession")) == 0 || len(p.Calls(".GetAccessTokenSession")) == 0) {
					okGive, wGive = false, p
				}
			}
			// mapper: nil result requires every error fed to it to be nil/NotFound/Inactive
			if p.Kind == "return" {
				var errs []*Term
				if len(revs) > 0 {
					for _, e := range revs {
						errs = append(errs, e.Result)
					}
				} else {
					for _, lk := range lks {
						errs = append(errs, lk.Ret(1))
					}
				}
				benign := func(t *Term) bool {
					return p.IsNil(t) || p.Holds(atomB(call("errors.Is", t, gl("fosite.ErrNotFound"))), true) || p.Holds(atomB(call("errors.Is", t, gl("fosite.ErrInactiveToken"))), true)
				}
				allBenign := true
				for _, t := range errs {
					if !benign(t) {
						allBenign = false
					}
				}
				switch p.Classify() {
				case ExitSuccess:
					if !allBenign {
						okMap, wMap = false, p
						whyMap = "nil is returned although a storage error is neither nil, ErrNotFound nor ErrInactiveToken"
					}
				case ExitFail:
					r := errorRoot(p.ErrRet())
					if r != "fosite.ErrTemporarilyUnavailable" && r != "fosite.ErrUnauthorizedClient" {
						okMap, wMap = false, p
						whyMap = "unexpected storage errors surface as " + p.ErrRet().Pretty() + ", expected ErrTemporarilyUnavailable"
					}
				default:
					okMap, wMap = false, p
					whyMap = fmt.Sprintf("unclassified exit %s", p.ErrRet().Pretty())
				}
			}
		}
		if nRev == 0 {
			c.Bad("C08.R3", role, fn, "revokes", "the handler revokes", "no Revoke* call found", nil)
			continue
		}
		c.Check(okOwn, "C08.R2", role, fn, "owner-gate", "every Revoke* sink requires a successfully looked-up request whose client id equals the authenticated client's id", whyOwn, wOwn)
		c.Check(okMis, "C08.R2", role, fn, "foreign-client-refused", "a client mismatch exits with an ErrUnauthorizedClient-derived error and revokes nothing", "mismatch path revokes or returns another error", wMis)
		c.Check(okBoth, "C08.R3", role, fn, "revokes-both", "the revoking path calls RevokeRefreshToken and RevokeAccessToken with the same GetID(looked-up request)", "only one of the two revokes runs, or they use different ids", wBoth)
		c.Check(okGive, "C08.R4", role, fn, "both-lookups-before-giving-up", "the handler gives up only after both the refresh-token and the access-token lookup ran", "a path returns without having tried both token kinds", wGive)
		c.Check(okKey, "C08.R4", role, fn, "lookup-keys", "each lookup is keyed by the matching *Signature of the presented token", whyKey, wKey)
		c.Check(okMap, "C08.R5", role, fn, "error-mapping", "nil is returned only when every storage error is nil/ErrNotFound/ErrInactiveToken; anything else is ErrTemporarilyUnavailable", whyMap, wMap)
	}
}

func c08Writer(c *Ctx) {
	const rule, role = "C08.R5", "revoke-writer"
	fn := c.P.Func("(*" + pkgRoot + ".Fosite).WriteRevocationResponse")
	if fn == nil {
		c.RoleUnmatched(rule, role, "(*Fosite).WriteRevocationResponse")
		return
	}
	ex := c.Explore(fn, rootCfg(), "root")
	if !c.complete(ex, rule, role, fn) {
		return
	}
	errP := paramNamed(fn, 3)
	ok := true
	var w *Path
	why := ""
	n := 0
	for _, p := range ex.Paths {
		for _, e := range p.Calls(".WriteHeader", "http.Error") {
			n++
			var code *Term
			if e.Name == ".WriteHeader" {
				code = e.Arg(0)
			} else {
				code = e.Arg(2)
			}
			if v, isC := code.IntConst(); isC && v == 200 {
				continue
			}
			isReq := p.HoldsAt(e, atomB(call("errors.Is", errP, gl("fosite.ErrInvalidRequest"))), true)
			isCli := p.HoldsAt(e, atomB(call("errors.Is", errP, gl("fosite.ErrInvalidClient"))), true)
			if !isReq && !isCli {
				ok, w = false, p
				why = "a non-200 status (" + code.Pretty() + ") is written for an error that is neither invalid_request nor invalid_client"
			}
		}
	}
	c.Check(ok && n > 0, rule, role, fn, "status-mapping", "WriteRevocationResponse answers 200 except under errors.Is(err, ErrInvalidRequest) or errors.Is(err, ErrInvalidClient)", why, w)
}

var _ = (*ssa.Function)(nil)
