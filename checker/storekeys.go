package main

import "golang.org/x/tools/go/ssa"

// Reference-store key discipline (shared by the properties whose guarantee is
// carried by one MemoryStore table). Every table is keyed by the string the
// handlers derive (signature, code, request_uri, jti) and every method names
// that key as a parameter, so the contract is visible in the shape of the code:
//
//	create     every success path stores table[key-param] and the stored value is built from the request parameter
//	get        every success path has looked table[key-param] up and returns what it found there; no table is modified
//	delete     every success path deletes table[key-param]
//	invalidate every success path rewrites or deletes table[key-param]
//
// and no other table of the store is modified (the request-id indexes named in
// `also` excepted). A type-compatible slip — the other string-keyed map, the
// request id for the signature, the request argument for the stored record —
// compiles, returns nil and passes the handler mocks.
type storeRow struct {
	meth, table, op string
	key             int      // parameter index of the key (receiver is 0, ctx is 1)
	key2            int      // a second key parameter the record is also filed under (0: none)
	also            []string // other tables the method may write
	purge           bool     // the method may drop other (expired) entries of its table while ranging over it
}

func checkStoreKeyed(c *Ctx, rule string, rows ...storeRow) {
	const role = "store"
	for _, m := range rows {
		fn := storeMethod(c, m.meth)
		if fn == nil {
			c.RoleUnmatched(rule, role, "(*MemoryStore)."+m.meth)
			continue
		}
		ex := c.Explore(fn, storeCfg(), "store")
		if !c.complete(ex, rule, role, fn) {
			continue
		}
		key := paramNamed(fn, m.key)
		ok, n := true, 0
		why := ""
		var w *Path
		for _, p := range ex.Paths {
			if p.Kind != "return" {
				continue
			}
			hit := false
			for _, e := range p.Events {
				mut := e.Kind == "mapupdate" || e.Kind == "mapdelete"
				if !mut && e.Kind != "maplookup" {
					continue
				}
				if len(e.Args) < 2 || e.Args[0].Op != "field" || len(e.Args[0].Args) != 1 || e.Args[0].Args[0].Op != "param" {
					continue
				}
				tbl := e.Args[0].Name
				if mut && (m.op == "get" || m.op == "lookup") {
					ok, w, why = false, p, "a read modifies "+tbl+" (the record must outlive failed attempts)"
					continue
				}
				if tbl != m.table {
					if mut && !hasStr(m.also, tbl) {
						ok, w, why = false, p, "modifies "+tbl+", which is not the table of "+m.meth
					}
					continue
				}
				same := e.Args[1].Key() == key.Key()
				if m.key2 > 0 && e.Args[1].Key() == paramNamed(fn, m.key2).Key() {
					if len(e.Args) > 2 && !mentionsParam(e.Args[2], fn, m.key2+1) {
						ok, w, why = false, p, "the value filed under the second key is not built from the request argument"
					}
					continue
				}
				switch {
				case mut && !same && isRangeKey(e.Args[1]) && !m.purge:
					ok, w, why = false, p, m.table+" entries other than the one under the "+paramName(fn, m.key)+" parameter are removed or rewritten while ranging over the table (records of used credentials must stay to be recognised)"
				case mut && !same && !isRangeKey(e.Args[1]):
					ok, w, why = false, p, m.table+" is modified under "+clip(e.Args[1].Pretty(), 60)+", not under the "+paramName(fn, m.key)+" parameter"
				case mut && same && (m.op == "create" || m.op == "invalidate" && e.Kind == "mapupdate" || (m.op == "delete" || m.op == "invalidate") && e.Kind == "mapdelete"):
					hit = true
					if m.op == "create" && e.Kind == "mapupdate" && len(e.Args) > 2 && !mentionsParam(e.Args[2], fn, m.key+1) {
						ok, w, why = false, p, "the value stored in "+m.table+" is "+clip(e.Args[2].Pretty(), 60)+", which is not built from the method's arguments"
					}
				case !mut && same && (m.op == "get" || m.op == "lookup"):
					hit = true
				}
			}
			if p.Classify() != ExitSuccess {
				continue
			}
			n++
			if !hit {
				ok, w, why = false, p, map[string]string{
					"create": "a success path does not store " + m.table + "[" + paramName(fn, m.key) + "]",
					"lookup": "a success path has not looked " + m.table + "[" + paramName(fn, m.key) + "] up",
					"get":    "a success path has not looked " + m.table + "[" + paramName(fn, m.key) + "] up",
					"delete": "a success path does not delete " + m.table + "[" + paramName(fn, m.key) + "]", "invalidate": "a success path neither rewrites nor deletes " + m.table + "[" + paramName(fn, m.key) + "]"}[m.op]
				continue
			}
			if m.op == "get" && len(p.Rets) > 0 {
				want := mk("lookup", "", field(paramNamed(fn, 0), m.table), key)
				from := false
				p.Rets[0].Walk(func(t *Term) bool {
					if t.Key() == want.Key() {
						from = true
					}
					return !from
				})
				if !from {
					ok, w, why = false, p, "the returned record is "+clip(p.Rets[0].Pretty(), 70)+", not the one found under "+m.table+"["+paramName(fn, m.key)+"]"
				}
			}
		}
		c.Check(ok && n > 0, rule, role, fn, "keyed:"+m.meth, m.meth+" ("+m.op+") touches "+m.table+" under its "+paramName(fn, m.key)+" parameter only, on every success path", why, w)
	}
}

func hasStr(xs []string, s string) bool {
	for _, x := range xs {
		if x == s {
			return true
		}
	}
	return false
}

func isRangeKey(t *Term) bool {
	r := false
	t.Walk(func(x *Term) bool {
		if x.Op == "rangekey" || x.Op == "rangeval" || x.Op == "iter" {
			r = true
		}
		return !r
	})
	return r
}

func paramName(fn *ssa.Function, i int) string {
	if i < len(fn.Params) && fn.Params[i].Name() != "" {
		return fn.Params[i].Name()
	}
	return "key"
}

// mentionsParam: the term is built from some parameter with index >= from.
func mentionsParam(t *Term, fn *ssa.Function, from int) bool {
	r := false
	for i := from; i < len(fn.Params); i++ {
		pk := paramNamed(fn, i).Key()
		t.Walk(func(x *Term) bool {
			if x.Key() == pk {
				r = true
			}
			return !r
		})
	}
	return r
}

// checkStoreLooksUp: on every success path of the method each of the named
// parameters has been used as a map key (the nested issuer -> subject -> kid
// registry of trusted JWT-bearer keys): ranging over a level instead of
// indexing it answers for somebody else's registration.
func checkStoreLooksUp(c *Ctx, rule, meth string, params ...int) {
	const role = "store"
	fn := storeMethod(c, meth)
	if fn == nil {
		c.RoleUnmatched(rule, role, "(*MemoryStore)."+meth)
		return
	}
	ex := c.Explore(fn, storeCfg(), "store")
	if !c.complete(ex, rule, role, fn) {
		return
	}
	ok, n := true, 0
	why := ""
	var w *Path
	for _, p := range ex.Paths {
		if p.Kind != "return" || p.Classify() != ExitSuccess {
			continue
		}
		n++
		for _, i := range params {
			k := paramNamed(fn, i).Key()
			hit := false
			for _, e := range p.Events {
				if e.Kind == "maplookup" && len(e.Args) > 1 && e.Args[1].Key() == k {
					hit = true
				}
			}
			if !hit {
				ok, w, why = false, p, "a success path has not indexed the registry by its "+paramName(fn, i)+" parameter"
			}
		}
	}
	c.Check(ok && n > 0, rule, role, fn, "keyed:"+meth, meth+" answers only from the entry indexed by every one of its key parameters", why, w)
}
