package main

import (
	"fmt"

	"golang.org/x/tools/go/ssa"
)

func init() {
	register(&propInfo{
		ID:          "C04",
		Run:         runC04,
		MinObl:      16,
		Explanation: "Decided: R1 in the refresh-issue function RotateRefreshToken precedes both session creates, its error is tested, all three run in one open transaction with the transaction context, rotate's arguments are (GetID(request), signature of the presented refresh token) and the new sessions are stored under the id of the refreshed grant; R2 in the refresh-validate function every path under errors.Is(lookupErr, ErrInactiveToken) is a fail exit, the ErrInvalidGrant exit is reached only after RevokeRefreshToken and RevokeAccessToken ran with GetID(stored), and the only revoke error tolerated before continuing is ErrNotFound; R3 success requires a nil lookup error with the inactive test evaluated false, ValidateRefreshToken nil for the looked-up string, and SetID(GetID(stored)); R4 reference store: inactive lookup returns request+ErrInactiveToken, RevokeRefreshToken deactivates without deleting, RotateRefreshToken reaches both revokes with its requestID, only CreateRefreshTokenSession marks a record active; R5 isolation: every id passed to Revoke*/Rotate* from the refresh, revocation and code-replay paths is GetID of a stored request or of the request in an issue-phase function. The reuse branch carries on after a Revoke/Delete call only with that call's result known nil or known to be ErrNotFound (a guard that tests another variable does not count). NOT decided: chain-depth semantics over histories, other stores, concurrent refreshes (C19).",
	})
}

func (c *Ctx) refreshValidateFns() []*ssa.Function {
	var out []*ssa.Function
	for _, f := range c.Calling(c.ValidateFns(), ".GetRefreshTokenSession") {
		out = append(out, f)
	}
	return out
}

func (c *Ctx) refreshIssueFns() []*ssa.Function {
	return c.Calling(c.IssueFns(), ".RotateRefreshToken")
}

func runC04(c *Ctx) {
	defer checkSessionCloneDeep(c, "C04.R7")
	defer checkStoreKeyed(c, "C04.R6", storeRow{meth: "GetRefreshTokenSession", table: "RefreshTokens", op: "get", key: 2})
	c04R1(c)
	c04R2R3(c)
	c04R4(c)
	c04R5(c)
}

func c04R1(c *Ctx) {
	const rule, role = "C04.R1", "refresh-issue"
	fns := c.refreshIssueFns()
	if len(fns) == 0 {
		c.RoleUnmatched(rule, role, "issue-phase function calling RotateRefreshToken")
		return
	}
	for _, fn := range fns {
		ex := c.Explore(fn, handlerCfg(), "handler")
		if !c.complete(ex, rule, role, fn) {
			continue
		}
		req := reqParam(fn)
		okOrder, okErr, okTx, okCtx, okArgs, okID, okBoth := true, true, true, true, true, true, true
		var wOrder, wErr, wTx, wCtx, wArgs, wID, wBoth *Path
		whyArgs, whyID := "", ""
		n := 0
		for _, p := range ex.Paths {
			rots := p.Calls(".RotateRefreshToken")
			creates := p.Calls(".CreateAccessTokenSession", ".CreateRefreshTokenSession")
			for _, cr := range creates {
				n++
				var rot *Event
				for _, r := range rots {
					if r.Idx < cr.Idx {
						rot = r
					}
				}
				if rot == nil {
					okOrder, wOrder = false, p
					continue
				}
				if !p.IsNilAt(cr, rot.Result) {
					okErr, wErr = false, p
				}
				st, begin := txStateAt(p, cr)
				sti, _ := txStateAt(p, rot)
				if st != "open" || sti != "open" || begin == nil || !p.IsNilAt(rot, begin.Ret(1)) {
					okTx, wTx = false, p
				} else {
					want := begin.Ret(0).Key()
					if cr.Ctx == nil || rot.Ctx == nil || cr.Ctx.Key() != want || rot.Ctx.Key() != want {
						okCtx, wCtx = false, p
					}
				}
				stq := cr.Arg(len(cr.Args) - 1)
				if !carriesIDOf(p, cr, stq, req) {
					okID, wID = false, p
					whyID = fmt.Sprintf("%s persists %s which does not carry the id of the refreshed grant", cr.Name, stq.Pretty())
				}
			}
			for _, rot := range rots {
				if rot.Arg(1).Key() != getID(req).Key() {
					okArgs, wArgs = false, p
					whyArgs = "RotateRefreshToken request id is " + rot.Arg(1).Pretty() + ", expected GetID(request)"
				}
				if r, ok := sigRaw(rot.Arg(2)); !ok || r.Key() != form(req, "refresh_token").Key() {
					okArgs, wArgs = false, p
					whyArgs = "RotateRefreshToken signature argument is " + rot.Arg(2).Pretty() + ", expected the signature of the presented refresh_token"
				}
			}
			if p.Success() && p.Kind == "return" && len(rots) > 0 {
				if len(p.Calls(".CreateAccessTokenSession")) == 0 || len(p.Calls(".CreateRefreshTokenSession")) == 0 {
					okBoth, wBoth = false, p
				}
			}
		}
		if n == 0 {
			c.Bad(rule, role, fn, "creates", "the refresh-issue function creates token sessions", "no create call on any path", nil)
			continue
		}
		c.Check(okOrder, rule, role, fn, "rotate-precedes-create", "RotateRefreshToken precedes every session create", "a session is created on a path that has not rotated the presented token", wOrder)
		c.Check(okErr, rule, role, fn, "rotate-error-tested", "no session is created after a failed RotateRefreshToken", "a create executes without the rotate error being known nil", wErr)
		c.Check(okTx, rule, role, fn, "inside-transaction", "rotate and creates execute in transaction state Open", "rotate or create outside the open transaction", wTx)
		c.Check(okCtx, rule, role, fn, "transaction-context", "rotate and creates receive the context returned by MaybeBeginTx", "a storage write uses a different context than the one MaybeBeginTx returned", wCtx)
		c.Check(okArgs, rule, role, fn, "rotate-arguments", "RotateRefreshToken(GetID(request), RefreshTokenSignature(form refresh_token))", whyArgs, wArgs)
		c.Check(okID, rule, role, fn, "new-sessions-under-grant-id", "both new sessions are stored under the id of the refreshed grant", whyID, wID)
		c.Check(okBoth, rule, role, fn, "new-pair", "a successful exchange creates a new access and a new refresh session", "a success path does not create both sessions", wBoth)
	}
}

func gl(name string) *Term { return &Term{Op: "global", Name: name} }

func c04R2R3(c *Ctx) {
	const role = "refresh-validate"
	fns := c.refreshValidateFns()
	if len(fns) == 0 {
		c.RoleUnmatched("C04.R2", role, "validate-phase function calling GetRefreshTokenSession")
		return
	}
	for _, fn := range fns {
		ex := c.Explore(fn, handlerCfg(), "handler")
		if !c.complete(ex, "C04.R2", role, fn) {
			continue
		}
		tolerated := map[string]bool{}
		nReuse, nGrant := 0, 0
		okFail, okRev, okTol, okTested, okClass := true, true, true, true, true
		var wFail, wRev, wTol, wTested, wClass *Path
		whyRev, whyTol := "", ""
		for _, p := range ex.Paths {
			lk := p.First(".GetRefreshTokenSession")
			if lk == nil {
				continue
			}
			stored, lerr := lk.Ret(0), lk.Ret(1)
			if _, known := p.idx[atomB(call("errors.Is", lerr, gl("fosite.ErrInactiveToken"))).Key()]; p.Kind == "return" && !known && !p.IsNil(lerr) {
				okClass, wClass = false, p
			}
			if p.Holds(atomB(call("errors.Is", lerr, gl("fosite.ErrInactiveToken"))), true) {
				nReuse++
				if p.Classify() != ExitFail && p.Classify() != ExitPanic {
					okFail, wFail = false, p
				}
				if errorRoot(p.ErrRet()) == "fosite.ErrInvalidGrant" {
					// a store may answer ErrNotFound when the grant has no such token left (purged access
					// token): the reuse branch tolerates exactly that and still completes as invalid_grant
					for _, e := range p.Calls(".RevokeRefreshToken", ".RevokeAccessToken") {
						if p.Holds(atomB(call("errors.Is", e.Result, gl("fosite.ErrNotFound"))), true) {
							tolerated[e.Name] = true
						}
					}
					nGrant++
					want := getID(stored).Key()
					for _, nm := range []string{".RevokeRefreshToken", ".RevokeAccessToken"} {
						e := p.First(nm)
						if e == nil {
							okRev, wRev = false, p
							whyRev = "the invalid_grant exit of the reuse branch is reached without " + nm
						} else if e.Arg(1).Key() != want {
							okRev, wRev = false, p
							whyRev = nm + " is called with " + e.Arg(1).Pretty() + ", not with the stored request's id"
						}
					}
				}
				// tolerated errors
				for _, e := range p.Calls(".RevokeRefreshToken", ".RevokeAccessToken", ".DeleteRefreshTokenSession") {
					// the result must have been looked at before the branch carries on: known nil, or
					// known to be ErrNotFound (a guard that tests another variable leaves it unknown)
					if p.IsNil(e.Result) {
						continue
					}
					later := false
					for _, e2 := range p.Events[e.Idx+1:] {
						if e2.Kind == "call" && (storageMutators[e2.Name] || e2.Name == "storage.MaybeCommitTx") {
							later = true
						}
					}
					if later && !p.Holds(atomB(call("errors.Is", e.Result, gl("fosite.ErrNotFound"))), true) {
						okTol, wTol = false, p
						whyTol = e.Name + ": the reuse branch carries on (further writes / commit) although its result is neither known nil nor known to be ErrNotFound"
					}
				}
			}
			if p.Success() && p.Kind == "return" {
				// a nil lookup error is not an inactive-token error; the explicit
				// errors.Is test need not have run on the success path
				if !p.IsNil(lerr) {
					okTested, wTested = false, p
				}
			}
		}
		if nReuse == 0 {
			c.Bad("C04.R2", role, fn, "reuse-branch", "a branch guarded by errors.Is(lookup error, ErrInactiveToken) exists", "no path carries the inactive-token literal: reuse is not detected", nil)
		} else {
			c.Check(okFail, "C04.R2", role, fn, "reuse-fails", "every path through the reuse branch is a fail exit", "a reuse path can succeed", wFail)
			c.Check(nGrant > 0 && okRev, "C04.R2", role, fn, "reuse-revokes-family", "the invalid_grant exit of the reuse branch is reached only after RevokeRefreshToken and RevokeAccessToken ran with GetID(stored)", whyRev, wRev)
			whyT := ""
			for _, nm := range []string{".RevokeRefreshToken", ".RevokeAccessToken"} {
				if !tolerated[nm] {
					whyT = "no reuse path completes as invalid_grant with " + nm + " having answered ErrNotFound: a store that reports a missing token that way turns the replay into a rolled-back error"
				}
			}
			c.Check(whyT == "", "C04.R2", role, fn, "reuse-tolerates-notfound", "ErrNotFound from either revocation of the reuse branch is tolerated: the branch still commits and answers invalid_grant", whyT, nil)
			c.Check(okTol, "C04.R2", role, fn, "reuse-tolerates-only-notfound", "the reuse branch continues past a failed storage call only for ErrNotFound", whyTol, wTol)
		}
		c.Check(okClass, "C04.R2", role, fn, "reuse-classified-first", "every exit after the refresh-token lookup is taken only once its error was tested against ErrInactiveToken (or is nil): no other check can pre-empt reuse detection", "an exit is reachable after the lookup without the inactive-token test", wClass)
		c.Check(okTested, "C04.R3", role, fn, "success-needs-active-token", "success exits require the refresh-token lookup error to be known nil (which excludes ErrInactiveToken)", "a success exit is reachable with a lookup error that is not known to be nil", wTested)
	}
	checkCredentialValidated(c, "C04.R3", "refresh", fns, nil, ".GetRefreshTokenSession", ".ValidateRefreshToken", 2)
	checkSetID(c, "C04.R3", role, ".GetRefreshTokenSession", fns)
}

func c04R4(c *Ctx) {
	const rule, role = "C04.R4", "store"
	checkActiveWriters(c, rule, "RefreshTokens", "CreateRefreshTokenSession")
	if fn := storeMethod(c, "GetRefreshTokenSession"); fn != nil {
		checkInactiveLookup(c, rule, fn, c.Explore(fn, storeCfg(), "store"), "fosite.ErrInactiveToken")
	} else {
		c.RoleUnmatched(rule, "store.GetRefreshTokenSession", "MemoryStore method")
	}
	if fn := storeMethod(c, "RevokeRefreshToken"); fn != nil {
		ex := c.Explore(fn, storeCfg(), "store")
		deact, deleted := false, false
		okAll := true
		for _, p := range ex.Paths {
			found := false
			for _, f := range p.Facts {
				if f.Atom.Kind == "B" && f.Atom.A.IsCall("haskey") && f.Pol && len(f.Atom.A.Args) == 2 && isStoreMap(f.Atom.A.Args[0], "RefreshTokens") {
					found = true
				}
			}
			wrote := false
			for _, e := range p.Events {
				if e.Kind == "mapupdate" && isStoreMap(e.Args[0], "RefreshTokens") && activeOf(p, e.Args[2], e) == "false" {
					deact, wrote = true, true
				}
				if e.Kind == "mapdelete" && isStoreMap(e.Args[0], "RefreshTokens") {
					deleted = true
				}
			}
			if found && p.Success() && !wrote {
				okAll = false
			}
		}
		c.Check(deact && okAll, rule, role, fn, "revoke-deactivates", "RevokeRefreshToken stores the found record with active=false on every success path", "a success path that found the record does not store active=false", nil)
		c.Check(!deleted, rule, role, fn, "revoke-keeps-record", "RevokeRefreshToken does not delete the record (a deleted generation would turn reuse into not-found and skip family revocation)", "RevokeRefreshToken deletes from RefreshTokens", nil)
	} else {
		c.RoleUnmatched(rule, "store.RevokeRefreshToken", "MemoryStore method")
	}
	if fn := storeMethod(c, "RotateRefreshToken"); fn != nil {
		ex := c.Explore(fn, ExploreConfig{Inline: func(f *ssa.Function) bool { return defaultInline(f) }}, "store-opaque")
		ok := true
		n := 0
		for _, p := range ex.Paths {
			if !p.Success() || p.Kind != "return" {
				continue
			}
			n++
			for _, nm := range []string{".RevokeRefreshToken", ".RevokeAccessToken"} {
				e := p.First(nm)
				if e == nil || e.Arg(1).Key() != paramNamed(fn, 2).Key() {
					ok = false
				}
			}
		}
		c.Check(ok && n > 0, rule, role, fn, "rotate-revokes-both", "every success path of RotateRefreshToken calls RevokeRefreshToken and RevokeAccessToken with its requestID", "a success path misses one of the revokes or uses another id", nil)
	} else {
		c.RoleUnmatched(rule, "store.RotateRefreshToken", "MemoryStore method")
	}
}

// c04R5: ids passed to Revoke*/Rotate* are GetID(stored) or GetID(request) in an issue function.
func c04R5(c *Ctx) {
	const rule = "C04.R5"
	type entry struct {
		role string
		fn   *ssa.Function
		req  bool // GetID(request) acceptable (issue phase)
	}
	var entries []entry
	for _, f := range c.refreshValidateFns() {
		entries = append(entries, entry{"refresh-validate", f, false})
	}
	for _, f := range c.refreshIssueFns() {
		entries = append(entries, entry{"refresh-issue", f, true})
	}
	for _, f := range c.codeValidateFns() {
		entries = append(entries, entry{"code-validate", f, false})
	}
	for _, f := range c.Impls(pkgRoot, "RevocationHandler", "RevokeToken") {
		entries = append(entries, entry{"revoke", f, false})
	}
	covered := map[ssa.Instruction]bool{}
	for _, en := range entries {
		ex := c.Explore(en.fn, handlerCfg(), "handler")
		if !c.complete(ex, rule, en.role, en.fn) {
			continue
		}
		req := reqParam(en.fn)
		ok := true
		var w *Path
		why := ""
		n := 0
		for _, p := range ex.Paths {
			for _, e := range p.Calls(".RevokeAccessToken", ".RevokeRefreshToken", ".RotateRefreshToken") {
				covered[e.Instr] = true
				n++
				id := e.Arg(1)
				good := false
				if id.IsCall(".GetID") && len(id.Args) == 1 {
					x := id.Args[0]
					if x.Op == "ret" && x.Name == "0" && x.Args[0].Op == "icall" && storageLookups[x.Args[0].CallName()] {
						good = true
					}
					if en.req && req != nil && x.Key() == req.Key() {
						good = true
					}
				}
				if !good {
					ok, w = false, p
					why = fmt.Sprintf("%s receives id %s (%s)", e.Name, id.Pretty(), c.P.Pos(e.Instr.Pos()))
				}
			}
		}
		if n > 0 {
			c.Check(ok, rule, en.role, en.fn, "revoke-id-provenance", "every id passed to Revoke*/Rotate* is GetID of a request returned by a storage lookup (or of the request itself in the issue phase)", why, w)
		}
	}
	// coverage: call sites of the revoke family outside the store, the device handler (C16.R4) and the analysed entries
	for _, fn := range c.P.AllFuncs {
		pk := fnPkgPath(fn)
		if pk == pkgStorage || pk == pkgDevice {
			continue
		}
		for _, b := range fn.Blocks {
			for _, ins := range b.Instrs {
				call, ok := ins.(*ssa.Call)
				if !ok || !call.Common().IsInvoke() {
					continue
				}
				switch call.Common().Method.Name() {
				case "RevokeAccessToken", "RevokeRefreshToken", "RotateRefreshToken":
					if !covered[ins] {
						c.BadAt(rule, "revoke-site", fn, "uncovered-site:"+call.Common().Method.Name(), "every call site of the revoke family is reached from an analysed entry point", "call site not reached from the refresh, code-replay or revocation entry points: its id argument is not judged", c.P.Pos(call.Pos()), nil)
					}
				}
			}
		}
	}
}
