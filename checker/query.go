package main

import (
	"fmt"
	"go/types"
	"sort"
	"strings"

	"golang.org/x/tools/go/ssa"
)

// ------------------------------------------------------------ path queries

// Holds reports whether the path carries the literal atom=pol.
func (p *Path) Holds(a *Atom, pol bool) bool {
	v, ok := p.idx[a.Key()]
	return ok && v == pol
}

// HoldsAt: the literal was established before event e executed.
func (p *Path) HoldsAt(e *Event, a *Atom, pol bool) bool {
	k := a.Key()
	n := len(p.Facts)
	if e != nil && e.NFacts < n {
		n = e.NFacts
	}
	for _, f := range p.Facts[:n] {
		if f.Atom.Key() == k {
			return f.Pol == pol
		}
	}
	return false
}

// EQ / NE convenience
func (p *Path) Eq(a, b *Term) bool { return a.Key() == b.Key() || p.Holds(atomEQ(a, b), true) }
func (p *Path) Ne(a, b *Term) bool { return p.Holds(atomEQ(a, b), false) }
func (p *Path) EqAt(e *Event, a, b *Term) bool {
	return a.Key() == b.Key() || p.HoldsAt(e, atomEQ(a, b), true)
}
func (p *Path) NeAt(e *Event, a, b *Term) bool { return p.HoldsAt(e, atomEQ(a, b), false) }
func (p *Path) True(t *Term) bool {
	if t.Op == "const" && t.Name == "true" {
		return true
	}
	for _, f := range decompose(t, true) {
		if !p.Holds(f.Atom, f.Pol) {
			return false
		}
	}
	return true
}
func (p *Path) False(t *Term) bool {
	if t.Op == "const" && t.Name == "false" {
		return true
	}
	fs := decompose(t, false)
	for _, f := range fs {
		if !p.Holds(f.Atom, f.Pol) {
			return false
		}
	}
	return true
}
func (p *Path) TrueAt(e *Event, t *Term) bool {
	for _, f := range decompose(t, true) {
		if !p.HoldsAt(e, f.Atom, f.Pol) {
			return false
		}
	}
	return true
}
func (p *Path) FalseAt(e *Event, t *Term) bool {
	for _, f := range decompose(t, false) {
		if !p.HoldsAt(e, f.Atom, f.Pol) {
			return false
		}
	}
	return true
}

// unwrapStack: errorsx.WithStack(x) / errors.WithStack(x) is nil iff x is nil.
func unwrapStack(t *Term) *Term {
	for t != nil && t.Op == "call" && (t.Name == "errorsx.WithStack" || t.Name == "errors.WithStack") && len(t.Args) == 1 {
		t = t.Args[0]
	}
	return t
}

// IsNil: the path knows t == nil.
func (p *Path) IsNil(t *Term) bool {
	if t == nil {
		return false
	}
	t = unwrapStack(t)
	return t.Op == "nil" || p.Holds(atomEQ(t, tNil), true)
}

// NonNil: the path knows t != nil (or t is a freshly built error value).
func (p *Path) NonNil(t *Term) bool {
	if t == nil || t.Op == "nil" {
		return false
	}
	t = unwrapStack(t)
	if t.Op == "nil" {
		return false
	}
	if p.Holds(atomEQ(t, tNil), false) {
		return true
	}
	return builtError(t) || nonNil(t)
}
func (p *Path) IsNilAt(e *Event, t *Term) bool {
	t = unwrapStack(t)
	return t.Op == "nil" || p.HoldsAt(e, atomEQ(t, tNil), true)
}
func (p *Path) NonNilAt(e *Event, t *Term) bool {
	t = unwrapStack(t)
	if t.Op == "nil" {
		return false
	}
	return p.HoldsAt(e, atomEQ(t, tNil), false) || builtError(t) || nonNil(t)
}

// builtError: an error value constructed from one of the module's error
// variables (through With*/WithStack), i.e. non-nil by construction.
func builtError(t *Term) bool {
	return errorRoot(t) != ""
}

var errWrappers = map[string]bool{
	"errorsx.WithStack": true, "errors.WithStack": true, "errors.Wrap": true, "errors.Wrapf": true,
	"errors.WithMessage": true,
}

// errorRoot follows receiver / first argument through the error builders back
// to a package-level error variable and returns its name ("fosite.ErrInvalidGrant").
func errorRoot(t *Term) string {
	for i := 0; i < 32 && t != nil; i++ {
		switch t.Op {
		case "global":
			return t.Name
		case "deref":
			t = t.Args[0]
			continue
		case "call":
			if errWrappers[t.Name] || (strings.HasPrefix(t.Name, ".With") && len(t.Args) > 0) {
				t = t.Args[0]
				continue
			}
			if t.Name == "errors.New" || t.Name == "fmt.Errorf" || t.Name == "errors.Errorf" {
				return "new-error"
			}
			return ""
		default:
			return ""
		}
	}
	return ""
}

// ErrRet returns the last result if the function's last result type is error.
func (p *Path) ErrRet() *Term {
	if p.Kind != "return" || len(p.Rets) == 0 {
		return nil
	}
	return p.Rets[len(p.Rets)-1]
}

type ExitClass int

const (
	ExitSuccess ExitClass = iota
	ExitFail
	ExitMaybe // forwarded result of an opaque call: may be nil or not
	ExitPanic
)

// Classify the exit of an error-returning function.
func (p *Path) Classify() ExitClass {
	if p.Kind == "panic" {
		return ExitPanic
	}
	e := p.ErrRet()
	if e == nil {
		return ExitSuccess
	}
	if p.IsNil(e) {
		return ExitSuccess
	}
	if p.NonNil(e) {
		return ExitFail
	}
	return ExitMaybe
}

// Success: paths on which the function can return a nil error.
func (p *Path) Success() bool {
	c := p.Classify()
	return c == ExitSuccess || c == ExitMaybe
}

func (p *Path) Fail() bool {
	c := p.Classify()
	return c == ExitFail || c == ExitMaybe
}

// Calls returns the non-pure call events with one of the names, in path order.
func (p *Path) Calls(names ...string) []*Event {
	var out []*Event
	for _, e := range p.Events {
		if e.Kind != "call" && e.Kind != "pure" {
			continue
		}
		for _, n := range names {
			if e.Name == n {
				out = append(out, e)
				break
			}
		}
	}
	return out
}

func (p *Path) First(names ...string) *Event {
	c := p.Calls(names...)
	if len(c) == 0 {
		return nil
	}
	return c[0]
}

func (p *Path) Last(names ...string) *Event {
	c := p.Calls(names...)
	if len(c) == 0 {
		return nil
	}
	return c[len(c)-1]
}

// IntBounds of an integer term on the path.
func (p *Path) IntBounds(t *Term) (lo, hi *int64) {
	lo, hi, _ = intervalOf(p.Facts, t)
	return
}

func (p *Path) IntBoundsAt(e *Event, t *Term) (lo, hi *int64) {
	n := len(p.Facts)
	if e != nil && e.NFacts < n {
		n = e.NFacts
	}
	lo, hi, _ = intervalOf(p.Facts[:n], t)
	return
}

// Witness renders the branch decisions of the path (for diagnostics).
func (P *Program) Witness(p *Path) []string {
	var out []string
	for _, b := range p.Branches {
		s := fmt.Sprintf("%s: %s -> %v", P.Pos(b.If.Pos()), clip(b.Cond.Pretty(), 160), b.Taken)
		if b.If.Pos() == 0 {
			// conditions without a position (rotated loops): use the block comment
			s = fmt.Sprintf("%s[%s]: %s -> %v", short(b.If.Parent().String()), b.If.Block().Comment, clip(b.Cond.Pretty(), 160), b.Taken)
		}
		out = append(out, s)
	}
	if len(out) > 24 {
		out = append(out[:12], append([]string{"..."}, out[len(out)-11:]...)...)
	}
	return out
}

func clip(s string, n int) string {
	if len(s) > n {
		return s[:n] + "…"
	}
	return s
}

// FactStrings lists the literals of a path (diagnostics).
func (p *Path) FactStrings() []string {
	var out []string
	for _, f := range p.Facts {
		out = append(out, clip(f.String(), 220))
	}
	return out
}

// ------------------------------------------------------------ program queries

// CallsNamed reports whether fn (or callees traversed by the default inlining
// policy up to depth) contains a call whose callee has the given short name.
func (P *Program) CallsNamed(fn *ssa.Function, name string, depth int) bool {
	seen := map[*ssa.Function]bool{}
	var rec func(f *ssa.Function, d int) bool
	rec = func(f *ssa.Function, d int) bool {
		if f == nil || seen[f] {
			return false
		}
		seen[f] = true
		for _, b := range f.Blocks {
			for _, ins := range b.Instrs {
				var c *ssa.CallCommon
				switch i := ins.(type) {
				case *ssa.Call:
					c = i.Common()
				case *ssa.Defer:
					c = &i.Call
				case *ssa.Go:
					c = &i.Call
				case *ssa.MakeClosure:
					if rec(i.Fn.(*ssa.Function), d) {
						return true
					}
					continue
				default:
					continue
				}
				if c.IsInvoke() {
					if "."+c.Method.Name() == name && !isPureCall(pkgOf(c.Method), name, c.Method, c.Signature()) {
						return true
					}
					continue
				}
				if sf := c.StaticCallee(); sf != nil {
					if funcShortName(sf) == name {
						var o *types.Func
						if oo, ok := sf.Object().(*types.Func); ok {
							o = oo
						}
						if !isPureCall(fnPkgPath(sf), name, o, sf.Signature) {
							return true
						}
					}
					if d > 0 && isSubjectPkg(fnPkgPath(sf)) {
						if rec(sf, d-1) {
							return true
						}
					}
				}
			}
		}
		return false
	}
	return rec(fn, depth)
}

// FuncsCalling lists subject functions (top-level, non-closure) that directly
// contain (including their closures) a call of the given short name.
func (P *Program) FuncsCalling(name string) []*ssa.Function {
	var out []*ssa.Function
	for _, fn := range P.AllFuncs {
		if fn.Parent() != nil {
			continue
		}
		if P.CallsNamed(fn, name, 0) {
			out = append(out, fn)
		}
	}
	return out
}

func fnNames(fs []*ssa.Function) []string {
	var out []string
	for _, f := range fs {
		out = append(out, short(f.String()))
	}
	sort.Strings(out)
	return out
}

// EmptyStr / NonEmptyStr: the path knows the string term is empty / non-empty
// (through == "" or through len comparisons).
func (p *Path) EmptyStr(t *Term) bool {
	if s, ok := t.StrConst(); ok {
		return s == ""
	}
	if p.Holds(atomEQ(t, tStr("")), true) {
		return true
	}
	_, hi := p.IntBounds(call("len", t))
	return hi != nil && *hi <= 0
}

func (p *Path) NonEmptyStr(t *Term) bool {
	if s, ok := t.StrConst(); ok {
		return s != ""
	}
	if p.Holds(atomEQ(t, tStr("")), false) {
		return true
	}
	if p.Holds(atomEQ(call("len", t), tInt(0)), false) {
		return true
	}
	lo, _ := p.IntBounds(call("len", t))
	return lo != nil && *lo >= 1
}

func (p *Path) EmptyStrAt(e *Event, t *Term) bool {
	if p.HoldsAt(e, atomEQ(t, tStr("")), true) {
		return true
	}
	_, hi := p.IntBoundsAt(e, call("len", t))
	return hi != nil && *hi <= 0
}

func (p *Path) NonEmptyStrAt(e *Event, t *Term) bool {
	if p.HoldsAt(e, atomEQ(t, tStr("")), false) || p.HoldsAt(e, atomEQ(call("len", t), tInt(0)), false) {
		return true
	}
	lo, _ := p.IntBoundsAt(e, call("len", t))
	return lo != nil && *lo >= 1
}

// BoolCall looks for a boolean literal whose term is a call named name and
// satisfies match (may be nil); returns its polarity.
func (p *Path) BoolCall(name string, match func(*Term) bool) (val bool, known bool) {
	return p.BoolCallAt(nil, name, match)
}

func (p *Path) BoolCallAt(e *Event, name string, match func(*Term) bool) (val bool, known bool) {
	n := len(p.Facts)
	if e != nil && e.NFacts < n {
		n = e.NFacts
	}
	for _, f := range p.Facts[:n] {
		if f.Atom.Kind == "B" && f.Atom.A.IsCall(name) && (match == nil || match(f.Atom.A)) {
			return f.Pol, true
		}
	}
	return false, false
}

// FactsMention reports whether some literal of the path mentions a term with key k.
func (p *Path) FactsMention(k string) bool {
	for _, f := range p.Facts {
		if f.Atom.A.Contains(k) || (f.Atom.B != nil && f.Atom.B.Contains(k)) {
			return true
		}
	}
	return false
}

func pkgOf(f *types.Func) string {
	if f != nil && f.Pkg() != nil {
		return f.Pkg().Path()
	}
	return ""
}

// LoopExhausted: the path knows the exact length of X at event e, i.e. a range
// loop over X was left through its exhaustion test after iterating every
// element (a break or early continue-out leaves the upper bound unknown).
func (p *Path) LoopExhausted(e *Event, X *Term) bool {
	lo, hi := p.IntBoundsAt(e, call("len", X))
	if hi == nil {
		return false
	}
	if lo == nil {
		return *hi == 0
	}
	return *lo == *hi
}
