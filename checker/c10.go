package main

import (
	"fmt"
	"strings"

	"golang.org/x/tools/go/ssa"
)

func init() {
	register(&propInfo{
		ID:          "C10",
		Run:         runC10,
		MinObl:      28,
		Explanation: "Decided: R1 in NewAccessRequest every HandleTokenEndpointRequest call is reached only under (CanSkipClientAuth of that same handler returned true ∨ the AuthenticateClient error is nil); the authenticated client is installed into the request only on a nil error and an authentication failure is returned unchanged; R2 every module implementation of CanSkipClientAuth returns the constant false, except the JWT-bearer handler whose result is exactly GetGrantTypeJWTBearerCanSkipClientAuth; R3 revocation, PAR and device endpoints process (dispatch to handlers / build the request / succeed) only with a nil authentication error, and the PAR request is built for the authenticated client; R4 default strategy, non-assertion path: success returns the client looked up by the presented id and requires IsPublic(client) or a nil Hasher.Compare of that client's current or a rotated hash with the presented secret; for OpenID Connect clients the method gates hold (post credentials ⇒ client_secret_post, basic secret ⇒ client_secret_basic, public ⇒ none); BCrypt.Compare returns nil only if bcrypt.CompareHashAndPassword did; R5 the client-credentials grant refuses public clients; R6 no storage mutation other than the jti registry is reachable from client authentication. NOT decided: bcrypt itself, header parsing corner cases, the assertion path's claim checks (C15).",
	})
}

func runC10(c *Ctx) {
	defer checkContextPropagated(c, "C10.R17")
	defer checkOneTransport(c, "C10.R16")
	defer checkParseSignatureFirst(c, "C10.R15")
	defer checkJWKSCacheKey(c, "C10.R14")
	defer checkCredentialsFromBody(c, "C10.R13")
	defer checkVerifyAud(c, "C10.R12")
	defer checkClientGetters(c, "C10.R11", clientGetter{"DefaultClient", "GetHashedSecret", "Secret", ""}, clientGetter{"DefaultClient", "GetRotatedHashes", "RotatedSecrets", ""}, clientGetter{"DefaultClient", "GetID", "ID", ""}, clientGetter{"DefaultOpenIDConnectClient", "GetTokenEndpointAuthMethod", "TokenEndpointAuthMethod", ""}, clientGetter{"DefaultOpenIDConnectClient", "GetTokenEndpointAuthSigningAlgorithm", "TokenEndpointAuthSigningAlgorithm", "RS256"}, clientGetter{"DefaultOpenIDConnectClient", "GetJSONWebKeys", "JSONWebKeys", ""}, clientGetter{"DefaultOpenIDConnectClient", "GetJSONWebKeysURI", "JSONWebKeysURI", ""})
	defer checkStoreKeyed(c, "C10.R10", storeRow{meth: "GetClient", table: "Clients", op: "get", key: 2})
	defer checkRevocationWriter(c, "C10.R9")
	defer checkErrorsIsOperands(c, "C10.R8")
	defer checkIsPublic(c, "C10.R7")
	defer checkConfigGetters(c, "C10.R6", "GetGrantTypeJWTBearerCanSkipClientAuth", "GetClientAuthenticationStrategy", "GetSecretsHasher")
	c10R1(c)
	c10R2(c)
	c10R3(c)
	c10R4(c)
	c10R5(c)
	c10R6(c)
}

func c10R1(c *Ctx) {
	const rule, role = "C10.R1", "token-entry"
	fn := c.P.Func("(*" + pkgRoot + ".Fosite).NewAccessRequest")
	if fn == nil {
		c.RoleUnmatched(rule, role, "(*Fosite).NewAccessRequest")
		return
	}
	ex := c.Explore(fn, rootCfg(), "root")
	if !c.complete(ex, rule, role, fn) {
		return
	}
	okGate, okInst, okErr := true, true, true
	var wGate, wInst, wErr *Path
	n := 0
	for _, p := range ex.Paths {
		auth := p.First(".AuthenticateClient")
		for _, h := range p.Calls(".HandleTokenEndpointRequest") {
			n++
			if auth == nil || auth.Idx > h.Idx {
				okGate, wGate = false, p
				continue
			}
			authed := p.IsNilAt(h, auth.Ret(1))
			skip := false
			for _, s := range p.Calls(".CanSkipClientAuth") {
				if s.Idx < h.Idx && s.Recv != nil && h.Recv != nil && s.Recv.Key() == h.Recv.Key() && p.TrueAt(h, s.Result) {
					skip = true
				}
			}
			if !authed && !skip {
				okGate, wGate = false, p
			}
		}
		for _, e := range p.Events {
			if e.Kind == "store" && e.Name == "Client" && auth != nil {
				if e.Args[1].Key() != auth.Ret(0).Key() || !p.IsNilAt(e, auth.Ret(1)) {
					okInst, wInst = false, p
				}
			}
		}
		// a request refused for missing authentication returns the authentication error
		if auth != nil && p.Kind == "return" && p.NonNil(auth.Ret(1)) && p.Classify() == ExitFail {
			if len(p.Calls(".HandleTokenEndpointRequest")) == 0 && len(p.Calls(".CanSkipClientAuth")) > 0 {
				if p.ErrRet().Key() != auth.Ret(1).Key() {
					okErr, wErr = false, p
				}
			}
		}
	}
	c.Check(okGate && n > 0, rule, role, fn, "handler-needs-auth-or-skip", "a token handler is invoked only if the client authenticated or that handler's CanSkipClientAuth returned true", "HandleTokenEndpointRequest reachable without authentication and without the handler's permission to skip it", wGate)
	c.Check(okInst, rule, role, fn, "client-installed-on-success-only", "the authenticated client is installed into the request only when authentication succeeded", "request.Client is written on a path where the authentication error is not known nil, or from another value", wInst)
	c.Check(okErr, rule, role, fn, "auth-error-returned", "a request refused for missing authentication returns the authentication error unchanged", "another error is returned", wErr)
}

func c10R2(c *Ctx) {
	const rule, role = "C10.R2", "can-skip"
	fns := c.Impls(pkgRoot, "TokenEndpointHandler", "CanSkipClientAuth")
	if len(fns) < 8 {
		c.RoleUnmatched(rule, role, fmt.Sprintf("at least 8 implementations of CanSkipClientAuth; found %d", len(fns)))
	}
	for _, fn := range fns {
		ex := c.Explore(fn, handlerCfg(), "handler")
		if !c.complete(ex, rule, role, fn) {
			continue
		}
		allFalse, provider := true, true
		for _, p := range ex.Paths {
			if p.Kind != "return" || len(p.Rets) != 1 {
				allFalse, provider = false, false
				continue
			}
			r := p.Rets[0]
			if r.Key() != tFalse.Key() {
				allFalse = false
			}
			// a returned configuration switch is split into its true and false exit
			if v, known := p.BoolCall(".GetGrantTypeJWTBearerCanSkipClientAuth", nil); !known || v != (r.Key() == tTrue.Key()) || r.Key() != tTrue.Key() && r.Key() != tFalse.Key() {
				provider = false
			}
		}
		isJWTBearer := recvTypeName(fn) == pkgJWTB+".Handler"
		switch {
		case allFalse:
			c.OK(rule, role, fn, "never-skips", "CanSkipClientAuth returns the constant false (allow-list: the JWT-bearer handler returns its configuration switch)")
		case isJWTBearer && provider:
			c.OK(rule, role, fn, "never-skips", "CanSkipClientAuth returns the constant false (allow-list: the JWT-bearer handler returns its configuration switch)").Layer = "allow-listed: GetGrantTypeJWTBearerCanSkipClientAuth"
		default:
			c.Bad(rule, role, fn, "never-skips", "CanSkipClientAuth returns the constant false (allow-list: the JWT-bearer handler returns its configuration switch)", "this handler can allow requests without client authentication", nil)
		}
	}
}

// authGate: in endpoint fn, every sink requires the AuthenticateClient error to be nil.
func authGate(c *Ctx, rule, role string, fn *ssa.Function, cfg ExploreConfig, tag string, sinks []string) {
	ex := c.Explore(fn, cfg, tag)
	if !c.complete(ex, rule, role, fn) {
		return
	}
	ok, okS := true, true
	var w, wS *Path
	why := ""
	nS := 0
	for _, p := range ex.Paths {
		auth := p.First(".AuthenticateClient")
		for _, e := range p.Calls(sinks...) {
			if e == auth {
				continue
			}
			if auth == nil || auth.Idx > e.Idx || !p.IsNilAt(e, auth.Ret(1)) {
				ok, w = false, p
				why = fmt.Sprintf("%s (%s) is reachable without the authentication error known nil", e.Name, c.P.Pos(e.Instr.Pos()))
			}
		}
		if p.Success() && p.Kind == "return" {
			nS++
			if auth == nil || !p.IsNil(auth.Ret(1)) {
				okS, wS = false, p
			}
		}
	}
	c.Check(ok, rule, role, fn, "processing-needs-auth", "handlers are dispatched / the request is built only after AuthenticateClient returned a nil error", why, w)
	c.Check(okS && nS > 0, rule, role, fn, "success-needs-auth", "the endpoint succeeds only after successful client authentication", "a success exit without authentication", wS)
}

func c10R3(c *Ctx) {
	const rule = "C10.R3"
	type ep struct {
		name  string
		sinks []string
		cfg   ExploreConfig
		tag   string
	}
	for _, e := range []ep{
		{"NewRevocationRequest", []string{".RevokeToken"}, rootCfg(), "root"},
		{"NewPushedAuthorizeRequest", []string{".GetClient", ".GetPARSession", ".CreatePARSession"}, authzCfg(c), "authz-storage"},
		{"NewDeviceRequest", []string{".HandleDeviceEndpointRequest"}, rootCfg(), "root"},
	} {
		fn := c.P.Func("(*" + pkgRoot + ".Fosite)." + e.name)
		if fn == nil {
			c.RoleUnmatched(rule, "endpoint", "(*Fosite)."+e.name)
			continue
		}
		authGate(c, rule, "endpoint", fn, e.cfg, e.tag, e.sinks)
	}
	// PAR: the request is built for the authenticated client (shared with C17.R4)
	sub := newCtx(c.P, "C17", c.Tier)
	c17Push(sub)
	for _, o := range sub.Obls {
		if o.Detail == "pushed-for-authenticated-client" {
			o2 := *o
			o2.Rule = rule
			c.add(&o2)
		}
	}
}

func c10R4(c *Ctx) {
	const rule, role = "C10.R4", "authn"
	fn := c.P.Func("(*" + pkgRoot + ".Fosite).DefaultClientAuthenticationStrategy")
	if fn == nil {
		c.RoleUnmatched(rule, role, "(*Fosite).DefaultClientAuthenticationStrategy")
		return
	}
	ex := c.Explore(fn, ExploreConfig{}, "authn")
	if !c.complete(ex, rule, role, fn) {
		return
	}
	r := paramByType(fn, "*http.Request")
	formP := paramByType(fn, "url.Values")
	okCred, okMeth, okRet := true, true, true
	var wCred, wMeth, wRet *Path
	whyCred, whyMeth := "", ""
	n := 0
	for _, p := range ex.Paths {
		if !p.Success() || p.Kind != "return" || len(p.Rets) != 2 {
			continue
		}
		if p.First("jwt.ParseWithClaims") != nil {
			continue // assertion path: C15.R1
		}
		n++
		gc := p.First(".GetClient")
		if gc == nil || !p.IsNil(gc.Ret(1)) || p.Rets[0].Key() != gc.Ret(0).Key() {
			okRet, wRet = false, p
			continue
		}
		client := gc.Ret(0)
		// the id comes from the presented credentials
		id := gc.Arg(1)
		ba := call(".BasicAuth", r)
		fromCreds := id.Contains(ret(0, ba).Key()) || (formP != nil && id.Key() == call(".Get", formP, tStr("client_id")).Key())
		if !fromCreds {
			okRet, wRet = false, p
		}
		isPub, pk := p.BoolCall(".IsPublic", func(t *Term) bool { return t.Args[0].Key() == client.Key() })
		cmpOK := false
		for _, e := range p.Calls(".Compare") {
			if !p.IsNil(e.Result) {
				continue
			}
			h, s := e.Arg(1), e.Arg(2)
			hashOfClient := h.Mentions(func(t *Term) bool { return t.Key() == client.Key() }) &&
				h.Mentions(func(t *Term) bool { return t.IsCall(".GetHashedSecret") || t.IsCall(".GetRotatedHashes") })
			secretFromReq := s.Contains(ret(1, ba).Key()) || (formP != nil && s.Contains(call(".Get", formP, tStr("client_secret")).Key()))
			if hashOfClient && secretFromReq {
				cmpOK = true
			}
		}
		if !(pk && isPub) && !cmpOK {
			okCred, wCred = false, p
			whyCred = "success for a confidential client without a nil comparison of its current or a rotated hash with the presented secret"
		}
		// OIDC method gates
		oidc, ok := p.BoolCall("istype:fosite.OpenIDConnectClient", func(t *Term) bool { return t.Args[0].Key() == client.Key() })
		if ok && oidc && formP != nil {
			m := call(".GetTokenEndpointAuthMethod", client)
			cid, csec := call(".Get", formP, tStr("client_id")), call(".Get", formP, tStr("client_secret"))
			if !(p.EmptyStr(cid) || p.EmptyStr(csec) || p.Eq(m, tStr("client_secret_post"))) {
				okMeth, wMeth, whyMeth = false, p, "credentials in the body accepted for an OpenID Connect client whose method is not known to be client_secret_post"
			}
			bOK, bk := p.BoolCall("ret", nil)
			_ = bOK
			_ = bk
			basic := p.True(ret(2, ba))
			if basic && !(p.EmptyStr(ret(1, ba)) || p.Eq(m, tStr("client_secret_basic"))) {
				okMeth, wMeth, whyMeth = false, p, "a basic-auth secret accepted for an OpenID Connect client whose method is not known to be client_secret_basic"
			}
			if pk && isPub && !p.Eq(m, tStr("none")) {
				okMeth, wMeth, whyMeth = false, p, "a public OpenID Connect client accepted although its method is not known to be none"
			}
		} else if !ok {
			okMeth, wMeth, whyMeth = false, p, "success without the OpenID Connect client type test"
		}
	}
	c.Check(okRet && n > 0, rule, role, fn, "returns-looked-up-client", "success returns the client looked up by the id taken from the request's credentials", "another client value is returned or the id does not come from the credentials", wRet)
	c.Check(okCred, rule, role, fn, "secret-or-public", "success requires a public client or a nil comparison of the client's current or a rotated secret hash with the presented secret", whyCred, wCred)
	c.Check(okMeth, rule, role, fn, "oidc-method-gates", "for OpenID Connect clients the registered token_endpoint_auth_method permits the transport used", whyMeth, wMeth)
	// bcrypt wrapper
	if bf := c.P.Func("(*" + pkgRoot + ".BCrypt).Compare"); bf != nil {
		bex := c.Explore(bf, ExploreConfig{}, "bcrypt")
		ok := len(bex.Paths) > 0
		for _, p := range bex.Paths {
			if p.Kind == "return" && (p.Rets[0].Op == "nil" || p.IsNil(p.Rets[0])) {
				e := p.First("bcrypt.CompareHashAndPassword")
				if e == nil || !p.IsNil(e.Result) || e.Arg(0).Key() != paramNamed(bf, 2).Key() || e.Arg(1).Key() != paramNamed(bf, 3).Key() {
					ok = false
				}
			}
		}
		c.Check(ok, rule, "hasher", bf, "bcrypt-compare", "BCrypt.Compare returns nil only if bcrypt.CompareHashAndPassword(hash, data) returned nil", "nil is returned otherwise", nil)
	} else {
		c.RoleUnmatched(rule, "hasher", "(*fosite.BCrypt).Compare")
	}
}

func c10R5(c *Ctx) {
	const rule, role = "C10.R5", "client-credentials"
	var fns []*ssa.Function
	for _, fn := range c.ValidateFns() {
		if recvTypeName(fn) == pkgOAuth2+".ClientCredentialsGrantHandler" {
			fns = append(fns, fn)
		}
	}
	if len(fns) == 0 {
		c.RoleUnmatched(rule, role, "client-credentials validate function")
	}
	for _, fn := range fns {
		ex := c.Explore(fn, handlerCfg(), "handler")
		if !c.complete(ex, rule, role, fn) {
			continue
		}
		req := reqParam(fn)
		ok, n := true, 0
		var w *Path
		for _, p := range ex.Paths {
			if !p.Success() || p.Kind != "return" {
				continue
			}
			n++
			v, k := p.BoolCall(".IsPublic", func(t *Term) bool { return t.Args[0].Key() == getClient(req).Key() })
			if !k || v {
				ok, w = false, p
			}
		}
		c.Check(ok && n > 0, rule, role, fn, "no-public-clients", "the client-credentials grant succeeds only for a client known not to be public", "a success exit without IsPublic(client) == false", w)
	}
}

func c10R6(c *Ctx) {
	const rule, role = "C10.R6", "authn"
	for _, name := range []string{"DefaultClientAuthenticationStrategy", "AuthenticateClient"} {
		fn := c.P.Func("(*" + pkgRoot + ".Fosite)." + name)
		if fn == nil {
			c.RoleUnmatched(rule, role, "(*Fosite)."+name)
			continue
		}
		var bad []string
		for m := range storageMutators {
			if m == ".SetClientAssertionJWT" || m == ".MarkJWTUsedForTime" {
				continue
			}
			if c.P.CallsNamed(fn, m, 6) {
				bad = append(bad, strings.TrimPrefix(m, "."))
			}
		}
		c.Check(len(bad) == 0, rule, role, fn, "no-state-change", "client authentication reaches no storage mutation other than the jti registry (a rejected caller changes nothing)", "reaches "+strings.Join(bad, ", "), nil)
	}
}
