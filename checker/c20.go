package main

import (
	"fmt"
	"go/constant"
	"go/types"
	"sort"
	"strings"

	"golang.org/x/tools/go/ssa"
)

func init() {
	register(&propInfo{
		ID:          "C20",
		Run:         runC20,
		MinObl:      54,
		Explanation: "Decided: R1 in every exported (*Fosite).Write* function (unexported helpers traversed) every emission on the ResponseWriter (Write, WriteHeader, http.Error, encoders/templates/redirect helpers/response-mode handlers receiving the writer) is preceded on all paths by Header().Set(\"Cache-Control\",\"no-store\") and Set(\"Pragma\",\"no-cache\") on the same writer with no later header write that could override them (non-constant key, or the same key with another value); R2 in the methods of RFC6749Error every use of DebugField as a returned value or call/store argument is control-dependent on exposeDebug==true (Debug() accessor exempt), WithExposeDebug never receives a constant true in the module and the Write* functions never call Debug(); R3 the form-post templates (package default and configured) are *html/template.Template; R4 storage taint — for every storage persistence/lookup call in every handler and endpoint function string arguments never contain a raw credential (form values code/refresh_token/device_code/token/access_token/client_secret/password/code_verifier/client_assertion, the code/token results of Generate*/GetCode/GetAccessToken, the raw token parameter of IntrospectToken/RevokeToken) outside a *Signature call, and persisted Requesters are Sanitize(·,W) with a constant W disjoint from the endpoint's secret keys, the operator's whitelist, or have the secret keys deleted from their form on all paths before the call (Authenticate(username,password) exempt by name). R3 also: no function of the module converts a value to one of html/template's trusted content types (HTML, URL, JS, ...); R5 every implementation of Requester.Sanitize copies a form key into the sanitized request only if the key is in the set built from its whitelist argument and the fixed default keys; R6 the 21 error values the RFCs define carry exactly the RFC error code; R7 GetDescription returns the quote-replaced complete text (nothing appended after the replacement). NOT decided: well-formedness of emitted bytes beyond that, i18n catalog content, escaping inside html/template.",
	})
}

func runC20(c *Ctx) {
	defer checkRequestGetters(c, "C20.R11")
	defer checkConfigGetters(c, "C20.R8", "GetSendDebugMessagesToClients", "GetUseLegacyErrorFormat")
	c20R1(c)
	c20R2(c)
	c20R3(c)
	c20R4(c)
	c20Sanitize(c)
	c20Codes(c)
	c20Description(c)
	checkRevocationWriter(c, "C20.R9")
	c20UnknownErrorText(c)
	c20StorageTextInHints(c)
}

// ------------------------------------------------------------------ R1

func c20R1(c *Ctx) {
	const rule, role = "C20.R1", "writer"
	var fns []*ssa.Function
	for _, fn := range c.P.MethodsOf(pkgRoot, "Fosite") {
		if strings.HasPrefix(fn.Name(), "Write") && paramByType(fn, "http.ResponseWriter") != nil {
			fns = append(fns, fn)
		}
	}
	if len(fns) < 8 {
		c.RoleUnmatched(rule, role, fmt.Sprintf("at least 8 exported (*Fosite).Write* functions; found %d", len(fns)))
	}
	for _, fn := range fns {
		ex := c.Explore(fn, rootCfg(), "root")
		if !c.complete(ex, rule, role, fn) {
			continue
		}
		rw := paramByType(fn, "http.ResponseWriter")
		ok := true
		var w *Path
		why := ""
		nEmit := 0
		for _, p := range ex.Paths {
			cc, pragma := false, false
			for _, e := range p.Events {
				if e.Kind != "call" && e.Kind != "inline" {
					continue
				}
				isHdr := e.Recv != nil && e.Recv.IsCall(".Header") && len(e.Recv.Args) == 1 && e.Recv.Args[0].Key() == rw.Key()
				if isHdr && (e.Name == ".Set" || e.Name == ".Add" || e.Name == ".Del") {
					k, kc := e.Arg(0).StrConst()
					v, vc := e.Arg(1).StrConst()
					switch {
					case !kc:
						cc, pragma = false, false // copied header: may override
					case strings.EqualFold(k, "Cache-Control"):
						cc = e.Name == ".Set" && vc && v == "no-store"
					case strings.EqualFold(k, "Pragma"):
						pragma = e.Name == ".Set" && vc && v == "no-cache"
					}
					continue
				}
				if e.Kind == "inline" {
					continue
				}
				// emission: the writer is the receiver or an argument
				touches := e.Recv != nil && mentionsTerm(e.Recv, rw)
				for _, a := range e.Args {
					if mentionsTerm(a, rw) {
						touches = true
					}
				}
				if !touches || isHdr {
					continue
				}
				// delegation to another exported Write* of Fosite is judged there
				if e.StaticFn != nil && recvTypeName(e.StaticFn) == pkgRoot+".Fosite" && strings.HasPrefix(e.StaticFn.Name(), "Write") {
					continue
				}
				nEmit++
				if !cc || !pragma {
					ok, w = false, p
					why = fmt.Sprintf("%s (%s) emits on the writer without Cache-Control: no-store / Pragma: no-cache being set (or after a header write that may override them)", e.Name, c.P.Pos(e.Instr.Pos()))
				}
			}
		}
		if nEmit == 0 {
			c.Bad(rule, role, fn, "no-store-before-emission", "the writer emits", "no emission on the ResponseWriter found", nil)
			continue
		}
		c.Check(ok, rule, role, fn, "no-store-before-emission", "every emission on the ResponseWriter is preceded on all paths by Cache-Control: no-store and Pragma: no-cache, set after any copied headers", why, w)
	}
}

// ------------------------------------------------------------------ R2

func c20R2(c *Ctx) {
	const rule, role = "C20.R2", "error-type"
	ms := c.P.MethodsOf(pkgRoot, "RFC6749Error")
	if len(ms) < 10 {
		c.RoleUnmatched(rule, role, "methods of fosite.RFC6749Error")
	}
	nUse := 0
	for _, fn := range ms {
		if fn.Name() == "Debug" {
			continue
		}
		ex := c.Explore(fn, ExploreConfig{Inline: func(f *ssa.Function) bool { return defaultInline(f) }, KeepPure: true}, "errtype")
		if ex.Truncated != "" {
			c.Undecided(rule, role, fn, "exploration", "analysable", ex.Truncated)
			continue
		}
		ok := true
		var w *Path
		why := ""
		used := false
		isDbg := func(t *Term) (*Term, bool) {
			var base *Term
			t.Walk(func(s *Term) bool {
				if s.Op == "field" && s.Name == "DebugField" && len(s.Args) == 1 {
					base = s.Args[0]
					return false
				}
				return true
			})
			return base, base != nil
		}
		guard := func(p *Path, e *Event, base *Term) bool {
			return p.HoldsAt(e, atomB(field(base, "exposeDebug")), true)
		}
		for _, p := range ex.Paths {
			for _, e := range p.Events {
				if e.Kind == "inline" || e.Kind == "maplookup" || e.Kind == "range" {
					continue
				}
				// copying the whole struct (With* builders) is not a read of the field
				for _, a := range e.Args {
					if b, is := isDbg(a); is {
						if (e.Kind == "store" || e.Kind == "lstore") && e.Name == "DebugField" {
							continue // field-to-field copy inside the error type (not output)
						}
						used = true
						if !guard(p, e, b) {
							ok, w = false, p
							why = fmt.Sprintf("DebugField flows into %s %s (%s) without exposeDebug being known true", e.Kind, e.Name, c.P.Pos(e.Instr.Pos()))
						}
					}
				}
			}
			for _, r := range p.Rets {
				if b, is := isDbg(r); is && r.Op != "tuple" {
					// returning the struct itself (builders) is not output of the field
					if r.Op == "field" || r.Op == "bin" || r.Op == "call" {
						used = true
						if !guard(p, nil, b) {
							ok, w = false, p
							why = "DebugField is part of the returned value " + clip(r.Pretty(), 100) + " without exposeDebug being known true"
						}
					}
				}
			}
		}
		if used {
			nUse++
			c.Check(ok, rule, role, fn, "debug-needs-expose-flag", "DebugField is used as output only under exposeDebug == true", why, w)
		}
	}
	if nUse < 3 {
		c.RoleUnmatched(rule, "debug-output-sites", fmt.Sprintf("at least 3 RFC6749Error methods that output DebugField; found %d", nUse))
	}
	// WithExposeDebug(const true) nowhere; writers never call Debug()
	nExpose := 0
	for _, fn := range c.P.AllFuncs {
		for _, b := range fn.Blocks {
			for _, ins := range b.Instrs {
				call, ok := ins.(*ssa.Call)
				if !ok {
					continue
				}
				sf := call.Common().StaticCallee()
				if sf == nil || recvTypeName(sf) != pkgRoot+".RFC6749Error" {
					continue
				}
				switch sf.Name() {
				case "WithExposeDebug":
					nExpose++
					arg := call.Common().Args[len(call.Common().Args)-1]
					if k, isC := arg.(*ssa.Const); isC && k.Value != nil && constant.BoolVal(k.Value) {
						c.BadAt(rule, "expose-switch", fn, "expose-from-config", "WithExposeDebug receives the operator's switch, never a constant true", "WithExposeDebug(true)", c.P.Pos(call.Pos()), nil)
					} else if !valueDerivesFromCall(arg, "GetSendDebugMessagesToClients") {
						c.BadAt(rule, "expose-switch", fn, "expose-from-config", "WithExposeDebug receives GetSendDebugMessagesToClients(ctx)", "argument does not derive from the configuration getter", c.P.Pos(call.Pos()), nil)
					} else {
						c.OK(rule, "expose-switch", fn, "expose-from-config", "WithExposeDebug receives GetSendDebugMessagesToClients(ctx)")
					}
				case "Debug":
					top := fn
					for top.Parent() != nil {
						top = top.Parent()
					}
					if fnPkgPath(top) == pkgRoot && (strings.HasPrefix(top.Name(), "Write") || strings.HasPrefix(top.Name(), "write")) {
						c.BadAt(rule, "writer", top, "writers-never-call-Debug", "response writers never read the debug text directly", "Debug() is called in a writer", c.P.Pos(call.Pos()), nil)
					}
				}
			}
		}
	}
	if nExpose < 3 {
		c.RoleUnmatched(rule, "expose-switch", "at least 3 WithExposeDebug call sites")
	}
}

func valueDerivesFromCall(v ssa.Value, method string) bool {
	seen := map[ssa.Value]bool{}
	var rec func(v ssa.Value) bool
	rec = func(v ssa.Value) bool {
		if v == nil || seen[v] {
			return false
		}
		seen[v] = true
		switch x := v.(type) {
		case *ssa.Call:
			if x.Common().IsInvoke() && x.Common().Method.Name() == method {
				return true
			}
			if sf := x.Common().StaticCallee(); sf != nil && sf.Name() == method {
				return true
			}
		case *ssa.Phi:
			for _, e := range x.Edges {
				if rec(e) {
					return true
				}
			}
		case *ssa.UnOp:
			if a, ok := x.X.(*ssa.Alloc); ok {
				// spilled local: find stores
				for _, r := range *a.Referrers() {
					if st, ok := r.(*ssa.Store); ok && st.Addr == a && rec(st.Val) {
						return true
					}
				}
			}
			return rec(x.X)
		case *ssa.FreeVar:
			// closure capture: look at the binding in the parent
			fn := x.Parent()
			for i, fv := range fn.FreeVars {
				if fv == x && fn.Parent() != nil {
					for _, b := range fn.Parent().Blocks {
						for _, ins := range b.Instrs {
							if mc, ok := ins.(*ssa.MakeClosure); ok && mc.Fn == fn && i < len(mc.Bindings) {
								if rec(mc.Bindings[i]) {
									return true
								}
							}
						}
					}
				}
			}
		case *ssa.Alloc:
			for _, r := range *x.Referrers() {
				if st, ok := r.(*ssa.Store); ok && st.Addr == x && rec(st.Val) {
					return true
				}
			}
		}
		return false
	}
	return rec(v)
}

// ------------------------------------------------------------------ R3

func c20R3(c *Ctx) {
	const rule, role = "C20.R3", "form-post-template"
	root := c.P.ByPath[pkgRoot]
	isHTML := func(t types.Type) bool {
		if p, ok := t.(*types.Pointer); ok {
			t = p.Elem()
		}
		n, ok := t.(*types.Named)
		return ok && n.Obj().Pkg() != nil && n.Obj().Pkg().Path() == "html/template" && n.Obj().Name() == "Template"
	}
	if o := root.Types.Scope().Lookup("DefaultFormPostTemplate"); o != nil {
		c.Check(isHTML(o.Type()), rule, role, nil, "default-template-type", "fosite.DefaultFormPostTemplate is an *html/template.Template (auto-escaping)", "type is "+o.Type().String(), nil)
	} else {
		c.RoleUnmatched(rule, role, "fosite.DefaultFormPostTemplate")
	}
	if o := root.Types.Scope().Lookup("FormPostHTMLTemplateProvider"); o != nil {
		it := o.Type().Underlying().(*types.Interface)
		okT := false
		for i := 0; i < it.NumMethods(); i++ {
			m := it.Method(i)
			if m.Name() == "GetFormPostHTMLTemplate" {
				okT = isHTML(m.Type().(*types.Signature).Results().At(0).Type())
			}
		}
		c.Check(okT, rule, role, nil, "configured-template-type", "the configured form-post template is an *html/template.Template", "GetFormPostHTMLTemplate does not return *html/template.Template", nil)
	} else {
		c.RoleUnmatched(rule, role, "fosite.FormPostHTMLTemplateProvider")
	}
	// the writer executes the template it is given and nothing else writes the form
	fn := c.P.Func(pkgRoot + ".WriteAuthorizeFormPostResponse")
	if fn == nil {
		c.RoleUnmatched(rule, role, "fosite.WriteAuthorizeFormPostResponse")
		return
	}
	okT := false
	for _, p := range fn.Params {
		if isHTML(p.Type()) {
			okT = true
		}
	}
	c.Check(okT, rule, role, fn, "writer-takes-html-template", "WriteAuthorizeFormPostResponse renders through an *html/template.Template parameter", "no *html/template.Template parameter", nil)
	// auto-escaping is switched off per value by html/template's trusted content types; nothing in
	// the module may produce one (a redirect URI typed template.URL is emitted verbatim into action="...")
	trusted := map[string]bool{"HTML": true, "HTMLAttr": true, "JS": true, "JSStr": true, "CSS": true, "URL": true, "Srcset": true}
	var sites []string
	for _, f := range c.P.AllFuncs {
		for _, b := range f.Blocks {
			for _, ins := range b.Instrs {
				v, isV := ins.(ssa.Value)
				if !isV {
					continue
				}
				switch ins.(type) {
				case *ssa.ChangeType, *ssa.Convert, *ssa.MakeInterface:
				default:
					continue
				}
				t := v.Type()
				if mi, ok := ins.(*ssa.MakeInterface); ok {
					t = mi.X.Type()
				}
				if n, ok := t.(*types.Named); ok && n.Obj().Pkg() != nil && n.Obj().Pkg().Path() == "html/template" && trusted[n.Obj().Name()] {
					sites = append(sites, c.P.Pos(ins.Pos())+" ("+fnShort(f)+": template."+n.Obj().Name()+")")
				}
			}
		}
	}
	sort.Strings(sites)
	c.Check(len(sites) == 0, rule, role, nil, "no-trusted-content-types", "no function of the module converts a value to one of html/template's trusted content types (HTML, URL, JS, ...)", "trusted content type produced at "+strings.Join(sites, ", "), nil)
}

// ------------------------------------------------------------------ R4

var secretFormKeys = map[string]bool{
	"client_secret": true, "password": true, "code_verifier": true, "client_assertion": true,
	"code": true, "refresh_token": true, "device_code": true, "token": true, "access_token": true,
}

// rawSecrets returns descriptions of raw credentials contained in t outside *Signature calls.
func rawSecrets(t *Term, tokenParams map[string]bool) []string {
	var out []string
	var rec func(t *Term)
	rec = func(t *Term) {
		if t == nil {
			return
		}
		switch t.Op {
		case "call":
			if strings.HasSuffix(t.Name, "Signature") {
				return // sanitised: only the signature part leaves
			}
			if t.Name == "len" || t.Name == ".GetID" {
				return
			}
			if t.Name == ".Get" || t.Name == ".FormValue" || t.Name == ".PostFormValue" {
				if k, ok := t.Args[len(t.Args)-1].StrConst(); ok && secretFormKeys[k] {
					out = append(out, "form value "+k)
					return
				}
			}
			if t.Name == ".GetCode" || t.Name == ".GetAccessToken" {
				out = append(out, "complete credential "+t.Name[1:]+"()")
				return
			}
		case "ret":
			if t.Name == "0" && len(t.Args) == 1 && t.Args[0].Op == "icall" && strings.HasPrefix(t.Args[0].CallName(), ".Generate") {
				out = append(out, "complete credential returned by "+t.Args[0].CallName()[1:])
				return
			}
			if len(t.Args) == 1 && t.Args[0].Op == "icall" {
				return // other results of effectful calls: not traced into their arguments
			}
		case "icall":
			return
		case "param":
			if tokenParams[t.Key()] {
				out = append(out, "raw token parameter "+t.Name)
			}
			return
		}
		for _, a := range t.Args {
			rec(a)
		}
	}
	rec(t)
	return out
}

func endpointSecrets(role string) []string {
	switch role {
	case "validate", "issue", "revoke", "introspect":
		return []string{"client_secret", "password", "code_verifier", "client_assertion", "code", "refresh_token", "device_code", "token", "access_token"}
	case "push", "device":
		return []string{"client_secret", "client_assertion"}
	}
	return nil
}

// GlobalStringSlice resolves a package-level []string initialised with a literal.
func (P *Program) GlobalStringSlice(name string) ([]string, bool) {
	for _, sp := range P.Subjects {
		initFn := sp.Func("init")
		if initFn == nil {
			continue
		}
		for _, b := range initFn.Blocks {
			for _, ins := range b.Instrs {
				st, ok := ins.(*ssa.Store)
				if !ok {
					continue
				}
				g, ok := st.Addr.(*ssa.Global)
				if !ok || globalName(g) != name {
					continue
				}
				sl, ok := st.Val.(*ssa.Slice)
				if !ok {
					return nil, false
				}
				arr, ok := sl.X.(*ssa.Alloc)
				if !ok {
					return nil, false
				}
				var out []string
				for _, r := range *arr.Referrers() {
					ia, ok := r.(*ssa.IndexAddr)
					if !ok {
						continue
					}
					for _, r2 := range *ia.Referrers() {
						if s2, ok := r2.(*ssa.Store); ok {
							k, ok := s2.Val.(*ssa.Const)
							if !ok || k.Value == nil || k.Value.Kind() != constant.String {
								return nil, false
							}
							out = append(out, constant.StringVal(k.Value))
						}
					}
				}
				return out, true
			}
		}
	}
	return nil, false
}

func c20R4(c *Ctx) {
	const rule = "C20.R4"
	nSites := 0
	for _, en := range c.allEntries() {
		if !c.P.CallsNamedAny(en.fn, 4, storageMutators, storageLookups) {
			continue
		}
		cfg := en.cfg
		base := cfg.Inline
		if base == nil {
			base = defaultInline
		}
		cfg.Inline = c.storageReaching(base)
		ex := c.Explore(en.fn, cfg, en.tag+"-storage")
		if !c.complete(ex, rule, en.role, en.fn) {
			continue
		}
		tokenParams := map[string]bool{}
		if en.role == "revoke" || en.role == "introspect" {
			tokenParams[paramNamed(en.fn, 2).Key()] = true
		}
		if en.fn.Name() == "IntrospectToken" && en.role == "endpoint" {
			tokenParams[paramNamed(en.fn, 2).Key()] = true
		}
		secrets := endpointSecrets(en.role)
		bad := map[string]string{}
		wit := map[string]*Path{}
		seen := map[string]bool{}
		for _, p := range ex.Paths {
			for _, e := range p.Events {
				if !isStorageCall(e) || e.Name == ".Authenticate" {
					continue
				}
				site := strings.TrimPrefix(e.Name, ".")
				seen[site] = true
				sig, _ := e.Callee.Type().(*types.Signature)
				for i, a := range e.Args {
					if a == tCtx || sig == nil || i >= sig.Params().Len() {
						continue
					}
					pt := sig.Params().At(i).Type()
					switch typeShort(pt) {
					case "string":
						if rs := rawSecrets(a, tokenParams); len(rs) > 0 {
							k := "storage-key:" + site
							bad[k] = fmt.Sprintf("%s (%s) receives %s as argument %d (%s): a complete credential reaches the storage layer instead of its signature", e.Name, c.P.Pos(e.Instr.Pos()), strings.Join(rs, ", "), i, clip(a.Pretty(), 100))
							wit[k] = p
						}
					case "fosite.Requester", "fosite.AuthorizeRequester", "fosite.DeviceRequester", "fosite.AccessRequester":
						if storageLookups[e.Name] {
							continue // hydration parameter of lookups
						}
						if why := requesterLeaks(c, p, e, a, secrets); why != "" {
							k := "stored-form:" + site
							bad[k] = fmt.Sprintf("%s (%s): %s", e.Name, c.P.Pos(e.Instr.Pos()), why)
							wit[k] = p
						}
					}
				}
			}
		}
		for s := range seen {
			nSites++
			reported := false
			for _, pre := range []string{"storage-key:", "stored-form:"} {
				if why, isBad := bad[pre+s]; isBad {
					c.Bad(rule, en.role, en.fn, pre+s, "no raw credential reaches the storage layer as a key or inside a stored request form", why, wit[pre+s])
					reported = true
				}
			}
			if !reported {
				c.OK(rule, en.role, en.fn, "storage-args:"+s, "no raw credential reaches the storage layer as a key or inside a stored request form")
			}
		}
	}
	if nSites < 25 {
		c.RoleUnmatched(rule, "storage-call-sites", fmt.Sprintf("at least 25 (function, storage method) pairs; found %d", nSites))
	}
}

// requesterLeaks returns "" if the persisted requester cannot carry one of the
// endpoint's secret form keys.
func requesterLeaks(c *Ctx, p *Path, e *Event, a *Term, secrets []string) string {
	if len(secrets) == 0 {
		return ""
	}
	if a.IsCall(".Sanitize") && len(a.Args) == 2 {
		// the sanitized copy must not be re-filled before it is persisted
		for _, ev := range p.Events[:e.Idx] {
			if ev.Kind == "call" && ev.Recv != nil && ev.Recv.Key() == a.Key() && ev.Name == ".Merge" {
				src := ev.Arg(0)
				if !(src.IsCall(".Sanitize") && len(src.Args) == 2 && (src.Args[1].Op == "lit" || src.Args[1].Op == "nil") && requesterLeaks(c, p, ev, src, secrets) == "") {
					return "the sanitized copy is merged with " + clip(src.Pretty(), 60) + " before being persisted: Merge copies the whole request form back"
				}
			}
			formOfCopy := call(".GetRequestForm", a)
			if ev.Kind == "mapupdate" && ev.Args[0].Key() == formOfCopy.Key() {
				return "a form value is written into the sanitized copy before it is persisted"
			}
			if ev.Kind == "call" && (ev.Name == ".Set" || ev.Name == ".Add") && ev.Recv != nil && ev.Recv.Key() == formOfCopy.Key() {
				if k, isC := ev.Arg(0).StrConst(); !isC || secretFormKeys[k] {
					return "a form value is written into the sanitized copy before it is persisted"
				}
			}
		}
		w := a.Args[1]
		switch {
		case w.Op == "lit" || w.Op == "nil":
			for _, s := range secrets {
				if litHas(w, s) {
					return "the Sanitize whitelist keeps secret form key " + s
				}
			}
			return ""
		case w.IsCall(".GetSanitationWhiteList"):
			// the operator's configured whitelist is meant for the authorization request (default: code,
			// redirect_uri — an authorization request carries no code). Applied to a token-endpoint
			// request it keeps the complete authorization code in the stored form.
			if hasStr(secrets, "code") {
				return "the authorize-side sanitation whitelist (default keeps \"code\") is applied to a token-endpoint request, whose form carries the complete authorization code"
			}
			return ""
		case w.Op == "global":
			if vals, ok := c.P.GlobalStringSlice(w.Name); ok {
				for _, v := range vals {
					for _, s := range secrets {
						if v == s {
							return "the Sanitize whitelist " + w.Name + " keeps secret form key " + s
						}
					}
				}
				return ""
			}
			return "the Sanitize whitelist " + w.Name + " is not a constant list"
		}
		return "the Sanitize whitelist " + clip(w.Pretty(), 80) + " is not a constant list"
	}
	// raw requester: every secret key must have been deleted from its form before the call
	formT := call(".GetRequestForm", a)
	var missing []string
	for _, s := range secrets {
		deleted := false
		for _, ev := range p.Events[:e.Idx] {
			switch {
			case ev.Kind == "mapdelete" && ev.Args[0].Key() == formT.Key() && ev.Args[1].Key() == tStr(s).Key():
				deleted = true
			case ev.Kind == "call" && ev.Name == ".Del" && ev.Recv != nil && ev.Recv.Key() == formT.Key() && ev.Arg(0).Key() == tStr(s).Key():
				deleted = true
			}
		}
		if !deleted {
			missing = append(missing, s)
		}
	}
	if len(missing) == 0 {
		return ""
	}
	// only keys the endpoint can actually receive matter for a raw requester: for the token
	// endpoint that is the whole list, for PAR/device the client credentials
	return "the request is persisted unsanitized (" + clip(a.Pretty(), 60) + ") and its form may still contain " + strings.Join(missing, ", ")
}
