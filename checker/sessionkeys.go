package main

import (
	"fmt"
	"strings"
)

// C06.R5 — a minted credential is filed under its own signature and handed out
// from the same mint. "Only server-minted tokens are accepted" is decided by
// looking the presented token's signature up in storage; that only means
// something if every Create*Session call receives the signature that the very
// Generate call returned whose token goes into the response. Swapped
// signatures (access for refresh), a signature from another mint, or a
// constant all keep the unit tests green (mocks accept any string).
//
//	Create<Kind>Session(ctx, key, ...) : key = ret:1(@Generate<Kind>#k)
//	                                      or <Kind>Signature(ctx, ret:0(@Generate<Kind>#k))
//	CreateRefreshTokenSession(ctx, rsig, asig, ...) : additionally asig from GenerateAccessToken
//	response.<setter>(ret:0(@Generate<Kind>#k)) uses the same k as the stored key
var mintKinds = []struct {
	create   string
	argIdx   int
	generate string
	sigFn    string
	what     string
}{
	{".CreateAccessTokenSession", 1, ".GenerateAccessToken", ".AccessTokenSignature", "access token"},
	{".CreateRefreshTokenSession", 1, ".GenerateRefreshToken", ".RefreshTokenSignature", "refresh token"},
	{".CreateRefreshTokenSession", 2, ".GenerateAccessToken", ".AccessTokenSignature", "access token (sibling index of the refresh session)"},
	{".CreateAuthorizeCodeSession", 1, ".GenerateAuthorizeCode", ".AuthorizeCodeSignature", "authorization code"},
	{".CreateDeviceAuthSession", 1, ".GenerateDeviceCode", ".DeviceCodeSignature", "device code"},
	{".CreateDeviceAuthSession", 2, ".GenerateUserCode", ".UserCodeSignature", "user code"},
}

// mintOf: the Generate call occurrence a term is the signature (sig=true) or the
// token (sig=false) of; "" if it is neither.
func mintOf(t *Term, generate, sigFn string, wantSig bool) string {
	if t == nil {
		return ""
	}
	if t.Op == "ret" && len(t.Args) == 1 && t.Args[0].Op == "icall" && t.Args[0].CallName() == generate {
		if wantSig && t.Name == "1" || !wantSig && t.Name == "0" {
			return t.Args[0].Name
		}
		return ""
	}
	if wantSig && t.IsCall(sigFn) && len(t.Args) >= 1 {
		return mintOf(t.Args[len(t.Args)-1], generate, sigFn, false)
	}
	return ""
}

func c06MintedKeys(c *Ctx) {
	const rule = "C06.R5"
	nSites := 0
	for _, en := range c.allEntries() {
		if en.role == "endpoint" || !c.P.CallsNamedAny(en.fn, 4, map[string]bool{
			".CreateAccessTokenSession": true, ".CreateRefreshTokenSession": true, ".CreateAuthorizeCodeSession": true, ".CreateDeviceAuthSession": true}) {
			continue
		}
		cfg := en.cfg
		base := cfg.Inline
		if base == nil {
			base = defaultInline
		}
		// helpers that mint (and return the pair in a struct) are traversed as well
		cfg.Inline = c.orRefs(c.storageReaching(base), base, ".GenerateAccessToken", ".GenerateRefreshToken", ".GenerateAuthorizeCode", ".GenerateDeviceCode", ".GenerateUserCode")
		ex := c.Explore(en.fn, cfg, en.tag+"-storage-mint")
		if !c.complete(ex, rule, en.role, en.fn) {
			continue
		}
		bad := map[string]string{}
		wit := map[string]*Path{}
		seen := map[string]bool{}
		for _, p := range ex.Paths {
			stored := map[string]string{} // generate name -> occurrence whose signature was stored
			for _, e := range p.Events {
				if e.Kind != "call" {
					continue
				}
				for _, mk := range mintKinds {
					if e.Name != mk.create || mk.argIdx >= len(e.Args) {
						continue
					}
					site := fmt.Sprintf("%s:arg%d", strings.TrimPrefix(mk.create, "."), mk.argIdx)
					seen[site] = true
					a := e.Arg(mk.argIdx)
					occ := mintOf(a, mk.generate, mk.sigFn, true)
					if occ == "" {
						// a sibling index may legitimately be empty when no access token is minted on this path
						if mk.argIdx == 2 && mk.create == ".CreateRefreshTokenSession" && len(p.Calls(mk.generate)) == 0 {
							continue
						}
						bad[site] = fmt.Sprintf("%s (%s) files the %s under %s, which is not the signature returned by %s on this path", e.Name, c.P.Pos(e.Instr.Pos()), mk.what, clip(a.Pretty(), 80), mk.generate)
						wit[site] = p
						continue
					}
					if mk.argIdx == 1 || mk.create == ".CreateDeviceAuthSession" {
						stored[mk.generate] = occ
					}
				}
			}
			// the credential handed out comes from the same mint as the stored signature
			for _, e := range p.Events {
				if e.Kind != "call" {
					continue
				}
				var tok *Term
				gen := ""
				switch {
				case e.Name == ".SetAccessToken":
					tok, gen = e.Arg(0), ".GenerateAccessToken"
				case e.Name == ".SetExtra" && e.Arg(0).Key() == tStr("refresh_token").Key():
					tok, gen = e.Arg(1), ".GenerateRefreshToken"
				case e.Name == ".AddParameter" && e.Arg(0).Key() == tStr("code").Key():
					tok, gen = e.Arg(1), ".GenerateAuthorizeCode"
				case e.Name == ".AddParameter" && e.Arg(0).Key() == tStr("access_token").Key():
					tok, gen = e.Arg(1), ".GenerateAccessToken"
				case e.Name == ".SetDeviceCode":
					tok, gen = e.Arg(0), ".GenerateDeviceCode"
				case e.Name == ".SetUserCode":
					tok, gen = e.Arg(0), ".GenerateUserCode"
				default:
					continue
				}
				occ := mintOf(tok, gen, "", false)
				site := "handed-out:" + strings.TrimPrefix(gen, ".Generate")
				if occ == "" {
					continue // not a freshly minted value on this path (e.g. copied from another handler's response)
				}
				seen[site] = true
				if st, ok := stored[gen]; ok && st != occ {
					bad[site] = fmt.Sprintf("%s (%s) hands out the token of %s while the stored signature is that of %s", e.Name, c.P.Pos(e.Instr.Pos()), occ, st)
					wit[site] = p
				}
				// (a mint that returned an empty signature is not stored by the handlers that test
				// the signature and hand out by testing the token: not a reachable combination for a
				// strategy that returns both or neither)
				sigT := &Term{Op: "ret", Name: "1", Args: []*Term{tok.Args[0]}}
				if _, ok := stored[gen]; !ok && p.Success() && !p.EmptyStr(sigT) {
					bad[site] = fmt.Sprintf("%s (%s) hands out a freshly minted credential of %s whose signature was not stored on this path", e.Name, c.P.Pos(e.Instr.Pos()), occ)
					wit[site] = p
				}
			}
		}
		for _, site := range sortedKeys(seen) {
			nSites++
			c.Check(bad[site] == "", rule, en.role, en.fn, "own-signature:"+site, "a minted credential is stored under the signature its own Generate call returned and the response carries the token of that same call", bad[site], wit[site])
		}
	}
	if nSites < 10 {
		c.RoleUnmatched(rule, "mint-sites", fmt.Sprintf("at least 10 session-create / hand-out sites; found %d", nSites))
	}
}

// C06.R2 (extension) — every method of HMACStrategy that draws the global
// secret refuses a short one: a success exit needs len(GetGlobalSecret()) >= 32
// (Generate and Validate are covered by their own rules; this catches the
// remaining readers, e.g. GenerateHMACForString used for user codes).
func c06SecretLength(c *Ctx) {
	const rule, role = "C06.R2", "hmac-secret-readers"
	n := 0
	for _, fn := range c.P.MethodsOf(pkgHMAC, "HMACStrategy") {
		// the exported API only: unexported helpers (a secrets collector, say) are judged through their callers
		if fn.Name() == "Generate" || fn.Name() == "Validate" || fn.Object() == nil || !fn.Object().Exported() || !c.P.RefsMethod(fn, 2, ".GetGlobalSecret") {
			continue
		}
		ex := c.Explore(fn, hmacCfg(), "hmac")
		if !c.complete(ex, rule, role, fn) {
			continue
		}
		n++
		sec := ret(0, call(".GetGlobalSecret", field(paramNamed(fn, 0), "Config"), tCtx))
		ok, m := true, 0
		var w *Path
		for _, p := range ex.Paths {
			if p.Kind != "return" || len(p.Rets) == 0 {
				continue
			}
			last := p.Rets[len(p.Rets)-1]
			if !(last.Op == "nil" || p.IsNil(last)) {
				continue
			}
			m++
			if lo, _ := p.IntBounds(call("len", sec)); lo == nil || *lo < 32 {
				ok, w = false, p
			}
		}
		c.Check(ok && m > 0, rule, role, fn, "secret-length:"+fn.Name(), fn.Name()+" succeeds only with a global secret of at least 32 bytes", "success without len(secret) >= 32", w)
	}
	if n == 0 {
		c.RoleUnmatched(rule, role, "an HMACStrategy method other than Generate/Validate reading the global secret")
	}
}

// C06.R6 — the pushed-authorization request_uri is minted with full entropy:
// the value stored and returned is prefix + encode(RandomBytes(n)) with n >= 32,
// the random bytes obtained without error, and the encoding not cut.
func c06PARURI(c *Ctx) {
	const rule, role = "C06.R6", "par-mint"
	n := 0
	for _, en := range c.allEntries() {
		if en.role == "endpoint" || !c.P.CallsNamed(en.fn, ".CreatePARSession", 3) {
			continue
		}
		ex := c.Explore(en.fn, handlerCfg(), "handler")
		if !c.complete(ex, rule, role, en.fn) {
			continue
		}
		ok, m := true, 0
		var w *Path
		why := ""
		for _, p := range ex.Paths {
			for _, e := range p.Calls(".CreatePARSession") {
				m++
				uri := e.Arg(1)
				rb := p.First("hmac.RandomBytes")
				if rb == nil || !p.IsNilAt(e, rb.Ret(1)) {
					ok, w, why = false, p, "the request_uri is stored without fresh random bytes obtained without error"
					continue
				}
				if v, isC := rb.Arg(0).IntConst(); !isC || v < 32 {
					lo, _ := p.IntBoundsAt(rb, rb.Arg(0))
					if lo == nil || *lo < 32 {
						ok, w, why = false, p, "fewer than 32 random bytes may be requested"
					}
				}
				enc := false
				cut := false
				uri.Walk(func(t *Term) bool {
					if t.Op == "slice" && t.Mentions(func(s *Term) bool { return s.Key() == rb.Ret(0).Key() }) {
						cut = true
					}
					if t.IsCall(".EncodeToString") && len(t.Args) == 2 && t.Args[1].Key() == rb.Ret(0).Key() {
						enc = true
					}
					return true
				})
				if !enc || cut {
					ok, w, why = false, p, "the stored request_uri is "+clip(uri.Pretty(), 100)+": not prefix + the uncut encoding of the random bytes"
				}
				// the same value goes to the client
				if su := p.First(".SetRequestURI"); su != nil && su.Arg(0).Key() != uri.Key() {
					ok, w, why = false, p, "the request_uri returned to the client differs from the stored key"
				}
			}
		}
		if m > 0 {
			n++
			c.Check(ok, rule, role, en.fn, "request-uri-entropy", "the stored and returned request_uri is prefix + encode(RandomBytes(n>=32)), uncut", why, w)
		}
	}
	if n == 0 {
		c.RoleUnmatched(rule, role, "handler function calling CreatePARSession")
	}
}

// C06.R9 — the token prefix is matched exactly. The prefixed HMAC strategy
// strips "ory_at_" / "ory_rt_" / "ory_ac_" before the MAC check; the prefix is
// not covered by the MAC, so "altering either part … prefix changes … is always
// rejected" holds only because a token whose prefix differs in any byte is not
// stripped and then fails the MAC. The stripping helper returns
// strings.TrimPrefix(token, prefix) (or CutPrefix / a slice under
// strings.HasPrefix): never a case-insensitive or partial match.
func c06PrefixExact(c *Ctx) {
	const rule, role = "C06.R9", "prefix-strip"
	fn := c.P.Func("(*" + pkgOAuth2 + ".HMACSHAStrategy).trimPrefix")
	if fn == nil {
		// the helper may have been renamed or inlined: find the method of the prefixed strategy that returns a string and takes the token
		for _, m := range c.P.MethodsOf(pkgOAuth2, "HMACSHAStrategy") {
			if m.Signature.Results().Len() == 1 && m.Signature.Params().Len() == 2 && typeShort(m.Signature.Results().At(0).Type()) == "string" && strings.Contains(strings.ToLower(m.Name()), "prefix") && m.Name() != "getPrefix" {
				fn = m
			}
		}
	}
	if fn == nil {
		c.RoleUnmatched(rule, role, "prefix stripping helper of oauth2.HMACSHAStrategy")
		return
	}
	ex := c.Explore(fn, ExploreConfig{}, "prefix")
	if !c.complete(ex, rule, role, fn) {
		return
	}
	tok := paramNamed(fn, 1)
	ok, n := true, 0
	why := ""
	var w *Path
	for _, p := range ex.Paths {
		if p.Kind != "return" || len(p.Rets) != 1 {
			continue
		}
		n++
		r := p.Rets[0]
		hasPrefix := func(pol bool) bool {
			for _, f := range p.Facts {
				if f.Atom.Kind == "B" && f.Pol == pol && f.Atom.A.IsCall("strings.HasPrefix") && len(f.Atom.A.Args) == 2 && f.Atom.A.Args[0].Key() == tok.Key() {
					return true
				}
			}
			return false
		}
		switch {
		case r.IsCall("strings.TrimPrefix") && len(r.Args) == 2 && r.Args[0].Key() == tok.Key():
		case r.Op == "ret" && r.Name == "0" && len(r.Args) == 1 && r.Args[0].IsCall("strings.CutPrefix") && r.Args[0].Args[0].Key() == tok.Key():
		case r.Op == "slice" && len(r.Args) == 3 && r.Args[0].Key() == tok.Key() && hasPrefix(true):
		case r.Key() == tok.Key() && (hasPrefix(false) || len(p.Facts) == 0 || cutFound(p, tok, false)):
		case r.Op == "ret" && r.Name == "0" && len(r.Args) == 1 && r.Args[0].IsCall("strings.CutPrefix"):
		default:
			ok, w = false, p
			why = "the token handed to the MAC check is " + clip(r.Pretty(), 80) + ": not the token with an exactly matching prefix removed"
		}
	}
	c.Check(ok && n > 0, rule, role, fn, "prefix-exact", "the prefix is removed only by an exact, whole-prefix match (TrimPrefix / CutPrefix / HasPrefix+slice)", why, w)
}

// cutFound: the path knows the "found" result of strings.CutPrefix(token, …) to be pol.
func cutFound(p *Path, tok *Term, pol bool) bool {
	for _, f := range p.Facts {
		a := f.Atom.A
		if f.Atom.Kind == "B" && f.Pol == pol && a.Op == "ret" && a.Name == "1" && len(a.Args) == 1 && a.Args[0].IsCall("strings.CutPrefix") && len(a.Args[0].Args) == 2 && a.Args[0].Args[0].Key() == tok.Key() {
			return true
		}
	}
	return false
}
