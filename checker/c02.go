package main

import (
	"fmt"
	"strings"

	"golang.org/x/tools/go/ssa"
)

func init() {
	register(&propInfo{
		ID:          "C02",
		Run:         runC02,
		MinObl:      13,
		Explanation: "Decided: R1 every success exit of the code-validate function carries the literal client-id(stored) == client-id(request) and the mismatch exit derives from ErrInvalidGrant; R2 every success exit carries redirect_uri(stored)==\"\" or redirect_uri(stored)==redirect_uri(request), mismatch exit derives from ErrInvalidGrant; R3 ValidateAuthorizeCode returned nil for the very string whose signature was looked up (layer: validate success exit or redeem function before any create); R4 the request's scopes/audience/session are overwritten from the stored request only and every GrantScope/GrantAudience argument in the redeem function is an element of the stored grant (nothing derives from the token request's form); R5 failed attempts do not mutate storage (C01.R4). R5 the authorize request is stored with a whitelist that keeps redirect_uri (the handler's default list, or the operator's list only when it is known non-empty), so the binding of R2 has something to compare; R6 Request.SetRequestedScopes / SetRequestedAudience reset the field on every path before appending (the override steps really override). NOT decided: semantics of differently-encoded redirect URIs, what the application put into the stored session, expiry arithmetic (C07).",
	})
}

func runC02(c *Ctx) {
	defer checkSessionSetExpiresAt(c, "C02.R9")
	defer checkGrantedBeforeMint(c, "C02.R8")
	defer checkConfigGetters(c, "C02.R7", "GetSanitationWhiteList", "GetAuthorizeCodeLifespan")
	const role = "code-validate"
	defer c02Whitelist(c)
	defer c02Setters(c)
	fns := c.codeValidateFns()
	if len(fns) == 0 {
		c.RoleUnmatched("C02.R1", role, "validate-phase function calling GetAuthorizeCodeSession")
		return
	}
	for _, fn := range fns {
		ex := c.Explore(fn, handlerCfg(), "handler")
		if !c.complete(ex, "C02.R1", role, fn) {
			continue
		}
		req := reqParam(fn)
		checkClientBinding(c, "C02.R1", role, fn, ex, ".GetAuthorizeCodeSession", req, "fosite.ErrInvalidGrant")
		// R2 redirect binding
		okS, okF := true, true
		var wS, wF *Path
		n := 0
		for _, p := range ex.Paths {
			lk := p.First(".GetAuthorizeCodeSession")
			if lk == nil || p.Kind != "return" {
				continue
			}
			st := lk.Ret(0)
			sr, rr := form(st, "redirect_uri"), form(req, "redirect_uri")
			if p.Success() {
				n++
				if !(p.Eq(sr, tStr("")) || p.Eq(sr, rr)) {
					okS, wS = false, p
				}
			}
			if p.Ne(sr, rr) && p.Ne(sr, tStr("")) {
				if p.Classify() != ExitFail || errorRoot(p.ErrRet()) != "fosite.ErrInvalidGrant" {
					okF, wF = false, p
				}
			}
		}
		if n == 0 {
			c.Bad("C02.R2", role, fn, "redirect-binding", "success paths exist", "no success path", nil)
		} else {
			c.Check(okS, "C02.R2", role, fn, "redirect-binding", "every success exit knows: stored redirect_uri is empty or equals the request's redirect_uri", "a success exit is reachable without the redirect_uri comparison", wS)
			c.Check(okF, "C02.R2", role, fn, "redirect-mismatch-error", "a redirect_uri mismatch exits with an ErrInvalidGrant-derived error", "mismatch path does not fail with invalid_grant", wF)
		}
		// R4 overwrite from stored only
		checkOverwriteFromStored(c, "C02.R4", role, fn, ex, ".GetAuthorizeCodeSession", req, false)
	}
	codeValidateReadOnly(c, "C02.R5")
	// R3 lifetime validation layer
	checkCredentialValidated(c, "C02.R3", "code", c.codeValidateFns(), c.codeRedeemFns(), ".GetAuthorizeCodeSession", ".ValidateAuthorizeCode", 2)
	// R4 issue side
	for _, fn := range c.codeRedeemFns() {
		ex := c.Explore(fn, handlerCfg(), "handler")
		if !c.complete(ex, "C02.R4", "code-redeem", fn) {
			continue
		}
		checkGrantsFromStored(c, "C02.R4", "code-redeem", fn, ex, ".GetAuthorizeCodeSession")
	}
}

// checkClientBinding: shared by C02.R1, C05.R1, C16.R2.
func checkClientBinding(c *Ctx, rule, role string, fn *ssa.Function, ex *Exploration, lookup string, req *Term, wantErr string) {
	okS, okF := true, true
	var wS, wF *Path
	n := 0
	whyF := ""
	for _, p := range ex.Paths {
		lk := p.First(lookup)
		if lk == nil || p.Kind != "return" {
			continue
		}
		a, b := getID(getClient(lk.Ret(0))), getID(getClient(req))
		if p.Success() {
			n++
			if !p.Eq(a, b) {
				okS, wS = false, p
			}
		}
		if p.Ne(a, b) {
			if p.Classify() != ExitFail || errorRoot(p.ErrRet()) != wantErr {
				okF, wF = false, p
				whyF = fmt.Sprintf("client mismatch exits with %s", p.ErrRet().Pretty())
			}
		}
	}
	if n == 0 {
		c.Bad(rule, role, fn, "client-binding", "success paths through "+lookup+" exist", "no success path", nil)
		return
	}
	c.Check(okS, rule, role, fn, "client-binding", "every success exit knows: client id of the stored request == client id of the token request", "a success exit is reachable without the client comparison", wS)
	c.Check(okF, rule, role, fn, "client-mismatch-error", "a client mismatch exits with an error derived from "+wantErr, whyF, wF)
}

// derivesOnlyFrom: every leaf of t that refers to a request object refers to allowed (by key prefix).
func mentionsTerm(t *Term, x *Term) bool {
	k := x.Key()
	return t.Mentions(func(s *Term) bool { return s.Key() == k })
}

// checkOverwriteFromStored: SetRequestedScopes/SetRequestedAudience/SetSession on the
// request take getters of the stored request; wantClone requires Clone() of the session.
func checkOverwriteFromStored(c *Ctx, rule, role string, fn *ssa.Function, ex *Exploration, lookup string, req *Term, wantClone bool) {
	ok := true
	var w *Path
	why := ""
	seen := map[string]bool{}
	for _, p := range ex.Paths {
		lk := p.First(lookup)
		if lk == nil {
			continue
		}
		st := lk.Ret(0)
		for _, e := range p.Calls(".SetRequestedScopes", ".SetRequestedAudience", ".SetSession") {
			if e.Recv == nil || e.Recv.Key() != req.Key() {
				continue
			}
			var want *Term
			switch e.Name {
			case ".SetRequestedScopes":
				want = call(".GetRequestedScopes", st)
			case ".SetRequestedAudience":
				want = call(".GetRequestedAudience", st)
			case ".SetSession":
				want = call(".GetSession", st)
			}
			got := e.Arg(0)
			good := got.Key() == want.Key()
			if e.Name == ".SetSession" {
				cl := call(".Clone", want)
				if wantClone {
					good = got.Key() == cl.Key()
				} else {
					good = good || got.Key() == cl.Key()
				}
			}
			if p.Success() {
				seen[e.Name] = true
			}
			if !good {
				ok, w = false, p
				why = fmt.Sprintf("%s receives %s, expected %s", e.Name, got.Pretty(), want.Pretty())
			}
		}
		if p.Success() && p.Kind == "return" {
			for _, n := range []string{".SetRequestedScopes", ".SetRequestedAudience", ".SetSession"} {
				if len(p.Calls(n)) == 0 {
					ok, w = false, p
					why = "a success path does not execute request" + n + "(stored…)"
				}
			}
		}
	}
	c.Check(ok, rule, role, fn, "overwrite-from-stored", "the request's requested scopes, audience and session are overwritten from the stored request on every success path and from nothing else", why, w)
}

// checkGrantsFromStored: every GrantScope/GrantAudience argument is an element of
// GetGrantedScopes/GetGrantedAudience of the stored request.
func checkGrantsFromStored(c *Ctx, rule, role string, fn *ssa.Function, ex *Exploration, lookup string) {
	ok := true
	var w *Path
	why := ""
	n := 0
	for _, p := range ex.Paths {
		lk := p.First(lookup)
		for _, e := range p.Calls(".GrantScope", ".GrantAudience") {
			n++
			a := e.Arg(0)
			src := ".GetGrantedScopes"
			if e.Name == ".GrantAudience" {
				src = ".GetGrantedAudience"
			}
			good := false
			if lk != nil && a.Op == "idx" && len(a.Args) == 2 && a.Args[0].Key() == call(src, lk.Ret(0)).Key() {
				good = true
			}
			if !good {
				ok, w = false, p
				why = fmt.Sprintf("%s receives %s which is not an element of %s(stored request)", e.Name, a.Pretty(), strings.TrimPrefix(src, "."))
			}
		}
	}
	if n == 0 {
		c.Bad(rule, role, fn, "grants-from-stored", "the redeem function grants the stored scopes/audience", "no GrantScope/GrantAudience call found", nil)
		return
	}
	c.Check(ok, rule, role, fn, "grants-from-stored", "every GrantScope/GrantAudience argument is an element of the stored grant", why, w)
}

// checkCredentialValidated (C02.R3, C06.R1 building block): after a lookup by
// signature, Validate*(ctx, ·, raw) returned nil where raw is the string whose
// signature was the lookup key. Layers: validate-phase success exits, or the
// issue-phase function before any create.
func checkCredentialValidated(c *Ctx, rule, what string, validateFns, issueFns []*ssa.Function, lookup, validate string, rawArg int) {
	layerOK := ""
	var detail []string
	for _, fn := range validateFns {
		ex := c.Explore(fn, handlerCfg(), "handler")
		if ex.Truncated != "" {
			continue
		}
		ok, n := true, 0
		for _, p := range ex.Paths {
			if !p.Success() || p.Kind != "return" {
				continue
			}
			lk := p.First(lookup)
			if lk == nil {
				continue
			}
			n++
			if !validatedOn(p, nil, lk, validate, rawArg) {
				ok = false
			}
		}
		if ok && n > 0 {
			layerOK = "validate:" + fnShort(fn)
			c.OK(rule, what+"-validate", fn, "validated-after-lookup", "success exits are reached only after "+validate+" returned nil for the looked-up credential").Layer = layerOK
		} else {
			detail = append(detail, fnShort(fn)+": not on every success path")
		}
	}
	for _, fn := range issueFns {
		ex := c.Explore(fn, handlerCfg(), "handler")
		if ex.Truncated != "" {
			continue
		}
		ok, n := true, 0
		for _, p := range ex.Paths {
			lk := p.First(lookup)
			for _, cr := range p.Calls(".CreateAccessTokenSession", ".CreateRefreshTokenSession") {
				n++
				if lk == nil || !validatedOn(p, cr, lk, validate, rawArg) {
					ok = false
				}
			}
		}
		if ok && n > 0 {
			if layerOK == "" {
				layerOK = "issue:" + fnShort(fn)
			}
			c.OK(rule, what+"-redeem", fn, "validated-before-create", "token sessions are created only after "+validate+" returned nil for the looked-up credential").Layer = "issue:" + fnShort(fn)
		} else {
			detail = append(detail, fnShort(fn)+": not before every create")
		}
	}
	if layerOK == "" {
		var fn *ssa.Function
		if len(validateFns) > 0 {
			fn = validateFns[0]
		}
		c.Bad(rule, what+"-validate", fn, "validated-in-some-layer", "in at least one layer (validate success exits / redeem before create) "+validate+" returned nil for the string whose signature was looked up", strings.Join(detail, "; "), nil)
	} else {
		c.OK(rule, what, nil, "validated-in-some-layer", "at least one layer validates the looked-up credential").Layer = layerOK
	}
}

func validatedOn(p *Path, at *Event, lk *Event, validate string, rawArg int) bool {
	key := lk.Arg(1)
	for _, v := range p.Calls(validate) {
		if at != nil && v.Idx > at.Idx {
			continue
		}
		raw := v.Arg(rawArg)
		// the lookup key is Signature(strategy, ctx, raw)
		if r, ok := sigRaw(key); !ok || r.Key() != raw.Key() {
			continue
		}
		if at != nil {
			if p.IsNilAt(at, v.Result) {
				return true
			}
		} else if p.IsNil(v.Result) {
			return true
		}
	}
	return false
}

// sigRaw: key is <X>Signature(strategy, ctx, raw) (or the first result of it):
// returns raw.
func sigRaw(key *Term) (*Term, bool) {
	if key.Op == "ret" && key.Name == "0" && len(key.Args) == 1 {
		key = key.Args[0]
	}
	if key.Op == "call" && strings.HasSuffix(key.Name, "Signature") && len(key.Args) > 0 {
		return key.Args[len(key.Args)-1], true
	}
	return nil, false
}
