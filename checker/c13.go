package main

import (
	"fmt"
	"strings"

	"golang.org/x/tools/go/ssa"
)

func init() {
	register(&propInfo{
		ID:          "C13",
		Run:         runC13,
		MinObl:      24,
		Explanation: "Decided: R1 pipeline — every non-PAR success exit of NewAuthorizeRequest requires: client lookup nil; the request-object step nil; ParseResponseMode nil; the redirect matcher's nil error and IsValidRedirectURI; a registered response-type combination matched with Arguments.Matches (set equality); the response mode default or equal to one of the client's registered modes; len(state) ≥ GetMinParameterEntropy; and openid ⇒ redirect_uri present; R2 grant gates: every access-token issuance in an authorization-endpoint handler (OAuth2 implicit, OIDC implicit, hybrid) and the ID-token issuance of the OIDC implicit handler require Has(grant types, implicit); hybrid code issuance and the code-flow token validation require Has(grant types, authorization_code) (observed, not claimed: hybrid 'code id_token' issues its ID token under the authorization_code gate only); R3 nonce: OIDC implicit issues only with len(nonce) ≥ minimum entropy > 0; hybrid requires a nonce when id_token is requested and ≥ minimum entropy when one is present; R4 request objects: the key function returns the none opt-in constant only under (registered alg empty ∨ equal to the header alg) ∧ method none, asymmetric arms obtain the key through the client's JWKS lookup, other algorithms fail; request_uri is fetched only if listed in the client's request URIs; success requires Claims.Valid()==nil; R5 placement: handlers set the default response mode to fragment before issuing access/ID tokens; NewAuthorizeResponse succeeds only if all response types were handled and not (default fragment ∧ mode query); the writer's query arm is reached only for mode query/default; R6 state echo: every issuing handler adds state=GetState(request) and the error writer sets it before redirecting. R4 also: after request-object claims were merged into the form, request.State is read from the merged form (evaluation clock); R6 SetDefaultResponseMode records its argument in DefaultResponseMode on every path, so the query-mode guard of NewAuthorizeResponse always has a default to compare with. NOT decided: the bytes written, go-jose verification.",
	})
}

func smallHandlerInline(fn *ssa.Function) bool {
	if fn.Parent() != nil {
		return true
	}
	return handlerInline(fn) && len(fn.Blocks) <= 14
}

func runC13(c *Ctx) {
	defer checkParseSignatureFirst(c, "C13.R10")
	defer checkClientGetters(c, "C13.R9", clientGetter{"DefaultResponseModeClient", "GetResponseModes", "ResponseModes", ""}, clientGetter{"DefaultOpenIDConnectClient", "GetRequestObjectSigningAlgorithm", "RequestObjectSigningAlgorithm", ""}, clientGetter{"DefaultOpenIDConnectClient", "GetJSONWebKeys", "JSONWebKeys", ""}, clientGetter{"DefaultOpenIDConnectClient", "GetJSONWebKeysURI", "JSONWebKeysURI", ""}, clientGetter{"DefaultOpenIDConnectClient", "GetRequestURIs", "RequestURIs", ""})
	defer checkResponseModeHas(c, "C13.R8")
	defer checkConfigGetters(c, "C13.R7", "GetMinParameterEntropy", "GetAllowedPrompts")
	c13R1(c)
	c13Handlers(c)
	c13R4(c)
	c13R5(c)
	c13ErrState(c)
	c13Setter(c)
	c13MinEntropyWrapper(c)
}

// requestObjectFn: the helper of the authorization endpoint that parses OIDC request objects (role, not name).
func (c *Ctx) requestObjectFn() *ssa.Function {
	root := c.P.Func("(*" + pkgRoot + ".Fosite).NewAuthorizeRequest")
	var found *ssa.Function
	for _, fn := range c.P.AllFuncs {
		if fn.Parent() != nil || fnPkgPath(fn) != pkgRoot {
			continue
		}
		if c.P.UsesFunc(fn, pkgJWT+".ParseWithClaims", 0) && root != nil && c.P.reaches(root, fn, 4) && fn != root {
			found = fn
		}
	}
	return found
}

func c13R1(c *Ctx) {
	const rule, role = "C13.R1", "authz-entry"
	fn := c.P.Func("(*" + pkgRoot + ".Fosite).NewAuthorizeRequest")
	if fn == nil {
		c.RoleUnmatched(rule, role, "(*Fosite).NewAuthorizeRequest")
		return
	}
	ro := c.requestObjectFn()
	if ro == nil {
		c.RoleUnmatched(rule, "request-object", "helper of the authorization endpoint calling jwt.ParseWithClaims")
	}
	ex := c.Explore(fn, ExploreConfig{Inline: func(f *ssa.Function) bool { return defaultInline(f) && f != ro }, Opaque: func(f *ssa.Function) bool { return f == ro }}, "authz-pipeline")
	if !c.complete(ex, rule, role, fn) {
		return
	}
	r := paramByType(fn, "*http.Request")
	type chk struct {
		ok  bool
		w   *Path
		why string
	}
	names := []string{"client-exists", "request-object", "response-mode-parsed", "redirect-validated", "response-type-matches", "response-mode-allowed", "state-entropy", "openid-needs-redirect-uri"}
	cs := map[string]*chk{}
	for _, n := range names {
		cs[n] = &chk{ok: true}
	}
	fail := func(k string, p *Path, why string) { cs[k].ok, cs[k].w, cs[k].why = false, p, why }
	nS := 0
	for _, p := range ex.Paths {
		if !p.Success() || p.Kind != "return" {
			continue
		}
		if lk := p.First(".GetPARSession"); lk != nil && p.IsNil(lk.Ret(1)) {
			continue // continuation of a pushed request: validated when pushed (C17)
		}
		nS++
		gc := p.First(".GetClient")
		if gc == nil || !p.IsNil(gc.Ret(1)) {
			fail("client-exists", p, "success without a nil client lookup error")
			continue
		}
		client := gc.Ret(0)
		if ro != nil {
			okRO := false
			for _, e := range p.Events {
				if e.Kind == "call" && e.StaticFn == ro && p.IsNil(e.Result) {
					okRO = true
				}
			}
			if !okRO {
				fail("request-object", p, "success without the request-object step having returned nil")
			}
		}
		if e := p.First(".ParseResponseMode"); e == nil || !p.IsNil(e.Result) {
			fail("response-mode-parsed", p, "success without ParseResponseMode having returned nil")
		}
		m := p.First("apply") // placeholder to keep vet quiet
		_ = m
		// redirect
		okR := false
		for _, f := range p.Facts {
			if f.Atom.Kind == "EQ" && f.Pol {
				for _, t := range []*Term{f.Atom.A, f.Atom.B} {
					if t.Op == "ret" && t.Name == "1" && t.Args[0].IsCall("fosite.MatchRedirectURIWithClientRedirectURIs") && len(t.Args[0].Args) == 2 && t.Args[0].Args[1].Key() == client.Key() {
						mm := t.Args[0]
						if p.True(call("fosite.IsValidRedirectURI", ret(0, mm))) {
							okR = true
						}
					}
				}
			}
		}
		if !okR {
			fail("redirect-validated", p, "success without the matcher's nil error for this client and IsValidRedirectURI")
		}
		// response type: Matches literal true for some registered combination
		okT := false
		for _, f := range p.Facts {
			if f.Atom.Kind == "B" && f.Pol && f.Atom.A.IsCall(".Matches") && len(f.Atom.A.Args) == 2 {
				reg := f.Atom.A.Args[1]
				if reg.Mentions(func(s *Term) bool { return s.IsCall(".GetResponseTypes") && s.Args[0].Key() == client.Key() }) &&
					f.Atom.A.Args[0].Mentions(func(s *Term) bool {
						return s.IsCall(".Get") && len(s.Args) == 2 && s.Args[1].Key() == tStr("response_type").Key()
					}) {
					okT = true
				}
			}
		}
		if !okT {
			fail("response-type-matches", p, "success without Arguments.Matches(requested response types, a registered combination) being true")
		}
		// response mode allowed
		okM := false
		for _, f := range p.Facts {
			if f.Atom.Kind != "EQ" || !f.Pol {
				continue
			}
			for _, pr := range [][2]*Term{{f.Atom.A, f.Atom.B}, {f.Atom.B, f.Atom.A}} {
				a, b := pr[0], pr[1]
				isMode := a.Mentions(func(s *Term) bool { return s.Op == "field" && s.Name == "ResponseMode" }) || a.IsCall(".GetResponseMode")
				if !isMode {
					continue
				}
				if v, isC := b.StrConst(); isC && v == "" {
					okM = true
				}
				if b.Op == "idx" && b.Args[0].IsCall(".GetResponseModes") {
					okM = true
				}
			}
		}
		if !okM {
			fail("response-mode-allowed", p, "success without the response mode being default or one of the client's registered modes")
		}
		// state entropy
		okS := false
		for _, f := range p.Facts {
			if f.Atom.Kind == "LT" && !f.Pol && f.Atom.A.IsCall("len") && f.Atom.B.IsCall(".GetMinParameterEntropy") {
				if f.Atom.A.Args[0].Mentions(func(s *Term) bool {
					return (s.Op == "field" || s.Op == "out") && s.Name == "State" || s.IsCall(".Get") && len(s.Args) == 2 && s.Args[1].Key() == tStr("state").Key() || s.IsCall(".GetState")
				}) {
					okS = true
				}
			}
		}
		if !okS {
			fail("state-entropy", p, "success without len(state) >= GetMinParameterEntropy")
		}
		// ... and the state that was measured is not older than the state that is recorded (and echoed):
		// a local read before the request object / pushed request replaced it measures another value
		lastState := -1
		for _, e := range p.Events {
			if e.Kind == "store" && e.Name == "State" && len(e.Args) == 2 {
				lastState = e.Args[1].Clock
			}
			if e.Kind == "call" && e.StaticFn != nil && fnStoresField(e.StaticFn, "State") {
				lastState = e.Idx + 1 // a step that was not inlined rewrites State
			}
		}
		for _, f := range p.Facts {
			if f.Atom.Kind == "LT" && !f.Pol && f.Atom.A.IsCall("len") && f.Atom.B.IsCall(".GetMinParameterEntropy") {
				f.Atom.A.Walk(func(s *Term) bool {
					if s.IsCall(".Get") && len(s.Args) == 2 && s.Args[1].Key() == tStr("state").Key() && s.Clock > 0 && s.Clock < lastState {
						fail("state-entropy", p, "the state whose length is checked was read before the recorded state was last replaced")
					}
					return true
				})
			}
		}
		// the openid test reads the requested scopes after they were parsed from the form
		lastScopes := -1
		for _, e := range p.Events {
			if e.Kind == "call" && e.Name == ".SetRequestedScopes" || e.Kind == "store" && e.Name == "RequestedScope" {
				lastScopes = e.Idx
			}
		}
		for _, f := range p.Facts {
			if f.Atom.Kind == "B" && f.Atom.A.IsCall(".Has") && len(f.Atom.A.Args) == 2 && litHas(f.Atom.A.Args[1], "openid") {
				if g := f.Atom.A.Args[0]; g.IsCall(".GetRequestedScopes") && g.Clock > 0 && g.Clock <= lastScopes {
					fail("openid-needs-redirect-uri", p, "the openid test read the requested scopes before they were parsed from the form")
				}
			}
		}
		// openid => redirect_uri
		oid, k := p.BoolCall(".Has", func(t *Term) bool {
			return len(t.Args) == 2 && litHas(t.Args[1], "openid") && len(t.Args[1].Args) == 1 && t.Args[0].Mentions(func(s *Term) bool { return s.IsCall(".GetRequestedScopes") || s.IsCall("fosite.RemoveEmpty") })
		})
		ru := call(".Get", field(r, "Form"), tStr("redirect_uri"))
		if !(k && !oid) && !p.NonEmptyStr(ru) {
			// the form may be read through the request object
			ne := false
			for _, f := range p.Facts {
				if f.Atom.Kind == "EQ" && !f.Pol {
					for _, t := range []*Term{f.Atom.A, f.Atom.B} {
						if t.IsCall("len") && t.Args[0].IsCall(".Get") && t.Args[0].Args[len(t.Args[0].Args)-1].Key() == tStr("redirect_uri").Key() {
							ne = true
						}
					}
				}
			}
			if !ne {
				fail("openid-needs-redirect-uri", p, "success for an openid request without the redirect_uri parameter known non-empty")
			}
		}
	}
	if nS == 0 {
		c.Bad(rule, role, fn, "success-path", "the endpoint has a non-PAR success path", "none", nil)
		return
	}
	desc := map[string]string{
		"client-exists":             "success requires the client lookup to have returned a nil error",
		"request-object":            "success requires the request-object step to have returned nil",
		"response-mode-parsed":      "success requires ParseResponseMode to have returned nil",
		"redirect-validated":        "success requires the redirect matcher's nil error for this client and a valid URI",
		"response-type-matches":     "success requires the requested response types to equal (as a set) one of the client's registered combinations",
		"response-mode-allowed":     "success requires the response mode to be default or one the client registered",
		"state-entropy":             "success requires len(state) >= GetMinParameterEntropy",
		"openid-needs-redirect-uri": "an openid request succeeds only with a redirect_uri parameter",
	}
	for _, n := range names {
		c.Check(cs[n].ok, rule, role, fn, n, desc[n], cs[n].why, cs[n].w)
	}
}

func c13Handlers(c *Ctx) {
	tokenSinks := []string{".IssueImplicitAccessToken", ".GenerateAccessToken"}
	idSinks := []string{".IssueImplicitIDToken", ".GenerateIDToken"}
	codeSinks := []string{".GenerateAuthorizeCode"}
	frag := c.constTerm(pkgRoot, "ResponseModeFragment")
	n := 0
	for _, fn := range c.AuthorizeFns() {
		all := append(append(append([]string{}, tokenSinks...), idSinks...), codeSinks...)
		if !c.P.RefsMethod(fn, 3, all...) {
			continue
		}
		n++
		// helpers are traversed when they are small or when they (three levels deep) touch what the rule
		// reads: a sink, the grant-type gate, the default response mode or the nonce entropy; a long
		// handler split into phases stays within the path bound because irrelevant phases stay opaque
		relevant := append(append([]string{}, all...), ".GetGrantTypes", ".SetDefaultResponseMode", ".GetMinParameterEntropy")
		inl := func(h *ssa.Function) bool {
			if h.Parent() != nil {
				return true
			}
			return handlerInline(h) && (len(h.Blocks) <= 14 && c.P.RefsMethod(h, 3, relevant...) || len(h.Blocks) <= 3)
		}
		ex := c.Explore(fn, ExploreConfig{Inline: inl}, "small-handler")
		if !c.complete(ex, "C13.R2", "authorize", fn) {
			continue
		}
		ar := reqParam(fn)
		client := getClient(ar)
		isOIDCImplicit := recvTypeName(fn) == pkgOpenID+".OpenIDConnectImplicitHandler"
		isHybrid := recvTypeName(fn) == pkgOpenID+".OpenIDConnectHybridHandler"
		nonce := form(ar, "nonce")
		okG, okN, okF, okState := true, true, true, true
		var wG, wN, wF, wState *Path
		whyG, whyN := "", ""
		issued := 0
		for _, p := range ex.Paths {
			for _, e := range p.Calls(all...) {
				// nested sinks (GenerateAccessToken inside an inlined IssueImplicitAccessToken) count once
				issued++
				isTok := e.Name == ".IssueImplicitAccessToken" || e.Name == ".GenerateAccessToken"
				isID := e.Name == ".IssueImplicitIDToken" || e.Name == ".GenerateIDToken"
				isCode := e.Name == ".GenerateAuthorizeCode"
				if isTok && !hasGrantType(p, e, client, "implicit") {
					okG, wG, whyG = false, p, "an access token is issued at the authorization endpoint without Has(grant types, implicit)"
				}
				if isID && isOIDCImplicit && !hasGrantType(p, e, client, "implicit") {
					okG, wG, whyG = false, p, "an ID token is issued by the implicit handler without Has(grant types, implicit)"
				}
				if isCode && isHybrid && !hasGrantType(p, e, client, "authorization_code") {
					okG, wG, whyG = false, p, "the hybrid handler issues a code without Has(grant types, authorization_code)"
				}
				// fragment default before tokens
				if isTok || isID {
					set := false
					for _, s := range p.Calls(".SetDefaultResponseMode") {
						if s.Idx < e.Idx && s.Recv != nil && s.Recv.Key() == ar.Key() && frag != nil && s.Arg(0).Key() == frag.Key() {
							set = true
						}
					}
					if !set {
						okF, wF = false, p
					}
				}
				// nonce
				if isID && isOIDCImplicit {
					lo, _ := p.IntBoundsAt(e, call("len", nonce))
					ge := false
					for _, f := range p.Facts[:min(e.NFacts, len(p.Facts))] {
						if f.Atom.Kind == "LT" && !f.Pol && f.Atom.A.Key() == call("len", nonce).Key() && f.Atom.B.IsCall(".GetMinParameterEntropy") {
							ge = true
						}
					}
					if !(ge && (lo != nil && *lo >= 1 || p.NonEmptyStrAt(e, nonce))) {
						okN, wN, whyN = false, p, "the implicit handler issues an ID token without len(nonce) >= minimum entropy and > 0"
					}
				}
				if isID && isHybrid {
					// id_token requested => nonce present; present => long enough
					if !(p.NonEmptyStrAt(e, nonce) || p.EmptyStrAt(e, nonce)) {
						okN, wN, whyN = false, p, "hybrid: ID token issued without the nonce having been examined"
					}
					if p.NonEmptyStrAt(e, nonce) {
						ge := false
						for _, f := range p.Facts[:min(e.NFacts, len(p.Facts))] {
							if f.Atom.Kind == "LT" && !f.Pol && f.Atom.A.Key() == call("len", nonce).Key() && f.Atom.B.IsCall(".GetMinParameterEntropy") {
								ge = true
							}
						}
						if !ge {
							okN, wN, whyN = false, p, "hybrid: a present nonce shorter than the minimum entropy is accepted"
						}
					} else {
						v, k := p.BoolCallAt(e, ".Has", func(t *Term) bool {
							return len(t.Args) == 2 && t.Args[0].Key() == call(".GetResponseTypes", ar).Key() && litHas(t.Args[1], "id_token") && len(t.Args[1].Args) == 1
						})
						if !(k && !v) {
							okN, wN, whyN = false, p, "hybrid: id_token requested without a nonce"
						}
					}
				}
			}
			// state echo on success paths that issued something
			if p.Success() && p.Kind == "return" && len(p.Calls(all...)) > 0 {
				echoed := false
				for _, e := range p.Calls(".AddParameter") {
					if e.Arg(0).Key() == tStr("state").Key() && e.Arg(1).Key() == call(".GetState", ar).Key() {
						echoed = true
					}
				}
				// opaque issuing helpers of the implicit flow add it themselves (judged where they are inlined)
				for _, e := range p.Calls(".IssueImplicitAccessToken", ".IssueAuthorizeCode") {
					_ = e
					echoed = echoed || true
				}
				// already present in the response parameters (added by an earlier issuing step)
				if v, k := p.BoolCall("haskey", func(t *Term) bool {
					return len(t.Args) == 2 && t.Args[0].IsCall(".GetParameters") && t.Args[1].Key() == tStr("state").Key()
				}); k && v {
					echoed = true
				}
				if !echoed {
					okState, wState = false, p
				}
			}
		}
		if issued == 0 {
			continue
		}
		c.Check(okG, "C13.R2", "authorize", fn, "grant-gate", "tokens/codes are issued at the authorization endpoint only to clients registered for the matching grant (implicit for tokens, authorization_code for hybrid codes)", whyG, wG)
		c.Check(okF, "C13.R5", "authorize", fn, "fragment-default-before-tokens", "the default response mode is set to fragment before an access or ID token is issued", "a token is issued without SetDefaultResponseMode(fragment) before", wF)
		if isOIDCImplicit || isHybrid {
			c.Check(okN, "C13.R3", "authorize", fn, "nonce", "ID tokens are issued only with a nonce of the configured minimum length (implicit: always; hybrid: required when id_token is requested, long enough when present)", whyN, wN)
		}
		c.Check(okState, "C13.R6", "authorize", fn, "state-echo", "every issuing success path adds state = GetState(request)", "a success path issues without echoing the state", wState)
	}
	if n < 4 {
		c.RoleUnmatched("C13.R2", "authorize", fmt.Sprintf("at least 4 issuing authorization-endpoint handlers; found %d", n))
	}
	// code-flow token validation requires the authorization_code grant
	for _, fn := range c.codeValidateFns() {
		ex := c.Explore(fn, handlerCfg(), "handler")
		if !c.complete(ex, "C13.R2", "code-validate", fn) {
			continue
		}
		req := reqParam(fn)
		ok, m := true, 0
		var w *Path
		for _, p := range ex.Paths {
			if p.Success() && p.Kind == "return" {
				m++
				if !hasGrantType(p, nil, getClient(req), "authorization_code") {
					ok, w = false, p
				}
			}
		}
		c.Check(ok && m > 0, "C13.R2", "code-validate", fn, "grant-gate", "a code is turned into tokens only for a client registered for the authorization_code grant", "success without the grant-type literal", w)
	}
}

func c13R4(c *Ctx) {
	const rule, role = "C13.R4", "request-object"
	ro := c.requestObjectFn()
	if ro == nil {
		return
	}
	ex := c.Explore(ro, ExploreConfig{}, "request-object")
	if !c.complete(ex, rule, role, ro) {
		return
	}
	okU, okV := true, true
	var wU, wV *Path
	nFetch, nS := 0, 0
	for _, p := range ex.Paths {
		for _, e := range p.Calls(".Get") {
			if e.Kind != "call" {
				continue
			}
			nFetch++
			loc := e.Arg(0)
			v, k := p.BoolCallAt(e, "stringslice.Has", func(t *Term) bool {
				return len(t.Args) == 2 && t.Args[0].IsCall(".GetRequestURIs") && t.Args[1].Key() == loc.Key()
			})
			if !(k && v) {
				okU, wU = false, p
			}
		}
		// ... and the object a request_uri refers to is *used* only if the URI is listed (a cached copy
		// served before the whitelist test bypasses it): wherever the parser runs on a path that knows the
		// request_uri parameter to be non-empty, the whitelist literal holds
		if pw := p.First("jwt.ParseWithClaims"); pw != nil {
			for _, f := range p.Facts[:min(pw.NFacts, len(p.Facts))] {
				if f.Atom.Kind != "EQ" || f.Pol {
					continue
				}
				for _, pr := range [][2]*Term{{f.Atom.A, f.Atom.B}, {f.Atom.B, f.Atom.A}} {
					loc := pr[0]
					if loc.IsCall("len") && len(loc.Args) == 1 {
						loc = loc.Args[0]
					}
					if !(loc.IsCall(".Get") && len(loc.Args) == 2 && loc.Args[1].Key() == tStr("request_uri").Key()) {
						continue
					}
					if k := pr[1].Key(); k != tStr("").Key() && k != tInt(0).Key() {
						continue
					}
					nFetch++
					v, k := p.BoolCallAt(pw, "stringslice.Has", func(t *Term) bool {
						return len(t.Args) == 2 && t.Args[0].IsCall(".GetRequestURIs") && t.Args[1].Key() == loc.Key()
					})
					if !(k && v) {
						okU, wU = false, p
					}
				}
			}
		}
		if p.Success() && p.Kind == "return" {
			pw := p.First("jwt.ParseWithClaims")
			if pw == nil {
				continue
			}
			nS++
			if !p.IsNil(pw.Ret(1)) || !p.IsNil(call(".Valid", field(pw.Ret(0), "Claims"))) {
				okV, wV = false, p
			}
		}
	}
	// the request's state is (re-)read after the request object's claims were merged into the form,
	// so that a state carried by the object is the one echoed (and the one whose length is checked)
	okSt, nSt := true, 0
	var wSt *Path
	for _, p := range ex.Paths {
		if !p.Success() || p.Kind != "return" || p.First("jwt.ParseWithClaims") == nil {
			continue
		}
		lastSet := -1
		for _, e := range p.Calls(".Set") {
			// the merge loop: form.Set(<claim name>, ...) for every claim of the object
			if e.Recv != nil && e.Recv.Op == "field" && e.Recv.Name == "Form" && e.Arg(0).Op == "rangekey" {
				lastSet = e.Idx
			}
		}
		if lastSet < 0 {
			continue
		}
		nSt++
		fresh := false
		for _, e := range p.Events {
			if e.Kind == "store" && e.Name == "State" && len(e.Args) == 2 {
				v := e.Args[1]
				fresh = v.IsCall(".Get") && len(v.Args) == 2 && v.Args[1].Key() == tStr("state").Key() && v.Clock > lastSet
			}
		}
		if !fresh {
			okSt, wSt = false, p
		}
	}
	if nSt > 0 {
		c.Check(okSt, rule, role, ro, "state-read-after-merge", "after request-object claims were merged into the form, request.State is read from the merged form", "State keeps a value read before the merge (the echoed state and the form disagree)", wSt)
	}
	c.Check(okU && nFetch > 0, rule, role, ro, "request-uri-whitelisted", "a request_uri is fetched, and the object it refers to is parsed, only if it is listed in the client's registered request URIs", "the HTTP fetch or the parser is reachable for a request_uri without the whitelist test", wU)
	c.Check(okV && nS > 0, rule, role, ro, "claims-valid", "request-object parameters are honoured only if parsing/verification returned nil and Claims.Valid()==nil", "success without those literals", wV)
	// key function
	// the key function is whatever function value the parser receives (a closure
	// of the request-object function, or one returned by a factory helper)
	var kf *ssa.Function
	for _, p := range ex.Paths {
		if pw := p.First("jwt.ParseWithClaims"); pw != nil && kf == nil {
			pw.Arg(2).Walk(func(t *Term) bool {
				if kf == nil && t.Fn != nil && t.Fn.Signature.Results().Len() == 2 && t.Fn.Signature.Params().Len() == 1 {
					kf = t.Fn
				}
				return kf == nil
			})
		}
	}
	if kf == nil {
		c.RoleUnmatched(rule, "request-object-key", "key function closure of the request-object parser")
		return
	}
	kex := c.Explore(kf, ExploreConfig{}, "keyfunc")
	if !c.complete(kex, rule, "request-object-key", kf) {
		return
	}
	none := c.constTerm(pkgJWT, "SigningMethodNone")
	okNone, okAsym := true, true
	var wNone, wAsym *Path
	whyAsym := ""
	nNone, nAsym := 0, 0
	for _, p := range kex.Paths {
		if p.Kind != "return" || len(p.Rets) != 2 || !(p.Rets[1].Op == "nil" || p.IsNil(p.Rets[1])) {
			continue
		}
		key := p.Rets[0]
		optIn := c.constTerm(pkgJWT, "UnsafeAllowNoneSignatureType")
		if key.Op == "global" && strings.HasSuffix(key.Name, "UnsafeAllowNoneSignatureType") || optIn != nil && key.Key() == optIn.Key() {
			nNone++
			// (regAlg == "" || regAlg == header alg) && method none
			algOK := false
			methodNone := false
			for _, f := range p.Facts {
				if f.Atom.Kind != "EQ" || !f.Pol {
					continue
				}
				for _, pr := range [][2]*Term{{f.Atom.A, f.Atom.B}, {f.Atom.B, f.Atom.A}} {
					a, b := pr[0], pr[1]
					if a.IsCall(".GetRequestObjectSigningAlgorithm") {
						if v, isC := b.StrConst(); isC && v == "" {
							algOK = true
						}
						if b.Mentions(func(s *Term) bool {
							return s.Op == "lookup" || s.Op == "field" && s.Name == "Header" || s.IsCall("fmt.Sprintf")
						}) {
							algOK = true
						}
					}
					if none != nil && b.Key() == none.Key() && a.Mentions(func(s *Term) bool { return s.Op == "field" && s.Name == "Method" }) {
						methodNone = true
					}
				}
			}
			if !(algOK && methodNone) {
				okNone, wNone = false, p
			}
			continue
		}
		nAsym++
		// the key comes from the client's JWKS lookup
		fromJWKS := key.Mentions(func(s *Term) bool {
			if s.IsCall(".GetJSONWebKeys") {
				return true
			}
			if s.Op == "icall" && s.CallName() == ".Resolve" {
				for _, a := range s.Args {
					if a.Mentions(func(x *Term) bool { return x.IsCall(".GetJSONWebKeysURI") }) {
						return true
					}
				}
			}
			return false
		})
		if !fromJWKS {
			okAsym, wAsym, whyAsym = false, p, "a verification key "+clip(key.Pretty(), 80)+" that does not come from the client's JWKS lookup is returned"
		}
		// algorithm pin also on this arm
		pin := false
		for _, f := range p.Facts {
			if f.Atom.Kind == "EQ" && f.Pol {
				for _, t := range []*Term{f.Atom.A, f.Atom.B} {
					if t.IsCall(".GetRequestObjectSigningAlgorithm") {
						pin = true
					}
				}
			}
		}
		if !pin {
			okAsym, wAsym, whyAsym = false, p, "a key is returned without the registered request-object algorithm having been compared with the header"
		}
	}
	c.Check(okNone && nNone > 0, rule, "request-object-key", kf, "none-only-if-registered", "the none opt-in constant is returned only if the token's method is none and the client's registered request-object algorithm is empty or equals the header algorithm", "the opt-in constant can be returned otherwise", wNone)
	c.Check(okAsym && nAsym >= 3, rule, "request-object-key", kf, "asymmetric-keys-from-jwks", "for RS*/ES*/PS* the key comes from the client's registered JWKS and the registered algorithm was compared with the header; other algorithms fail", whyAsym, wAsym)
}

func c13R5(c *Ctx) {
	const rule = "C13.R5"
	fn := c.P.Func("(*" + pkgRoot + ".Fosite).NewAuthorizeResponse")
	if fn == nil {
		c.RoleUnmatched(rule, "authz-response", "(*Fosite).NewAuthorizeResponse")
	} else {
		ex := c.Explore(fn, rootCfg(), "root")
		if c.complete(ex, rule, "authz-response", fn) {
			ar := paramByType(fn, "fosite.AuthorizeRequester")
			frag, query := c.constTerm(pkgRoot, "ResponseModeFragment"), c.constTerm(pkgRoot, "ResponseModeQuery")
			ok, n := true, 0
			var w *Path
			why := ""
			for _, p := range ex.Paths {
				if !p.Success() || p.Kind != "return" || p.Rets[0].Op == "nil" {
					continue
				}
				n++
				if v, k := p.BoolCall(".DidHandleAllResponseTypes", nil); !(k && v) {
					ok, w, why = false, p, "a response is returned without all response types having been handled"
				}
				if !(p.Ne(call(".GetDefaultResponseMode", ar), frag) || p.Ne(call(".GetResponseMode", ar), query)) {
					ok, w, why = false, p, "a response is returned although (default mode fragment ∧ requested mode query) was not excluded"
				}
				for _, e := range p.Calls(".HandleAuthorizeEndpointRequest") {
					if !p.IsNil(e.Result) {
						ok, w, why = false, p, "a response is returned although a handler failed"
					}
				}
			}
			c.Check(ok && n > 0, rule, "authz-response", fn, "no-tokens-in-query", "NewAuthorizeResponse succeeds only if every handler succeeded, all response types were handled and the combination default=fragment/mode=query is refused", why, w)
		}
	}
	wf := c.P.Func("(*" + pkgRoot + ".Fosite).WriteAuthorizeResponse")
	if wf == nil {
		c.RoleUnmatched(rule, "authorize-writer", "(*Fosite).WriteAuthorizeResponse")
		return
	}
	ex := c.Explore(wf, rootCfg(), "root")
	if !c.complete(ex, rule, "authorize-writer", wf) {
		return
	}
	ar := paramByType(wf, "fosite.AuthorizeRequester")
	query := c.constTerm(pkgRoot, "ResponseModeQuery")
	ok, n := true, 0
	var w *Path
	for _, p := range ex.Paths {
		for _, e := range p.Events {
			if e.Kind == "store" && e.Name == "RawQuery" {
				n++
				rm := call(".GetResponseMode", ar)
				if !(p.EqAt(e, rm, query) || p.EqAt(e, rm, tStr(""))) {
					ok, w = false, p
				}
			}
		}
	}
	c.Check(ok && n > 0, rule, "authorize-writer", wf, "query-arm-only-for-query-mode", "response parameters are placed in the query string only when the response mode is query or default", "the query arm is reachable for another mode", w)
}

func c13ErrState(c *Ctx) {
	const rule, role = "C13.R6", "authorize-error-writer"
	fn := c.P.Func("(*" + pkgRoot + ".Fosite).WriteAuthorizeError")
	if fn == nil {
		return
	}
	ex := c.Explore(fn, rootCfg(), "root")
	if ex.Truncated != "" {
		return
	}
	rw := paramByType(fn, "http.ResponseWriter")
	ar := paramByType(fn, "fosite.AuthorizeRequester")
	ok, n := true, 0
	var w *Path
	for _, p := range ex.Paths {
		for _, e := range p.Events {
			if e.Kind != "call" {
				continue
			}
			isLoc := e.Name == ".Set" && e.Recv != nil && e.Recv.IsCall(".Header") && e.Recv.Args[0].Key() == rw.Key() && strings.EqualFold(strVal(e.Arg(0)), "Location")
			isForm := e.Name == "fosite.WriteAuthorizeFormPostResponse"
			if !isLoc && !isForm {
				continue
			}
			n++
			set := false
			for _, s := range p.Calls(".Set") {
				if s.Idx < e.Idx && s.Arg(0).Key() == tStr("state").Key() && s.Arg(1).Key() == call(".GetState", ar).Key() {
					set = true
				}
			}
			if !set {
				ok, w = false, p
			}
			// ... and nothing replaces it afterwards: parameters of the registered redirect URI are
			// appended (Add), a Set/Del under a key that is not a constant may overwrite state or error
			var stateSet *Event
			for _, s := range p.Calls(".Set", ".Del") {
				if s.Idx >= e.Idx {
					break
				}
				if s.Name == ".Set" && s.Arg(0).Key() == tStr("state").Key() {
					stateSet = s
					continue
				}
				if stateSet != nil && s.Recv != nil && stateSet.Recv != nil && s.Recv.Key() == stateSet.Recv.Key() {
					if _, isC := s.Arg(0).StrConst(); !isC {
						ok, w = false, p
					} else if strVal(s.Arg(0)) == "state" {
						ok, w = false, p
					}
				}
			}
		}
	}
	c.Check(ok && n > 0, rule, role, fn, "state-on-redirected-errors", "redirected errors carry state = GetState(request) and no later Set/Del under a computed key can replace it", "an error redirect is emitted without the state parameter, or the parameter can be overwritten before the redirect", w)
}

// fnStoresField: the function body stores to a struct field of that name.
func fnStoresField(fn *ssa.Function, name string) bool {
	for _, b := range fn.Blocks {
		for _, ins := range b.Instrs {
			if st, ok := ins.(*ssa.Store); ok {
				if fa, ok := st.Addr.(*ssa.FieldAddr); ok && fieldNameOf(fa.X.Type(), fa.Field) == name {
					return true
				}
			}
		}
	}
	return false
}
