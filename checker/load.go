package main

import (
	"fmt"
	"go/ast"
	"go/token"
	"go/types"
	"os"
	"sort"
	"strings"

	"golang.org/x/tools/go/packages"
	"golang.org/x/tools/go/ssa"
	"golang.org/x/tools/go/ssa/ssautil"
)

const modPath = "github.com/ory/fosite"

// Program is the loaded, type-checked and SSA-built module.
type Program struct {
	Dir      string
	Fset     *token.FileSet
	Pkgs     []*packages.Package
	SSA      *ssa.Program
	ByPath   map[string]*packages.Package
	Subjects []*ssa.Package // packages whose functions are rule subjects
	AllFuncs []*ssa.Function
	funcIdx  map[string]*ssa.Function
	Files    int
	// fieldGetters: "pkg.Type.Field" -> getter method name, for getters whose
	// whole body is "return recv.Field" (derived from the SSA, not a frozen list)
	fieldGetters map[string]string
	purityCache  map[*ssa.Function]int
	constSlices  map[string][]string
	constSliceNo map[string]bool
}

func repoDir() string {
	if d := os.Getenv("FOSITE_REPO"); d != "" {
		return d
	}
	return "/repo"
}

// isSubjectPkg: internal/ (mocks, helpers) and integration/ are loaded but are not rule subjects.
func isSubjectPkg(path string) bool {
	if path != modPath && !strings.HasPrefix(path, modPath+"/") {
		return false
	}
	rel := strings.TrimPrefix(path, modPath)
	if strings.HasPrefix(rel, "/internal") || strings.HasPrefix(rel, "/integration") {
		return false
	}
	return true
}

func loadProgram(dir string, overlay map[string][]byte) (*Program, error) {
	env := append(os.Environ(), "GOFLAGS=-mod=mod", "GOPROXY=off", "GOSUMDB=off", "GOTOOLCHAIN=local", "GOWORK=off")
	cfg := &packages.Config{
		Mode:    packages.LoadAllSyntax,
		Dir:     dir,
		Env:     env,
		Tests:   false,
		Overlay: overlay,
	}
	pkgs, err := packages.Load(cfg, "./...")
	if err != nil {
		return nil, fmt.Errorf("load: %w", err)
	}
	if len(pkgs) == 0 {
		return nil, fmt.Errorf("load: zero packages")
	}
	var errs []string
	packages.Visit(pkgs, nil, func(p *packages.Package) {
		if !strings.HasPrefix(p.PkgPath, modPath) {
			return
		}
		for _, e := range p.Errors {
			errs = append(errs, e.Error())
		}
	})
	if len(errs) > 0 {
		sort.Strings(errs)
		if len(errs) > 10 {
			errs = errs[:10]
		}
		return nil, fmt.Errorf("type-check/load errors in module: %s", strings.Join(errs, "; "))
	}
	prog, _ := ssautil.AllPackages(pkgs, ssa.InstantiateGenerics)
	prog.Build()
	P := &Program{Dir: dir, Fset: prog.Fset, Pkgs: pkgs, SSA: prog, ByPath: map[string]*packages.Package{}, funcIdx: map[string]*ssa.Function{}}
	nsub := 0
	for _, p := range pkgs {
		P.ByPath[p.PkgPath] = p
		if isSubjectPkg(p.PkgPath) {
			nsub++
			P.Files += len(p.Syntax)
			if sp := prog.Package(p.Types); sp != nil {
				P.Subjects = append(P.Subjects, sp)
			}
		}
	}
	if nsub < 10 {
		return nil, fmt.Errorf("load: only %d subject packages of %s found (expected >= 10)", nsub, modPath)
	}
	for fn := range ssautil.AllFunctions(prog) {
		if fn.Pkg == nil && fn.Origin() == nil && fn.Parent() == nil {
			// synthetic wrappers etc.
		}
		pk := fnPkgPath(fn)
		if !isSubjectPkg(pk) {
			continue
		}
		if fn.Synthetic != "" && fn.Parent() == nil {
			continue
		}
		P.AllFuncs = append(P.AllFuncs, fn)
		P.funcIdx[fn.String()] = fn
	}
	sort.Slice(P.AllFuncs, func(i, j int) bool { return P.AllFuncs[i].String() < P.AllFuncs[j].String() })
	P.fieldGetters = map[string]string{}
	for _, fn := range P.AllFuncs {
		if fn.Signature.Recv() == nil || fn.Parent() != nil || len(fn.Params) != 1 || len(fn.Blocks) != 1 || !strings.HasPrefix(fn.Name(), "Get") {
			continue
		}
		b := fn.Blocks[0]
		ret, ok := b.Instrs[len(b.Instrs)-1].(*ssa.Return)
		if !ok || len(ret.Results) != 1 {
			continue
		}
		v := ret.Results[0]
		// allow a conversion of the loaded field
		if ct, ok := v.(*ssa.ChangeType); ok {
			v = ct.X
		}
		ld, ok := v.(*ssa.UnOp)
		if !ok || ld.Op != token.MUL {
			continue
		}
		fa, ok := ld.X.(*ssa.FieldAddr)
		if !ok || fa.X != fn.Params[0] {
			continue
		}
		// nothing else but the load in the body
		if len(b.Instrs) > 4 {
			continue
		}
		P.fieldGetters[recvTypeName(fn)+"."+fieldNameOf(fa.X.Type(), fa.Field)] = fn.Name()
	}
	return P, nil
}

func fnPkgPath(fn *ssa.Function) string {
	for f := fn; f != nil; f = f.Parent() {
		if f.Pkg != nil {
			return f.Pkg.Pkg.Path()
		}
		if o := f.Origin(); o != nil && o.Pkg != nil {
			return o.Pkg.Pkg.Path()
		}
	}
	if fn.Object() != nil && fn.Object().Pkg() != nil {
		return fn.Object().Pkg().Path()
	}
	return ""
}

// Func looks a function up by its go/ssa string, e.g.
// "(*github.com/ory/fosite.Fosite).NewAccessRequest" or "github.com/ory/fosite.IsValidRedirectURI".
func (P *Program) Func(name string) *ssa.Function { return P.funcIdx[name] }

// short makes function names readable: strips the module path.
func short(s string) string {
	s = strings.ReplaceAll(s, modPath+"/", "")
	s = strings.ReplaceAll(s, modPath+".", "fosite.")
	return s
}

func (P *Program) Pos(p token.Pos) string {
	if !p.IsValid() {
		return "-"
	}
	pos := P.Fset.Position(p)
	f := strings.TrimPrefix(pos.Filename, P.Dir+"/")
	return fmt.Sprintf("%s:%d", f, pos.Line)
}

func (P *Program) FnPos(fn *ssa.Function) string {
	if fn == nil {
		return "-"
	}
	return P.Pos(fn.Pos())
}

// Iface returns the named interface type pkg.Name.
func (P *Program) Iface(pkgPath, name string) *types.Interface {
	p := P.ByPath[pkgPath]
	if p == nil {
		return nil
	}
	o := p.Types.Scope().Lookup(name)
	if o == nil {
		return nil
	}
	i, _ := o.Type().Underlying().(*types.Interface)
	return i
}

// Implementations returns the module (subject) methods named method on every
// concrete named type that implements iface.
func (P *Program) Implementations(iface *types.Interface, method string) []*ssa.Function {
	var out []*ssa.Function
	if iface == nil {
		return nil
	}
	seen := map[*ssa.Function]bool{}
	for _, sp := range P.Subjects {
		for _, m := range sp.Members {
			tn, ok := m.(*ssa.Type)
			if !ok {
				continue
			}
			T := tn.Type()
			if types.IsInterface(T) {
				continue
			}
			for _, recv := range []types.Type{T, types.NewPointer(T)} {
				if !types.Implements(recv, iface) {
					continue
				}
				ms := P.SSA.MethodSets.MethodSet(recv)
				sel := ms.Lookup(sp.Pkg, method)
				if sel == nil {
					// exported methods: lookup with nil pkg
					sel = ms.Lookup(nil, method)
				}
				if sel == nil {
					continue
				}
				fn := P.SSA.MethodValue(sel)
				if fn == nil {
					continue
				}
				// unwrap promoted-method wrappers to the declared method
				if fn.Synthetic != "" {
					if d := P.declaredMethod(sel); d != nil {
						fn = d
					}
				}
				if fn.Synthetic != "" || len(fn.Blocks) == 0 {
					// promoted through an embedded interface: a delegator, not an implementation
					continue
				}
				if !isSubjectPkg(fnPkgPath(fn)) {
					continue
				}
				if !seen[fn] {
					seen[fn] = true
					out = append(out, fn)
				}
				break
			}
		}
	}
	sort.Slice(out, func(i, j int) bool { return out[i].String() < out[j].String() })
	return out
}

func (P *Program) declaredMethod(sel *types.Selection) *ssa.Function {
	f, ok := sel.Obj().(*types.Func)
	if !ok {
		return nil
	}
	return P.SSA.FuncValue(f)
}

// MethodsOf returns the declared methods (pointer and value receivers) of a named type.
func (P *Program) MethodsOf(pkgPath, typeName string) []*ssa.Function {
	var out []*ssa.Function
	for _, fn := range P.AllFuncs {
		if fn.Signature.Recv() == nil || fn.Parent() != nil {
			continue
		}
		rt := fn.Signature.Recv().Type()
		if p, ok := rt.(*types.Pointer); ok {
			rt = p.Elem()
		}
		n, ok := rt.(*types.Named)
		if !ok || n.Obj().Pkg() == nil {
			continue
		}
		if n.Obj().Pkg().Path() == pkgPath && n.Obj().Name() == typeName {
			out = append(out, fn)
		}
	}
	return out
}

// FuncDecl finds the syntax of a function (for rules that need the AST).
func (P *Program) FuncDecl(fn *ssa.Function) *ast.FuncDecl {
	if fn == nil {
		return nil
	}
	d, _ := fn.Syntax().(*ast.FuncDecl)
	return d
}

// recvTypeName returns "pkgpath.Type" of a method's receiver, or "".
func recvTypeName(fn *ssa.Function) string {
	if fn == nil || fn.Signature.Recv() == nil {
		return ""
	}
	rt := fn.Signature.Recv().Type()
	if p, ok := rt.(*types.Pointer); ok {
		rt = p.Elem()
	}
	if n, ok := rt.(*types.Named); ok && n.Obj().Pkg() != nil {
		return n.Obj().Pkg().Path() + "." + n.Obj().Name()
	}
	return ""
}

func fieldNameOf(t types.Type, i int) string {
	if p, ok := t.Underlying().(*types.Pointer); ok {
		t = p.Elem()
	}
	if s, ok := t.Underlying().(*types.Struct); ok && i < s.NumFields() {
		return s.Field(i).Name()
	}
	return ""
}

func namedKey(t types.Type) string {
	if p, ok := t.Underlying().(*types.Pointer); ok {
		t = p.Elem()
	}
	if p, ok := t.(*types.Pointer); ok {
		t = p.Elem()
	}
	if n, ok := t.(*types.Named); ok && n.Obj().Pkg() != nil {
		return n.Obj().Pkg().Path() + "." + n.Obj().Name()
	}
	return ""
}
