package main

import (
	"fmt"
	"go/types"
	"strings"

	"golang.org/x/tools/go/ssa"
)

func init() {
	register(&propInfo{
		ID:          "C17",
		Run:         runC17,
		MinObl:      18,
		Explanation: "Decided: R1 in the PAR continuation of NewAuthorizeRequest the isPAR==true exit requires DeletePARSession(same uri) to have returned nil and client_id(form) == client id of the stored pushed request; R2 RedirectURI/ResponseTypes/State/ResponseMode are written from the stored request's getters, Merge(stored) runs, and after the PAR branch returned true no field of the request is written before NewAuthorizeRequest returns; R3 the stored par_context expiry is read and compared with now on every isPAR==true path (or the stored session is nil); R4 push endpoint: success requires AuthenticateClient nil, an empty request_uri parameter, the form's client_id to be the authenticated client's id before the shared authorize-request pipeline loads the client from it, the pipeline's nil error, and redirect_uri for openid requests; handler: transport check, scope ForAll and audience strategy, request URI = configured prefix + encoding of ≥32 random bytes from hmac.RandomBytes, the URI stored is the URI returned, expires_in derives from the same lifespan term as the stored expiry; R5 without a pushed request the authorization endpoint proceeds to the client lookup only if PAR is not enforced. R1 also requires the caller's client_id to have been read from the form before Merge copied the pushed parameters into that same form (evaluation clock of the read vs. the Merge event). NOT decided: histories (one-time use across concurrent authorizations), other stores.",
	})
}

func authzCfg(c *Ctx) ExploreConfig {
	return ExploreConfig{Inline: c.storageReaching(defaultInline)}
}

func runC17(c *Ctx) {
	defer checkRequestGetters(c, "C17.R11")
	defer checkSessionSetExpiresAt(c, "C17.R10")
	defer checkStoreKeyed(c, "C17.R8", storeRow{meth: "CreatePARSession", table: "PARSessions", op: "create", key: 2}, storeRow{meth: "GetPARSession", table: "PARSessions", op: "get", key: 2}, storeRow{meth: "DeletePARSession", table: "PARSessions", op: "delete", key: 2})
	defer checkPARSessionOrder(c, "C17.R7")
	defer checkConfigGetters(c, "C17.R6", "EnforcePushedAuthorize", "GetPushedAuthorizeContextLifespan", "GetPushedAuthorizeRequestURIPrefix")
	c17Use(c)
	c17Merge(c)
	c17Push(c)
	c17Handler(c)
	c17RequestObject(c)
}

func c17Use(c *Ctx) {
	const role = "par-use"
	fn := c.P.Func("(*" + pkgRoot + ".Fosite).NewAuthorizeRequest")
	if fn == nil || !c.P.CallsNamed(fn, ".GetPARSession", 4) {
		c.RoleUnmatched("C17.R1", role, "(*Fosite).NewAuthorizeRequest reaching GetPARSession")
		return
	}
	ex := c.Explore(fn, authzCfg(c), "authz-storage")
	if !c.complete(ex, "C17.R1", role, fn) {
		return
	}
	parCtx := c.constTerm(pkgRoot, "PushedAuthorizeRequestContext")
	okDel, okCli, okAuth, okFrozen, okExp, okEnf := true, true, true, true, true, true
	whyCli := "isPAR success without the client comparison"
	var wDel, wCli, wAuth, wFrozen, wExp, wEnf *Path
	whyAuth, whyFrozen := "", ""
	nPAR, nNon := 0, 0
	for _, p := range ex.Paths {
		if p.Kind != "return" {
			continue
		}
		lk := p.First(".GetPARSession")
		// is this the isPAR==true continuation? success, with a PAR lookup that succeeded and no client lookup afterwards
		gc := p.First(".GetClient")
		if p.Success() && lk != nil && p.IsNil(lk.Ret(1)) && gc == nil {
			nPAR++
			stored := lk.Ret(0)
			del := p.First(".DeletePARSession")
			if del == nil || !p.IsNil(del.Result) || del.Arg(1).Key() != lk.Arg(1).Key() {
				okDel, wDel = false, p
			}
			// client binding
			found := false
			staleRead := false
			for _, f := range p.Facts {
				if f.Atom.Kind != "EQ" || !f.Pol {
					continue
				}
				for _, pr := range [][2]*Term{{f.Atom.A, f.Atom.B}, {f.Atom.B, f.Atom.A}} {
					a, b := pr[0], pr[1]
					if !(a.IsCall(".Get") && len(a.Args) == 2 && a.Args[1].Key() == tStr("client_id").Key()) {
						continue
					}
					if b.IsCall(".GetID") && b.Args[0].IsCall(".GetClient") {
						x := b.Args[0].Args[0]
						if x.Key() == stored.Key() {
							found = true
						}
						for _, m := range p.Calls(".Merge") {
							if m.Recv != nil && m.Recv.Key() == x.Key() && m.Arg(0).Key() == stored.Key() {
								// the request's form is the incoming form (one map): Merge copies the
								// pushed parameters, client_id included, into it. The caller's client_id
								// must have been read before that, or the comparison is of the pushed
								// client with itself.
								if a.Clock > m.Idx {
									staleRead = true
									continue
								}
								found = true
							}
						}
					}
				}
			}
			if !found {
				okCli, wCli = false, p
				if staleRead {
					whyCli = "the client_id compared with the pushed request's client is read from the form after Merge copied the pushed parameters (client_id included) into that same form"
				}
			}
			// authoritative fields
			want := map[string]string{"RedirectURI": ".GetRedirectURI", "ResponseTypes": ".GetResponseTypes", "State": ".GetState", "ResponseMode": ".GetResponseMode"}
			got := map[string]bool{}
			merged := false
			var last *Event
			for _, e := range p.Events {
				if e.Kind == "call" && e.Name == ".Merge" && e.Arg(0).Key() == stored.Key() {
					merged = true
				}
				if e.Kind == "store" && e.Idx > lk.Idx {
					if g, ok := want[e.Name]; ok {
						if e.Args[1].Key() == call(g, stored).Key() {
							got[e.Name] = true
						} else {
							okAuth, wAuth = false, p
							whyAuth = fmt.Sprintf("request.%s is written from %s, not from the pushed request", e.Name, clip(e.Args[1].Pretty(), 80))
						}
					}
				}
				if e.Kind == "call" && (e.Name == ".DeletePARSession") {
					last = e
				}
			}
			if !merged || len(got) != len(want) {
				okAuth, wAuth = false, p
				if whyAuth == "" {
					whyAuth = fmt.Sprintf("pushed values not installed completely (Merge=%v, fields=%d/4)", merged, len(got))
				}
			}
			// nothing written to the request after the PAR branch decided
			if last != nil {
				for _, e := range p.Events[last.Idx+1:] {
					if e.Kind == "store" || e.Kind == "call" && strings.HasPrefix(e.Name, ".Set") {
						okFrozen, wFrozen = false, p
						whyFrozen = fmt.Sprintf("%s %s (%s) modifies the request after the pushed values were installed", e.Kind, e.Name, c.P.Pos(e.Instr.Pos()))
					}
				}
			}
			// expiry read
			if parCtx != nil {
				sess := call(".GetSession", stored)
				exp := call(".GetExpiresAt", sess, parCtx)
				read := p.IsNil(sess)
				for _, f := range p.Facts {
					if f.Atom.Kind != "B" {
						continue
					}
					t := f.Atom.A
					if t.IsCall(".Before") && len(t.Args) == 2 && t.Args[0].Key() == exp.Key() && mentionsNow(t.Args[1]) && !f.Pol {
						read = true
					}
					if t.IsCall(".After") && len(t.Args) == 2 && t.Args[1].Key() == exp.Key() && mentionsNow(t.Args[0]) && !f.Pol {
						read = true
					}
					if t.IsCall(".After") && len(t.Args) == 2 && t.Args[0].Key() == exp.Key() && mentionsNow(t.Args[1]) && f.Pol {
						read = true
					}
					if t.IsCall(".Before") && len(t.Args) == 2 && t.Args[1].Key() == exp.Key() && mentionsNow(t.Args[0]) && f.Pol {
						read = true
					}
					if t.IsCall(".IsZero") && len(t.Args) == 1 && t.Args[0].Key() == exp.Key() && f.Pol {
						read = true
					}
				}
				if !read {
					okExp, wExp = false, p
				}
			}
		}
		// R5: proceeding to the client lookup without PAR
		if gc != nil && (lk == nil) {
			nNon++
			enf, k := p.BoolCallAt(gc, ".EnforcePushedAuthorize", nil)
			notProv := false
			for _, f := range p.Facts[:min(gc.NFacts, len(p.Facts))] {
				if f.Atom.Kind == "B" && !f.Pol && strings.HasPrefix(f.Atom.A.CallName(), "istype:") && strings.Contains(f.Atom.A.CallName(), "PushedAuthorizeRequestConfigProvider") {
					notProv = true
				}
			}
			if !(k && !enf) && !notProv {
				okEnf, wEnf = false, p
			}
		}
	}
	if nPAR == 0 {
		c.Bad("C17.R1", role, fn, "par-continuation", "a success path that continues from a pushed request exists", "none found", nil)
		return
	}
	c.Check(okDel, "C17.R1", role, fn, "one-time", "continuing from a pushed request requires DeletePARSession of the same request_uri to have succeeded", "isPAR success without a successful delete of the looked-up uri", wDel)
	c.Check(okCli, "C17.R1", role, fn, "client-bound", "continuing requires client_id(form, as sent by the caller) == client id of the pushed request", whyCli, wCli)
	c.Check(okAuth, "C17.R2", role, fn, "pushed-values-installed", "redirect URI, response types, state and response mode are taken from the pushed request and Merge(pushed) runs", whyAuth, wAuth)
	c.Check(okFrozen, "C17.R2", role, fn, "query-cannot-override", "after the pushed values were installed nothing writes to the request before it is returned", whyFrozen, wFrozen)
	if parCtx == nil {
		c.RoleUnmatched("C17.R3", role, "fosite.PushedAuthorizeRequestContext")
	} else {
		c.Check(okExp, "C17.R3", role, fn, "expiry-read", "the stored par_context expiry is compared with now on every continuation path (a nil stored session carries none)", "a pushed request is honoured without its expiry being read", wExp)
	}
	c.Check(okEnf && nNon > 0, "C17.R5", role, fn, "enforcement", "without a pushed request the endpoint proceeds to the client lookup only if EnforcePushedAuthorize is false (or PAR is not configured)", "the client lookup is reachable without the enforcement test", wEnf)
}

func mentionsNow(t *Term) bool {
	return t.Mentions(func(s *Term) bool {
		return s.Op == "call" && s.Name == "time.Now" || s.Op == "fn" && s.Name == "time.Now" || s.Op == "global" && strings.HasSuffix(s.Name, "jwt.TimeFunc")
	})
}

func c17Push(c *Ctx) {
	const rule, role = "C17.R4", "par-entry"
	fn := c.P.Func("(*" + pkgRoot + ".Fosite).NewPushedAuthorizeRequest")
	if fn == nil {
		c.RoleUnmatched(rule, role, "(*Fosite).NewPushedAuthorizeRequest")
		return
	}
	ex := c.Explore(fn, authzCfg(c), "authz-storage")
	if !c.complete(ex, rule, role, fn) {
		return
	}
	okA, okU, okC, okO := true, true, true, true
	var wA, wU, wC, wO *Path
	n := 0
	for _, p := range ex.Paths {
		if !p.Success() || p.Kind != "return" {
			continue
		}
		n++
		auth := p.First(".AuthenticateClient")
		if auth == nil || !p.IsNil(auth.Ret(1)) {
			okA, wA = false, p
			continue
		}
		// request_uri must be empty
		foundU := false
		for _, f := range p.Facts {
			if f.Atom.Kind == "EQ" && f.Pol {
				for _, pr := range [][2]*Term{{f.Atom.A, f.Atom.B}, {f.Atom.B, f.Atom.A}} {
					// read from the form the request is built from (body and query), not from a part of it
					if pr[0].IsCall(".Get") && len(pr[0].Args) == 2 && pr[0].Args[1].Key() == tStr("request_uri").Key() && pr[1].Key() == tStr("").Key() {
						src := pr[0].Args[0]
						if src.Op == "field" && src.Name == "Form" || src.IsCall(".GetRequestForm") {
							foundU = true
						}
					}
				}
			}
		}
		if !foundU {
			okU, wU = false, p
		}
		// client identity: the client loaded for the request (GetClient by form client_id) is the authenticated one
		gc := p.First(".GetClient")
		if gc != nil {
			idArg := gc.Arg(1)
			same := false
			// (a) form client_id known equal to GetID(authenticated client) before the lookup
			if p.EqAt(gc, idArg, getID(auth.Ret(0))) {
				same = true
			}
			// (b) the form value was just set to it: Set(form,"client_id",GetID(client)) on the empty branch
			for _, e := range p.Calls(".Set") {
				if e.Idx < gc.Idx && e.Arg(0).Key() == tStr("client_id").Key() && e.Arg(1).Key() == getID(auth.Ret(0)).Key() {
					same = true
				}
			}
			// (c) the client of the request that is returned is compared with the authenticated client
			if len(p.Rets) > 0 && (p.Eq(getID(getClient(p.Rets[0])), getID(auth.Ret(0))) || p.Eq(getID(gc.Ret(0)), getID(auth.Ret(0)))) {
				same = true
			}
			if !same {
				okC, wC = false, p
			}
		}
		// openid => redirect_uri
		oid, k := p.BoolCall(".Has", func(t *Term) bool { return len(t.Args) == 2 && litHas(t.Args[1], "openid") })
		if k && oid {
			nonEmpty := false
			for _, f := range p.Facts {
				if f.Atom.Kind == "EQ" && !f.Pol {
					for _, pr := range [][2]*Term{{f.Atom.A, f.Atom.B}, {f.Atom.B, f.Atom.A}} {
						if pr[0].IsCall(".Get") && len(pr[0].Args) == 2 && pr[0].Args[1].Key() == tStr("redirect_uri").Key() && pr[1].Key() == tStr("").Key() {
							nonEmpty = true
						}
					}
				}
			}
			if !nonEmpty {
				okO, wO = false, p
			}
		} else if !k {
			okO, wO = false, p
		}
	}
	if n == 0 {
		c.Bad(rule, role, fn, "success-path", "the endpoint has a success path", "none found", nil)
		return
	}
	c.Check(okA, rule, role, fn, "client-authenticated", "success requires AuthenticateClient to have returned a nil error", "success without authentication", wA)
	c.Check(okU, rule, role, fn, "no-request-uri", "a pushed request that itself carries request_uri is refused", "success without the request_uri parameter known empty", wU)
	c.Check(okC, rule, role, fn, "pushed-for-authenticated-client", "the client the pushed request is validated and stored for (looked up by the form's client_id) is the authenticated client", "the client lookup uses a client_id that is not known to be the authenticated client's id: a client can push a request in another client's name", wC)
	c.Check(okO, rule, role, fn, "openid-needs-redirect-uri", "an openid request is accepted only with a redirect_uri parameter", "success for an openid request without the redirect_uri test", wO)
}

func c17Handler(c *Ctx) { parHandlerRules(c, "C17.R4", "C17.R4") }

func parHandlerRules(c *Ctx, rule, expRule string) {
	const role = "par-handler"
	fns := c.Calling(c.PushFns(), ".CreatePARSession")
	if len(fns) == 0 {
		c.RoleUnmatched(rule, role, "push handler calling CreatePARSession")
		return
	}
	for _, fn := range fns {
		ex := c.Explore(fn, handlerCfg(), "handler")
		if !c.complete(ex, rule, role, fn) {
			continue
		}
		ar := reqParam(fn)
		okURI, okSec, okSc, okAu, okExp := true, true, true, true, true
		var wURI, wSec, wSc, wAu, wExp *Path
		whyURI := ""
		n := 0
		for _, p := range ex.Paths {
			cr := p.First(".CreatePARSession")
			if cr == nil {
				continue
			}
			n++
			uri := cr.Arg(1)
			// prefix + random
			hasPrefix := uri.Mentions(func(s *Term) bool { return s.IsCall(".GetPushedAuthorizeRequestURIPrefix") })
			var rnd *Term
			uri.Walk(func(s *Term) bool {
				if s.Op == "icall" && s.CallName() == "hmac.RandomBytes" {
					rnd = s
				}
				return true
			})
			if !hasPrefix || rnd == nil {
				okURI, wURI = false, p
				whyURI = "the request URI " + clip(uri.Pretty(), 100) + " is not built from the configured prefix and hmac.RandomBytes"
			} else if nb, ok := rnd.Args[0].IntConst(); !ok || nb < 32 {
				okURI, wURI = false, p
				whyURI = "the random part of the request URI has fewer than 32 bytes: " + rnd.Args[0].Pretty()
			}
			if p.Success() {
				set := p.Last(".SetRequestURI")
				if set == nil || set.Arg(0).Key() != uri.Key() || !p.IsNil(cr.Result) {
					okURI, wURI = false, p
					whyURI = "the URI returned to the client is not the URI stored (or the create error is not known nil)"
				}
				// expires_in from the same lifespan as the stored expiry
				ei := p.Last(".SetExpiresIn")
				life := func(t *Term) bool {
					return t.Mentions(func(s *Term) bool { return s.IsCall(".GetPushedAuthorizeContextLifespan") })
				}
				if ei == nil || !life(ei.Arg(0)) {
					okExp, wExp = false, p
				}
				for _, e := range p.Calls(".SetExpiresAt") {
					if !life(e.Arg(1)) || !mentionsNow(e.Arg(1)) {
						okExp, wExp = false, p
					}
				}
			}
			// transport check before storing
			sec := false
			for _, f := range p.Facts[:min(cr.NFacts, len(p.Facts))] {
				if f.Atom.Kind == "B" && f.Pol && (f.Atom.A.IsCall("apply") || f.Atom.A.IsCall("fosite.IsRedirectURISecure")) {
					a := f.Atom.A
					if a.Args[len(a.Args)-1].Key() == call(".GetRedirectURI", ar).Key() {
						sec = true
					}
				}
			}
			if !sec {
				okSec, wSec = false, p
			}
			// scopes ForAll: every iterated requested scope passed; and audience
			for i := 0; i < 3; i++ {
				el := mk("idx", "", call(".GetRequestedScopes", ar), tInt(int64(i)))
				tested := false
				for _, f := range p.Facts {
					if f.Atom.A != nil && f.Atom.A.Contains(el.Key()) {
						tested = true
					}
				}
				if tested && !strategyAccepted(p, cr, call(".GetScopes", getClient(ar)), el) {
					okSc, wSc = false, p
				}
			}
			if !audienceAccepted(p, cr, call(".GetAudience", getClient(ar)), call(".GetRequestedAudience", ar)) {
				okAu, wAu = false, p
			}
		}
		if n == 0 {
			continue
		}
		c.Check(okURI, rule, role, fn, "request-uri", "the request URI is the configured prefix plus an encoding of ≥32 bytes from hmac.RandomBytes, and the URI stored is the URI returned", whyURI, wURI)
		c.Check(okSec, rule, role, fn, "transport", "the pushed request is stored only if the redirect URI passed the secure-transport checker", "CreatePARSession reachable without the checker having accepted the redirect URI", wSec)
		c.Check(okSc, rule, role, fn, "scopes", "every requested scope iterated before storing passed the configured scope strategy against the client's scopes", "a requested scope is not validated", wSc)
		c.Check(okAu, rule, role, fn, "audience", "the requested audience passed the configured audience strategy before storing", "CreatePARSession reachable without the audience strategy having returned nil", wAu)
		c.Check(okExp, expRule, role, fn, "par-expires-in", "expires_in and the stored par_context expiry derive from the same configured lifespan (stored expiry = now + lifespan)", "expires_in or the stored expiry does not derive from GetPushedAuthorizeContextLifespan", wExp)
	}
}

var _ = (*ssa.Function)(nil)

// c17Merge: Request.Merge makes the merged (pushed) request's form values
// authoritative: every key of the merged form overwrites the receiver's value.
func c17Merge(c *Ctx) {
	const rule, role = "C17.R2", "request-merge"
	fn := c.P.Func("(*" + pkgRoot + ".Request).Merge")
	if fn == nil {
		c.RoleUnmatched(rule, role, "(*fosite.Request).Merge")
		return
	}
	ex := c.Explore(fn, ExploreConfig{}, "merge")
	if !c.complete(ex, rule, role, fn) {
		return
	}
	a, req := paramNamed(fn, 0), paramNamed(fn, 1)
	srcForm := call(".GetRequestForm", req)
	ok, n := true, 0
	var w *Path
	why := ""
	fields := map[string]string{"Client": ".GetClient", "Session": ".GetSession", "ID": ".GetID"}
	gotField := map[string]bool{}
	for _, p := range ex.Paths {
		for _, e := range p.Events {
			if e.Kind == "store" {
				if g, isF := fields[e.Name]; isF && addrRoot(e.Args[0]).Key() == a.Key() {
					if e.Args[1].Key() == call(g, req).Key() {
						gotField[e.Name] = true
					} else {
						ok, w, why = false, p, "Merge sets "+e.Name+" from "+clip(e.Args[1].Pretty(), 60)
					}
				}
			}
			if e.Kind != "mapupdate" {
				continue
			}
			m := e.Args[0]
			if !(m.Op == "field" && m.Name == "Form" && addrRoot(m).Key() == a.Key()) {
				continue
			}
			n++
			k, v := e.Args[1], e.Args[2]
			if !(k.Op == "rangekey" && k.Args[0].Key() == srcForm.Key()) {
				ok, w, why = false, p, "a form key that does not come from the merged request is written: "+k.Pretty()
				continue
			}
			want := mk("rangeval", "", srcForm, k.Args[1])
			// the merged request's value for that key: the range value, or the same thing looked up again
			want2 := mk("lookup", "", srcForm, k)
			usesOwn := v.Mentions(func(t *Term) bool { return t.Op == "field" && t.Name == "Form" && addrRoot(t).Key() == a.Key() })
			if !(v.Contains(want.Key()) || v.Contains(want2.Key())) || usesOwn {
				ok, w, why = false, p, "the receiver's form value for a merged key is "+clip(v.Pretty(), 100)+": it must be exactly the merged request's value (the receiver's own value may not survive)"
			}
		}
	}
	// every key of the merged request is written, unconditionally: an iteration that does not store
	// (a "don't clobber" guard) lets the receiver's own value survive
	for _, p := range ex.Paths {
		iterated, written := map[string]bool{}, map[string]bool{}
		for _, f := range p.Facts {
			if f.Atom.Kind == "B" && f.Pol && f.Atom.A.IsCall("hasnext") && len(f.Atom.A.Args) == 2 && f.Atom.A.Args[0].Contains(srcForm.Key()) {
				iterated[f.Atom.A.Args[1].Key()] = true
			}
		}
		for _, e := range p.Events {
			if e.Kind == "mapupdate" && e.Args[0].Op == "field" && e.Args[0].Name == "Form" && e.Args[1].Op == "rangekey" && len(e.Args[1].Args) == 2 {
				written[e.Args[1].Args[1].Key()] = true
			}
		}
		for k := range iterated {
			if !written[k] {
				ok, w, why = false, p, "an iteration over the merged request's form (element "+k+") does not store into the receiver's form"
			}
		}
	}
	c.Check(ok && n > 0, rule, role, fn, "merged-form-authoritative", "Request.Merge overwrites the receiver's form value of every key of the merged request with the merged request's value", why, w)
	c.Check(len(gotField) == len(fields), rule, role, fn, "merged-identity-authoritative", "Request.Merge takes id, client and session from the merged request", fmt.Sprintf("fields set from the merged request: %d/3", len(gotField)), nil)
}

// C17.R9 — a pushed request object must not itself carry request_uri. The
// request-object step is shared with the authorization endpoint; for a push
// (isPARRequest) it merges the object's claims into the stored form, so the
// refusal has to look at the claims: every path of the step that merges claims
// while isPARRequest is true knows claims["request_uri"] to be empty. (The form
// parameter of the same name was refused earlier and is always empty here.)
func c17RequestObject(c *Ctx) {
	const rule, role = "C17.R9", "request-object"
	fn := c.P.Func("(*" + pkgRoot + ".Fosite).authorizeRequestParametersFromOpenIDConnectRequest")
	if fn == nil {
		c.RoleUnmatched(rule, role, "(*Fosite).authorizeRequestParametersFromOpenIDConnectRequest")
		return
	}
	var isPAR *Term
	for i, p := range fn.Params {
		if b, ok := p.Type().Underlying().(*types.Basic); ok && b.Kind() == types.Bool {
			isPAR = paramTerm(i, p)
		}
	}
	if isPAR == nil {
		c.RoleUnmatched(rule, role, "the isPARRequest parameter of the request-object step")
		return
	}
	ex := c.Explore(fn, rootCfg(), "root")
	if !c.complete(ex, rule, role, fn) {
		return
	}
	ok, n := true, 0
	var w *Path
	for _, p := range ex.Paths {
		if p.Kind != "return" || !p.Holds(atomB(isPAR), true) {
			continue
		}
		merged := false
		for _, e := range p.Calls(".Set") {
			if e.Recv != nil && e.Recv.Op == "field" && e.Recv.Name == "Form" && e.Arg(0).Op == "rangekey" {
				merged = true
			}
		}
		if !merged {
			continue
		}
		n++
		empty := false
		isClaim := func(t *Term) bool {
			return t.Mentions(func(x *Term) bool {
				return x.Op == "lookup" && len(x.Args) == 2 && x.Args[1].Key() == tStr("request_uri").Key() && x.Args[0].Mentions(func(s *Term) bool { return s.Op == "field" && s.Name == "Claims" })
			})
		}
		for _, f := range p.Facts {
			for _, side := range []*Term{f.Atom.A, f.Atom.B} {
				if side == nil {
					continue
				}
				cand := side
				if side.IsCall("len") && len(side.Args) == 1 {
					cand = side.Args[0]
				}
				if isClaim(cand) && p.EmptyStr(cand) {
					empty = true
				}
			}
		}
		if !empty {
			ok, w = false, p
		}
	}
	c.Check(ok && n > 0, rule, role, fn, "pushed-object-without-request-uri", "for a push, request-object claims are merged into the form only if the object's request_uri claim is known empty", "claims of a pushed request object are merged without its request_uri claim having been tested", w)
}
