package main

import (
	"fmt"
	"strings"
)

// C02.R5 — the stored authorize request keeps what the token endpoint compares.
// The redirect_uri binding (R2) reads the redirect_uri of the *stored* request's
// form; IssueAuthorizeCode stores ar.Sanitize(whitelist). The binding is vacuous
// if the whitelist in force drops redirect_uri: whenever the operator configured
// no list, the default must contain it (a configured, non-empty list is the
// operator's responsibility).
func c02Whitelist(c *Ctx) {
	const rule, role = "C02.R5", "code-store"
	n := 0
	for _, en := range c.allEntries() {
		if en.role == "endpoint" || !c.P.CallsNamed(en.fn, ".CreateAuthorizeCodeSession", 3) {
			continue
		}
		cfg := en.cfg
		base := cfg.Inline
		if base == nil {
			base = defaultInline
		}
		cfg.Inline = c.storageReaching(base)
		// the handler's own whitelist helper is a getter by name; it is the thing to look into
		cfg.ForceInline = func(f *ssaFunction) bool {
			return f.Name() == "GetSanitationWhiteList" && strings.HasPrefix(fnPkgPath(f), modPath+"/handler/")
		}
		ex := c.Explore(en.fn, cfg, en.tag+"-storage-whitelist")
		if !c.complete(ex, rule, role, en.fn) {
			continue
		}
		ok, m := true, 0
		var w *Path
		why := ""
		for _, p := range ex.Paths {
			for _, e := range p.Calls(".CreateAuthorizeCodeSession") {
				m++
				req := e.Arg(2)
				if !req.IsCall(".Sanitize") || len(req.Args) != 2 {
					continue // stored unsanitized: everything is kept (C20 judges that)
				}
				wl := req.Args[1]
				if wl.Op == "lit" {
					has := false
					for _, a := range wl.Args {
						if v, isC := a.StrConst(); isC && v == "redirect_uri" {
							has = true
						}
					}
					if !has {
						ok, w, why = false, p, "the default whitelist "+clip(wl.Pretty(), 60)+" does not keep redirect_uri"
					}
					continue
				}
				// a configured list: only when it is known non-empty
				lo, _ := p.IntBoundsAt(e, call("len", wl))
				if lo == nil || *lo < 1 {
					ok, w, why = false, p, "the request is stored with whitelist "+clip(wl.Pretty(), 60)+" which may be empty: redirect_uri is dropped and the token endpoint has nothing to compare"
				}
			}
		}
		if m > 0 {
			n++
			c.Check(ok, rule, role, en.fn, "stored-request-keeps-redirect-uri", "the authorize request is stored with a whitelist that keeps redirect_uri (the default list) or with the operator's non-empty list", why, w)
		}
	}
	if n < 2 {
		c.RoleUnmatched(rule, role, fmt.Sprintf("code and hybrid authorize handlers storing the authorize request; found %d", n))
	}
}

// C02.R6 — "no parameter of the token request can add to or change them": the
// override steps of the code handler (SetRequestedScopes / SetRequestedAudience
// with the stored values) only override if the setters really replace. Every
// path of the setter resets the field before appending, whatever the argument.
func c02Setters(c *Ctx) {
	const rule, role = "C02.R6", "request-setter"
	for _, m := range []struct{ meth, fld string }{{"SetRequestedScopes", "RequestedScope"}, {"SetRequestedAudience", "RequestedAudience"}} {
		fn := c.P.Func("(*" + pkgRoot + ".Request)." + m.meth)
		if fn == nil {
			c.RoleUnmatched(rule, role, "(*Request)."+m.meth)
			continue
		}
		ex := c.Explore(fn, ExploreConfig{Inline: func(*ssaFunction) bool { return false }}, "setter")
		if !c.complete(ex, rule, role, fn) {
			continue
		}
		ok, n := true, 0
		var w *Path
		for _, p := range ex.Paths {
			if p.Kind != "return" {
				continue
			}
			n++
			// the first thing that happens to the field is a store of a value that does not depend on
			// its previous content (nil, a fresh slice, or something computed from the argument only)
			reset := false
			old := field(paramNamed(fn, 0), m.fld)
			for _, e := range p.Events {
				if e.Kind == "store" && e.Name == m.fld && len(e.Args) == 2 {
					reset = !e.Args[1].Contains(old.Key())
					break
				}
				if e.Kind == "call" && strings.HasPrefix(e.Name, ".Append") {
					break
				}
			}
			if !reset {
				ok, w = false, p
			}
		}
		c.Check(ok && n > 0, rule, role, fn, "replaces", m.meth+" resets "+m.fld+" on every path before appending (also for an empty argument)", "a path keeps the previous value", w)
	}
}
