package main

import "fmt"

// C13.R6 — the flow's default response mode is always recorded. The guard of
// NewAuthorizeResponse ("default is fragment and the mode is query ⇒ refuse")
// reads DefaultResponseMode; a setter that records it only when no explicit
// response_mode was sent leaves it empty exactly in the case the guard exists
// for (response_mode=query with a token-carrying response type).
func c13Setter(c *Ctx) {
	const rule, role = "C13.R6", "default-mode-setter"
	fn := c.P.Func("(*" + pkgRoot + ".AuthorizeRequest).SetDefaultResponseMode")
	if fn == nil {
		c.RoleUnmatched(rule, role, "(*AuthorizeRequest).SetDefaultResponseMode")
		return
	}
	ex := c.Explore(fn, ExploreConfig{}, "setter")
	if !c.complete(ex, rule, role, fn) {
		return
	}
	arg := paramNamed(fn, 1)
	ok, n := true, 0
	var w *Path
	for _, p := range ex.Paths {
		if p.Kind != "return" {
			continue
		}
		n++
		set := false
		for _, e := range p.Events {
			if e.Kind == "store" && e.Name == "DefaultResponseMode" && len(e.Args) == 2 && e.Args[1].Key() == arg.Key() {
				set = true
			}
		}
		if !set {
			ok, w = false, p
		}
	}
	c.Check(ok && n > 0, rule, role, fn, "records-default-always", "SetDefaultResponseMode stores its argument into DefaultResponseMode on every path (also when an explicit response_mode was sent)", "a path leaves DefaultResponseMode unset", w)
}

// C13.R11 — the provider's minimum parameter entropy has a floor. The state
// length test reads Fosite.GetMinParameterEntropy, which hands out the
// configured value only when it is positive and the package default otherwise;
// a configurator that answers 0 for "not configured" must not switch the state
// check off.
func c13MinEntropyWrapper(c *Ctx) {
	const rule, role = "C13.R11", "entropy-floor"
	fn := c.P.Func("(*" + pkgRoot + ".Fosite).GetMinParameterEntropy")
	if fn == nil {
		c.RoleUnmatched(rule, role, "(*Fosite).GetMinParameterEntropy")
		return
	}
	ex := c.Explore(fn, ExploreConfig{}, "entropy")
	if !c.complete(ex, rule, role, fn) {
		return
	}
	ok, n := true, 0
	why := ""
	var w *Path
	for _, p := range ex.Paths {
		if p.Kind != "return" || len(p.Rets) != 1 {
			continue
		}
		n++
		r := p.Rets[0]
		if v, isC := r.IntConst(); isC {
			if v < 8 {
				ok, w, why = false, p, fmt.Sprintf("the default handed out is %d", v)
			}
			continue
		}
		lo, _ := p.IntBounds(r)
		if lo == nil || *lo < 1 {
			ok, w, why = false, p, "the configured value "+clip(r.Pretty(), 60)+" is handed out without being known positive"
		}
	}
	c.Check(ok && n >= 2, rule, role, fn, "configured-only-if-positive", "Fosite.GetMinParameterEntropy returns the configured value only if it is positive, the package default (8) otherwise", why, w)
}
