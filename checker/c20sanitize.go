package main

import "fmt"

// C20.R5 — Sanitize really filters. R4 trusts the whitelist handed to
// Requester.Sanitize (a constant list disjoint from the endpoint's secret form
// keys, possibly nil). That trust is only warranted if the implementation copies
// a form key into the sanitized copy exclusively when the key is in the set built
// from that whitelist (plus the fixed default keys): a "nil means keep
// everything" shortcut stores client_secret / client_assertion wherever
// Sanitize(nil) is used (device authorization).
func c20Sanitize(c *Ctx) {
	const rule, role = "C20.R5", "sanitize-impl"
	fns := c.Impls(pkgRoot, "Requester", "Sanitize")
	n := 0
	for _, fn := range fns {
		ex := c.Explore(fn, ExploreConfig{}, "sanitize")
		if !c.complete(ex, rule, role, fn) {
			continue
		}
		recv := paramNamed(fn, 0)
		wl := paramNamed(fn, 1)
		ok, copies := true, 0
		var w *Path
		why := ""
		for _, p := range ex.Paths {
			// the allowed set: a fresh map that only ever receives "true" for elements of the whitelist / defaults
			allowed := map[string]bool{}
			for _, e := range p.Events {
				if e.Kind == "mapupdate" && e.Args[0].Op == "make" && len(e.Args) == 3 && e.Args[2].Key() == tTrue.Key() {
					src := e.Args[1]
					fromList := src.Mentions(func(t *Term) bool { return t.Key() == wl.Key() || t.Op == "global" })
					if !fromList {
						ok, w, why = false, p, "the allowed set receives "+clip(src.Pretty(), 60)+", which is neither a whitelist element nor a default key"
					}
					allowed[e.Args[0].Key()] = true
				}
			}
			for _, e := range p.Events {
				if e.Kind != "mapupdate" || len(e.Args) != 3 || allowed[e.Args[0].Key()] {
					continue
				}
				val := e.Args[2]
				fromForm := val.Mentions(func(t *Term) bool {
					return (t.Op == "lookup" || t.Op == "rangeval") && len(t.Args) == 2 && t.Args[0].Op == "field" && t.Args[0].Name == "Form" && addrRoot(t.Args[0]).Key() == recv.Key()
				})
				if !fromForm {
					continue
				}
				copies++
				key := e.Args[1]
				// a key taken from the whitelist / default list itself is allowed by construction
				inSet := key.Mentions(func(t *Term) bool { return t.Key() == wl.Key() || t.Op == "global" }) && !key.Mentions(func(t *Term) bool { return t.Op == "rangekey" })
				// membership of the key in a fresh local set other than the destination (the set may have
				// received no element on this path: the engine does not know the default list is non-empty)
				for _, f := range p.Facts[:min(e.NFacts, len(p.Facts))] {
					if f.Atom.Kind == "B" && f.Pol && f.Atom.A.Op == "lookup" && len(f.Atom.A.Args) == 2 && f.Atom.A.Args[0].Op == "make" && f.Atom.A.Args[0].Key() != e.Args[0].Key() && f.Atom.A.Args[1].Key() == key.Key() {
						inSet = true
					}
				}
				if !inSet {
					ok, w, why = false, p, fmt.Sprintf("form key %s is copied into the sanitized request (%s) without being known to be in the allowed set", clip(key.Pretty(), 40), c.P.Pos(e.Instr.Pos()))
				}
			}
		}
		if copies > 0 {
			n++
			c.Check(ok, rule, role, fn, "copies-only-allowed-keys", "Sanitize copies a form key into the sanitized request only if it is in the set built from its whitelist argument and the fixed default keys", why, w)
		}
	}
	if n == 0 {
		c.RoleUnmatched(rule, role, "implementation of Requester.Sanitize that copies form keys")
	}
}
